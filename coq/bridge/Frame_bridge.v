(* Bridge for DataFrames: the GENERATED _traverse_graph_dataframe is one independent fresh
   reference walk per column, re-assembled by label. *)
From Coq Require Import List Bool ZArith Lia.
Import ListNotations.
From V Require Import PyBase NxModel WalkSpec Engine_gen Engine_bridge.
Open Scope py_scope.

Section FrameBridge.
  Context {T D St L F : Type} (X : ctx T D St L F).

  (* the per-column results, in column order *)
  Definition col_walks (g : graph T D St) fuel (root : T) (df : F)
    : res (list (L * (D * list T * St))) :=
    map_res (fun col => s <- frame_getitem X df col ;; r <- fresh_walk X g fuel root s ;; ret (col, r))
            (frame_columns X df).

  Definition put {V} (d : @od L V) (k : L) (v : V) := od_setitem (L_eqb X) d k v.
  Definition collect {V} (f : D * list T * St -> V) (l : list (L * (D * list T * St))) (acc : @od L V) : @od L V :=
    fold_left (fun a kv => put a (fst kv) (f (snd kv))) l acc.

  Theorem traverse_dataframe_eq fuel df root g :
    _traverse_graph_dataframe X fuel df root g =
    (cols <- col_walks g fuel root df ;;
     let d := od_of_pairs (L_eqb X) cols in
     ret (frame_of_dict X (collect (fun r => fst (fst r)) d []),
          collect (fun r => snd (fst r)) d [],
          collect (fun r => snd r) d [])).
  Proof.
    unfold _traverse_graph_dataframe, col_walks. cbn zeta.
    match goal with |- bind (map_res ?f ?l) _ = bind (map_res ?f' ?l) _ =>
      assert (E : map_res f l = map_res f' l) end.
    { induction (frame_columns X df) as [|c cs IH]; [reflexivity|]. cbn [map_res].
      destruct (frame_getitem X df c) as [s|e]; cbn [bind ret]; [|reflexivity].
      rewrite traverse_graph_eq. destruct (fresh_walk X g fuel root s); cbn [bind ret]; [|reflexivity].
      rewrite IH. reflexivity. }
    rewrite E. clear E.
    destruct (map_res _ (frame_columns X df)) as [cols|e]; cbn [bind ret]; [|reflexivity].
    generalize (od_of_pairs (L_eqb X) cols). intro d.
    assert (G : forall a1 a2 a3,
      for_each (R:=unit) d (a1, a2, a3, tt)
        (fun x_34 '(inferred_series, inferred_paths, inferred_states, _) =>
           let '(col, (inf_series, inf_path, inf_state)) := x_34 in
           if true then
             ret (LContinue (od_setitem (L_eqb X) inferred_series col inf_series,
                             od_setitem (L_eqb X) inferred_paths col inf_path,
                             od_setitem (L_eqb X) inferred_states col inf_state, tt))
           else Raise AssertionError)
      = Ok (LoopDone (collect (fun r => fst (fst r)) d a1, collect (fun r => snd (fst r)) d a2,
                      collect (fun r => snd r) d a3, tt))).
    { induction d as [|[k [[s p] st]] d IH]; intros a1 a2 a3; [reflexivity|].
      cbn [for_each]. cbn. rewrite IH. reflexivity. }
    rewrite G. reflexivity.
  Qed.

  Theorem VT_detect_frame_eq fuel ts df :
    VT_detect_frame X fuel ts df =
    (r <- root_of X ts ;; out <- _traverse_graph_dataframe X fuel df r (base_graph ts) ;; ret (out, with_root ts r)).
  Proof.
    unfold VT_detect_frame. cbn zeta. rewrite VT_root_node_eq.
    destruct (root_of X ts) as [r|e]; cbn [bind ret]; [|reflexivity].
    assert (base_graph (with_root ts r) = base_graph ts) as -> by (unfold with_root; destruct ts as [[?|] ? ? ?]; reflexivity).
    destruct (_traverse_graph_dataframe X fuel df r (base_graph ts)); reflexivity.
  Qed.

  Theorem VT_infer_frame_eq fuel ts df :
    VT_infer_frame X fuel ts df =
    (r <- root_of X ts ;; out <- _traverse_graph_dataframe X fuel df r (relation_graph ts) ;; ret (out, with_root ts r)).
  Proof.
    unfold VT_infer_frame. cbn zeta. rewrite VT_root_node_eq.
    destruct (root_of X ts) as [r|e]; cbn [bind ret]; [|reflexivity].
    assert (relation_graph (with_root ts r) = relation_graph ts) as -> by (unfold with_root; destruct ts as [[?|] ? ? ?]; reflexivity).
    destruct (_traverse_graph_dataframe X fuel df r (relation_graph ts)); reflexivity.
  Qed.
End FrameBridge.
