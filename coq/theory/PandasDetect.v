(* PandasDetect: C01 end to end in the model.  The engine (generated from typeset.py), the constructor theorem
   (GraphWF), the relation table (generated from types/*.py) and the pandas membership predicates (generated from
   backends/pandas/types/*.py) composed: for EVERY abstract pandas series, EVERY closed set of shipped types in ANY
   supply order, and ANY guards/transformers on the inference relations, detect returns the series itself with a
   path from Generic along identity relations on which every type's generated contains_op holds, ending in a type
   none of whose identity children in the typeset contains the series. *)
From Coq Require Import List Bool ZArith Lia Permutation Arith.
Import ListNotations.
From V Require Import PyBase NxModel NxFacts Values Engine_gen Shipped_gen ShippedFacts PandasContains_gen ContainsTheory TotalTheory
     Graph_bridge GraphWF AlgebraTheory ShippedGraph DetectWF.
Open Scope py_scope.

(* abstract series whose dtype facts are sane (a categorical dtype has the .cat accessor: measured on every abstracted series) *)
Definition okseries := { s : series | cat_ok (s_dtype s) = true }.

Definition pcont (t : ty) (d : okseries) : bool :=
  match pandas_contains t (proj1_sig d) with Ok b => b | Raise _ => false end.

Lemma pcont_spec t d : pandas_contains t (proj1_sig d) = Ok (pcont t d).
Proof. unfold pcont. destruct (contains_never_raises t (proj1_sig d) (proj2_sig d)) as [b E]. rewrite E. reflexivity. Qed.

Section PandasDetect.
  (* set iteration order; guards and transformers of inference (and explicitly guarded) relations: arbitrary *)
  Variable si : list ty -> list ty.
  Hypothesis Hsi : forall l, NoDup l -> Permutation (si l) l.
  Variable oguard : ty -> ty -> okseries -> unit -> res (bool * unit).
  Variable otrans : ty -> ty -> okseries -> unit -> res (okseries * unit).

  Definition prel (t : ty) (d : ty * bool * bool * bool) : relation ty okseries unit :=
    let '(r, inf, er, et) := d in
    mkRel r t inf
      (if orb inf er then oguard r t else fun s st => Ok (pcont t s, st))      (* default guard: the declaring type's contains_op *)
      (if orb inf et then otrans r t else fun s st => Ok (s, st)).             (* default transformer: identity *)

  Definition pandas_ctx : ctx ty okseries unit unit unit :=
    mkCtx ty_eqb (fun _ _ => true) (fun t => map (prel t) (declared t)) (fun t s st => Ok (pcont t s, st))
          (fun t => ty_eqb t tGeneric) tGeneric si (fun _ => tt) (fun s => Z.of_nat (length (s_vals (proj1_sig s)))) (fun d _ => d)
          (fun _ => []) (fun _ _ => Raise KeyError) (fun _ => tt) (fun l => l)
          (fun _ _ => Raise KeyError) (fun t => Z.of_nat (ty_name t)) (fun _ _ => 0%Z).

  Lemma prel_related t d : related_type (prel t d) = related d.
  Proof. destruct d as [[[r i] a] b]. reflexivity. Qed.
  Lemma prel_inferential t d : inferential (prel t d) = negb (is_identity d).
  Proof. destruct d as [[[r i] a] b]. simpl. destruct i; reflexivity. Qed.
  Lemma prel_type t d : type_ (prel t d) = t.
  Proof. destruct d as [[[r i] a] b]. reflexivity. Qed.

  Lemma pandas_table_ok : table_ok pandas_ctx rk.
  Proof.
    apply (any_table_ok pandas_ctx prel); try reflexivity; try exact Hsi.
    - exact prel_related. - exact prel_inferential. - exact prel_type.
  Qed.

  Lemma pandas_closed S : In tGeneric S -> parent_closed S = true -> closed pandas_ctx S.
  Proof.
    apply (any_closed pandas_ctx prel); try reflexivity.
    - exact prel_related. - exact prel_inferential.
  Qed.

  (* T5 of the table: no shipped identity relation passes an explicit relationship or transformer *)
  Lemma pandas_identity_defaults t r : In r (relations pandas_ctx t) -> inferential r = false ->
    (forall d st, relationship r d st = Ok (pcont t d, st)) /\ (forall d st, transformer r d st = Ok (d, st)).
  Proof.
    simpl. intros Hr Hinf. apply in_map_iff in Hr. destruct Hr as [[[[rt i] er] et] [E Hd]]. subst r. simpl in Hinf. subst i.
    destruct shipped_table_facts as [_ [_ [_ [_ [H5 _]]]]]. unfold T5_identity_defaults in H5. rewrite forallb_forall in H5.
    specialize (H5 t (all_types_complete t)). rewrite forallb_forall in H5. specialize (H5 _ Hd). simpl in H5.
    apply andb_true_iff in H5. destruct H5 as [A B]. apply negb_true_iff in A. apply negb_true_iff in B. subst er et.
    simpl. split; reflexivity.
  Qed.

  Theorem pandas_detect_sound types w fuel (d : okseries) :
    In tGeneric types -> parent_closed types = true ->
    exists ts w', VT_init pandas_ctx (VT_blank pandas_ctx) types w = Ok (tt, ts, w') /\
      forall out ts', VT_detect pandas_ctx fuel ts d = Ok (out, ts') ->
      exists rest,
        out = (d, tGeneric :: rest, tt) /\
        Forall (fun v => pandas_contains v (proj1_sig d) = Ok true) rest /\
        parent_chain pandas_ctx tGeneric rest /\ Forall (fun v => In v types) rest /\
        (forall v, In v types -> identity_parent_of pandas_ctx (last rest tGeneric) v -> pandas_contains v (proj1_sig d) = Ok false).
  Proof.
    intros HG Hpc.
    destruct (detect_sound_for_constructed_typesets pandas_ctx rk pandas_table_ok pcont pandas_identity_defaults types w fuel d (pandas_closed types HG Hpc))
      as [ts [w' [E K]]].
    exists ts, w'. split; [exact E|]. intros out ts' Hd. destruct (K out ts' Hd) as [rest [A [B [C0 [D0 E0]]]]].
    exists rest. split; [exact A|]. split.
    - rewrite Forall_forall in *. intros v Hv. rewrite pcont_spec, (B v Hv). reflexivity.
    - split; [exact C0|]. split; [exact D0|]. intros v Hv Hp. rewrite pcont_spec, (E0 v Hv Hp). reflexivity.
  Qed.
End PandasDetect.
