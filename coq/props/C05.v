(* C05 - Inputs are never mutated; no-op casts return the input object itself.
   Identity part, over the GENERATED engine: a traversal that only takes relations whose transformer is
   identity_transform - which is every identity relation of the regenerated table (T5 of props/C14.v), hence
   every detect, and every infer whose path has no inference relation - returns the data it was given (the
   generated identity_transform returns its argument).  Non-mutation: values of the model are immutable; it
   is carried by the translator (a store into an argument is rejected) and by snapshots on the implementation. *)
From Coq Require Import List Bool ZArith.
Import ListNotations.
From V Require Import PyBase NxModel WalkSpec Engine_gen Engine_bridge EngineTheory InferTheory.
Open Scope py_scope.

Theorem C05_identity_transform_returns_its_argument :
  forall (T D St L F : Type) (X : ctx T D St L F) (d : D) (st : St), identity_transform X d st = Ok (d, st).
Proof. reflexivity. Qed.

Theorem C05_noop_cast_returns_the_input :
  forall (T D St L F : Type) (X : ctx T D St L F) (g : graph T D St) fuel root d st dout hops st',
    walk (succ_of X g) fuel root d st [] = Ok (dout, root :: hops, st') ->
    identity_hops X g root hops -> dout = d.
Proof. exact @noop_traversal_returns_input. Qed.
Print Assumptions C05_noop_cast_returns_the_input.

(* detect: with contains-guarded identity edges the returned data is the input and the state is untouched *)
Theorem C05_detect_returns_the_input :
  forall (T D St L F : Type) (X : ctx T D St L F) (cont : T -> D -> bool) fuel ts d out ts',
    contains_graph X (base_graph ts) cont ->
    VT_detect X fuel ts d = Ok (out, ts') -> fst (fst out) = d.
Proof.
  intros T D St L F X cont fuel ts d out ts' Hg H. rewrite VT_detect_eq in H.
  destruct (root_of X ts) as [root|e]; cbn [bind ret] in H; [|discriminate]. unfold fresh_walk in H.
  destruct (walk (succ_of X (base_graph ts)) fuel root d (empty_state X tt) []) as [o|e] eqn:W; cbn [bind ret] in H; [|discriminate].
  inversion H; subst. apply walk_walks in W.
  destruct (detect_walk_sound X (base_graph ts) cont Hg _ _ _ _ _ W) as [rest [-> _]]. reflexivity.
Qed.
Print Assumptions C05_detect_returns_the_input.
