(* Reference LRU: (1) a one-step functional spec on the cache contents, (2) the abstract,
   history-only description of which keys an LRU cache of capacity [cap] holds. *)
From Coq Require Import List Bool ZArith Lia.
Import ListNotations.
From V Require Import PyBase.
Open Scope py_scope.

Section LruSpec.
  Context {A K V : Type} (K_eqb : K -> K -> bool).
  Variable h : A -> K.            (* key function (hash_func) *)
  Variable f : A -> res V.        (* wrapped function *)

  (* one call of the wrapped function on cache contents [st] (oldest first) *)
  Definition spec_get (cap : Z) (st : @od K V) (a : A) : res (V * @od K V) :=
    let k := h a in
    match od_find K_eqb st k with
    | Some v => Ok (v, od_remove K_eqb st k ++ [(k, v)])
    | None =>
        v <- f a ;;
        let st' := st ++ [(k, v)] in
        Ok (v, if Z.gtb (py_len st') cap then tl st' else st')
    end.

  (* a whole history of calls: results in call order and the final contents *)
  Fixpoint spec_run (cap : Z) (st : @od K V) (hist : list A) : res (list V * @od K V) :=
    match hist with
    | [] => Ok ([], st)
    | a :: hist' =>
        '(v, st1) <- spec_get cap st a ;;
        '(vs, st2) <- spec_run cap st1 hist' ;;
        Ok (v :: vs, st2)
    end.

  (* ---- abstract LRU over keys only: depends on nothing but the history of keys ---- *)
  Fixpoint remove_key (k : K) (l : list K) : list K :=
    match l with
    | [] => []
    | k' :: l' => if K_eqb k k' then l' else k' :: remove_key k l'
    end.

  Definition mem_key (k : K) (l : list K) : bool := existsb (K_eqb k) l.

  (* recency list, least recently used first, truncated to the [cap] most recent *)
  Definition touch (cap : nat) (l : list K) (k : K) : list K :=
    if mem_key k l then remove_key k l ++ [k]
    else let l' := l ++ [k] in if Nat.ltb cap (length l') then tl l' else l'.

  Definition lru_keys (cap : nat) (hist : list K) : list K := fold_left (touch cap) hist [].

  (* the calls of [hist] that are misses for an abstract LRU cache of capacity cap *)
  Fixpoint misses_from (cap : nat) (l : list K) (hist : list A) : list A :=
    match hist with
    | [] => []
    | a :: hist' =>
        (if mem_key (h a) l then [] else [a]) ++ misses_from cap (touch cap l (h a)) hist'
    end.
End LruSpec.
