"""Running Python-side property oracles (S2) over the shared streams, with known-finding
classification.  An oracle is a function  f(ctx, item, obj) -> list of failure dicts  where each
failure has at least {"what": str, "class": str}.  `class` is the key a known finding is matched on
together with the finding's own predicate (vfw/known.py)."""
import json
import os
import time
import traceback
import warnings

from . import common as C
from . import known, streams


def load_known(prop):
    p = os.path.join(C.VERIF, "KNOWN_FINDINGS.json")
    if not os.path.exists(p):
        return []
    return [e for e in json.load(open(p)).get("findings", []) if e["property"] == prop and e.get("status") == "known"]


def classify(prop, failure, kn):
    for e in kn:
        m = e.get("match")
        if m is not None:
            if failure.get("backend", "pandas") == m.get("backend", "pandas") and any(failure.get("class", "").startswith(c) for c in m["class"]):
                return e
            continue
        pred = getattr(known, e["classifier"], None)
        if pred is not None:
            try:
                if pred(failure):
                    return e
            except Exception:  # noqa
                pass
    return None


def run_oracle(run, prop, items, oracle, ctx, budget_s=None, max_new=3):
    """Apply the oracle to every item.  Unknown failures become VIOLATIONs (at most max_new are
    written), known ones are counted.  Returns stats."""
    kn = load_known(prop)
    seen_known, new, n, nontrivial = {}, [], 0, set()
    t0 = time.time()
    searching = bool(run.failed_obligations())      # an obligation is broken: we only need ONE concrete failing input
    if searching and budget_s is None:
        budget_s = 240
    for it in items:
        if budget_s and time.time() - t0 > budget_s:
            run.cov["oracle_stopped_on_budget_s"] = budget_s
            break
        if searching and new:
            break
        try:
            with warnings.catch_warnings():
                warnings.simplefilter("ignore")
                obj = streams.materialise(it)
        except Exception as e:  # noqa  (a recipe pandas refuses to build is not an input)
            continue
        n += 1
        try:
            with warnings.catch_warnings():
                warnings.simplefilter("ignore")
                fails = oracle(ctx, it, obj)
        except Exception as e:  # noqa   the oracle itself must not crash silently
            fails = [{"what": f"oracle crashed: {type(e).__name__}: {e}", "class": "oracle-crash", "trace": traceback.format_exc()[-600:]}]
        key = (it["family"], it["pool"], it["dtype"], str(it["nulls"]))
        nontrivial.add(key)
        for f in fails:
            f.setdefault("recipe", it["recipe"])
            e = classify(prop, f, kn)
            if e is not None:
                seen_known.setdefault(e["id"], []).append(f)
            elif len(new) < 50:
                new.append(f)
    run.cov["property_oracle_cases_on_impl"] = run.cov.get("property_oracle_cases_on_impl", 0) + n
    run.cov["evaluations"] = run.cov.get("evaluations", 0) + n
    run.cov["distinct_nontrivial"] = run.cov.get("distinct_nontrivial", 0) + len(nontrivial)
    run.cov["input_distribution"] = streams.distribution(items)
    run.cov["known_finding_hits"] = {k: len(v) for k, v in seen_known.items()}
    return new, seen_known, kn


def report(run, prop, new, seen_known, kn, replay_known=None, extra=None):
    """KNOWN-FINDING lines for listed findings whose recorded replay still fails; VIOLATION for
    new failures (smallest first)."""
    for e in kn:
        still = True
        if replay_known is not None:
            try:
                with warnings.catch_warnings():
                    warnings.simplefilter("ignore")
                    still = bool(replay_known(e))
            except Exception:  # noqa
                still = True
        if still:
            run.known(f"{e['id']}: {e['what']} [replay: {e.get('replay', {}).get('recipe', '')}]")
        else:
            run.cov.setdefault("known_findings_no_longer_failing", []).append(e["id"])
    new = sorted(new, key=lambda f: len(f.get("recipe", "")))
    seen = set()
    k = 0
    for f in new:
        sig = f.get("class")
        if sig in seen:
            continue
        seen.add(sig)
        rep = dict(f)
        rep["broken_obligations"] = run.failed_obligations()
        if extra:
            rep.update(extra)
        run.violation(rep)
        k += 1
        if k >= 3:
            break
    return k
