import importlib
import sys

from . import common as C


def main():
    args = C.main_args(sys.argv[1:])
    mod = importlib.import_module(f"vfw.{args.prop.lower()}")
    sys.exit(mod.run(args))


if __name__ == "__main__":
    main()
