(* Executable instance of the generated LRU closure for the correspondence harness.
   The wrapped function of call number i returns (argument, i): the stamp in a result shows
   at which call it was computed, so comparing results also compares the trace of underlying
   calls with the implementation (whose wrapped function stamps with a global counter). *)
From Coq Require Import List Bool ZArith.
Import ListNotations.
Open Scope Z_scope.
From V Require Import PyBase Cache_gen.

Definition lru_step (st : @LRUCacher Z Z (Z * Z)) (i a : Z)
  : res ((Z * Z) * @LRUCacher Z Z (Z * Z)) :=
  lru_cache_call Z.eqb (set_value_func st (fun x => Ok (x, i))) a.

Fixpoint lru_trace_from (st : @LRUCacher Z Z (Z * Z)) (i : Z) (hist : list Z)
  : list (option (Z * Z) * list Z) :=
  match hist with
  | [] => []
  | a :: hist' =>
      match lru_step st i a with
      | Ok (v, st') => (Some v, map fst (cache st')) :: lru_trace_from st' (i + 1) hist'
      | Raise _ => [(None, [])]
      end
  end.

Definition lru_trace (cap : Z) (hist : list Z) : list (option (Z * Z) * list Z) :=
  match lru_cache_new (fun x => Ok x) cap (fun x => Ok (x, 0%Z)) with
  | Ok st => lru_trace_from st 0 hist
  | Raise _ => [(None, [])]
  end.

(* OrderedDict model, one operation at a time, for the library-model correspondence.
   op codes: 0 getitem k | 1 setitem k v | 2 delitem k | 3 move_to_end k | 4 next(iter) |
             5 contains k | 6 len.  Output per op: (status, value) and the contents. *)
Definition od_op (d : @od Z Z) (op : Z * Z * Z) : (Z * Z) * @od Z Z :=
  let '(c, k, v) := op in
  let exn_code (e : exn) : Z := match e with KeyError => 1 | StopIteration => 2 | _ => 9 end in
  if Z.eqb c 0 then match od_getitem Z.eqb d k with Ok x => ((0, x), d) | Raise e => ((exn_code e, 0), d) end
  else if Z.eqb c 1 then ((0, 0), od_setitem Z.eqb d k v)
  else if Z.eqb c 2 then match od_delitem Z.eqb d k with Ok d' => ((0, 0), d') | Raise e => ((exn_code e, 0), d) end
  else if Z.eqb c 3 then match od_move_to_end Z.eqb d k with Ok d' => ((0, 0), d') | Raise e => ((exn_code e, 0), d) end
  else if Z.eqb c 4 then match od_first_key d with Ok x => ((0, x), d) | Raise e => ((exn_code e, 0), d) end
  else if Z.eqb c 5 then ((0, if od_contains Z.eqb d k then 1 else 0), d)
  else ((0, od_len d), d).

Fixpoint od_trace_from (d : @od Z Z) (ops : list (Z * Z * Z)) : list ((Z * Z) * @od Z Z) :=
  match ops with
  | [] => []
  | op :: ops' => let r := od_op d op in r :: od_trace_from (snd r) ops'
  end.
Definition od_trace (ops : list (Z * Z * Z)) := od_trace_from [] ops.
