(* Facts about the networkx model (lib/NxModel.v) used to reason about graph construction. *)
From Coq Require Import List Bool ZArith Lia Permutation Arith FinFun.
Import ListNotations.
From V Require Import PyBase NxModel.

Section NxFacts.
  Context {N A : Type} (eqb : N -> N -> bool).
  Hypothesis eqb_spec : forall x y, eqb x y = true <-> x = y.

  Lemma eqb_refl x : eqb x x = true.
  Proof. apply eqb_spec; reflexivity. Qed.
  Lemma eqb_neq x y : x <> y -> eqb x y = false.
  Proof. intro H. destruct (eqb x y) eqn:E; [apply eqb_spec in E; contradiction | reflexivity]. Qed.

  Lemma memb_In x l : memb eqb x l = true <-> In x l.
  Proof.
    unfold memb. rewrite existsb_exists. split.
    - intros [y [Hy E]]. apply eqb_spec in E. subst. exact Hy.
    - intro H. exists x. split; [exact H | apply eqb_refl].
  Qed.
  Lemma memb_false x l : memb eqb x l = false <-> ~ In x l.
  Proof. rewrite <- memb_In. destruct (memb eqb x l); split; congruence. Qed.

  (* ---- association lists *)
  Lemma od_find_setitem {V} (d : list (N * V)) k v k' :
    od_find eqb (od_setitem eqb d k v) k' = if eqb k' k then Some v else od_find eqb d k'.
  Proof.
    induction d as [|[a b] d IH]; simpl.
    - reflexivity.
    - destruct (eqb k a) eqn:E.
      + apply eqb_spec in E. subst a. simpl. destruct (eqb k' k); reflexivity.
      + simpl. destruct (eqb k' a) eqn:E2.
        * apply eqb_spec in E2. subst a. rewrite (eqb_neq k' k); [reflexivity|].
          intro H. subst. rewrite eqb_refl in E. discriminate.
        * exact IH.
  Qed.

  Lemma keys_setitem_in {V} (d : list (N * V)) k v : In k (map fst d) -> map fst (od_setitem eqb d k v) = map fst d.
  Proof.
    induction d as [|[a b] d IH]; simpl; [contradiction|].
    destruct (eqb k a) eqn:E; simpl; [apply eqb_spec in E; subst; reflexivity|].
    intros [H|H]; [subst; rewrite eqb_refl in E; discriminate | rewrite IH; auto].
  Qed.

  Lemma od_find_some_in {V} (d : list (N * V)) k v : od_find eqb d k = Some v -> In (k, v) d.
  Proof.
    induction d as [|[a b] d IH]; simpl; [discriminate|].
    destruct (eqb k a) eqn:E; [apply eqb_spec in E; subst; intro H; inversion H; left; reflexivity | intro H; right; auto].
  Qed.

  Lemma od_find_none_notin {V} (d : list (N * V)) k : od_find eqb d k = None <-> ~ In k (map fst d).
  Proof.
    induction d as [|[a b] d IH]; simpl; [tauto|].
    destruct (eqb k a) eqn:E.
    - apply eqb_spec in E. subst. split; [discriminate | intro H; exfalso; apply H; left; reflexivity].
    - rewrite IH. split; intro H; [intros [H1|H1]; [subst; rewrite eqb_refl in E; discriminate | contradiction] | intro H1; apply H; right; exact H1].
  Qed.

  Lemma od_find_in_nodup {V} (d : list (N * V)) k v : NoDup (map fst d) -> In (k, v) d -> od_find eqb d k = Some v.
  Proof.
    induction d as [|[a b] d IH]; simpl; [contradiction|]. intros Hnd [H|H].
    - inversion H; subst. rewrite eqb_refl. reflexivity.
    - inversion Hnd as [|? ? Hn Hnd']; subst. destruct (eqb k a) eqn:E.
      + apply eqb_spec in E. subst. exfalso. apply Hn. apply in_map_iff. exists (a, v). auto.
      + apply IH; assumption.
  Qed.

  (* ---- well-formed graphs: the adjacency dict has exactly the nodes as keys, each once *)
  Definition wfg (g : digraph N A) : Prop := map fst (g_adj g) = g_nodes g /\ NoDup (g_nodes g).

  Lemma adj_of_spec (g : digraph N A) n : adj_of eqb g n = match od_find eqb (g_adj g) n with Some l => l | None => [] end.
  Proof. reflexivity. Qed.

  Lemma add_node_present (g : digraph N A) n : In n (g_nodes g) -> g_add_node eqb g n = g.
  Proof. intro H. unfold g_add_node, g_has_node. rewrite (proj2 (memb_In n _) H). reflexivity. Qed.

  Lemma add_nodes_from_fresh l : forall p,
    NoDup (p ++ l) ->
    g_add_nodes_from eqb (mkG p (map (fun n => (n, @nil (N * A))) p)) l = mkG (p ++ l) (map (fun n => (n, [])) (p ++ l)).
  Proof.
    induction l as [|x l IH]; intros p Hnd; simpl.
    - rewrite app_nil_r. reflexivity.
    - unfold g_add_node at 1, g_has_node. simpl.
      assert (Hx : ~ In x p) by (intro H; apply NoDup_remove_2 in Hnd; apply Hnd; apply in_or_app; left; exact H).
      rewrite (proj2 (memb_false x p) Hx). simpl.
      replace (map (fun n => (n, @nil (N * A))) p ++ [(x, [])]) with (map (fun n => (n, @nil (N * A))) (p ++ [x])) by (rewrite map_app; reflexivity).
      fold (g_add_nodes_from eqb (mkG (p ++ [x]) (map (fun n : N => (n, @nil (N * A))) (p ++ [x]))) l).
      rewrite IH; rewrite <- app_assoc; [reflexivity | exact Hnd].
  Qed.

  Lemma add_nodes_from_empty l : NoDup l -> g_add_nodes_from eqb (@g_empty N A) l = mkG l (map (fun n => (n, [])) l).
  Proof. intro H. exact (add_nodes_from_fresh l [] H). Qed.

  Lemma wfg_initial l : NoDup l -> wfg (mkG l (map (fun n => (n, @nil (N * A))) l)).
  Proof. intro H. split; [simpl; rewrite map_map; simpl; apply map_id | exact H]. Qed.

  (* add_edge between two existing nodes *)
  Lemma add_edge_present (g : digraph N A) u v a :
    wfg g -> In u (g_nodes g) -> In v (g_nodes g) ->
    g_add_edge eqb g u v a = mkG (g_nodes g) (od_setitem eqb (g_adj g) u (od_setitem eqb (adj_of eqb g u) v a)).
  Proof. intros _ Hu Hv. unfold g_add_edge. rewrite (add_node_present g u Hu), (add_node_present g v Hv). reflexivity. Qed.

  Lemma add_edge_wfg (g : digraph N A) u v a :
    wfg g -> In u (g_nodes g) -> In v (g_nodes g) -> wfg (g_add_edge eqb g u v a) /\ g_nodes (g_add_edge eqb g u v a) = g_nodes g.
  Proof.
    intros [Hk Hn] Hu Hv. rewrite (add_edge_present g u v a (conj Hk Hn) Hu Hv). simpl. split; [|reflexivity].
    split; [|exact Hn]. simpl. rewrite keys_setitem_in; [exact Hk | rewrite Hk; exact Hu].
  Qed.

  Lemma adj_after_add_edge (g : digraph N A) u v a w :
    wfg g -> In u (g_nodes g) -> In v (g_nodes g) ->
    adj_of eqb (g_add_edge eqb g u v a) w = if eqb w u then od_setitem eqb (adj_of eqb g u) v a else adj_of eqb g w.
  Proof.
    intros Hw Hu Hv. rewrite (add_edge_present g u v a Hw Hu Hv). unfold adj_of at 1. simpl.
    rewrite od_find_setitem. destruct (eqb w u); reflexivity.
  Qed.

  (* the edge relation as a partial function *)
  Definition edge_at (g : digraph N A) (u v : N) : option A := od_find eqb (adj_of eqb g u) v.

  Lemma edge_at_add_edge (g : digraph N A) u v a u' v' :
    wfg g -> In u (g_nodes g) -> In v (g_nodes g) ->
    edge_at (g_add_edge eqb g u v a) u' v' = if andb (eqb u' u) (eqb v' v) then Some a else edge_at g u' v'.
  Proof.
    intros Hw Hu Hv. unfold edge_at. rewrite (adj_after_add_edge g u v a u' Hw Hu Hv).
    destruct (eqb u' u) eqn:E; simpl; [|reflexivity].
    rewrite od_find_setitem. apply eqb_spec in E. subst. reflexivity.
  Qed.

  Lemma g_edge_edge_at (g : digraph N A) u v : In u (g_nodes g) ->
    g_edge eqb g u v = match edge_at g u v with Some a => Ok a | None => Raise KeyError end.
  Proof. intro H. unfold g_edge, g_has_node, od_getitem, edge_at. rewrite (proj2 (memb_In u _) H). reflexivity. Qed.

  (* ---- edges and degrees *)
  Lemma in_g_edges (g : digraph N A) u v a : In (u, v, a) (g_edges eqb g) <-> In u (g_nodes g) /\ In (v, a) (adj_of eqb g u).
  Proof.
    unfold g_edges. rewrite in_flat_map. split.
    - intros [n [Hn H]]. apply in_map_iff in H. destruct H as [[v' a'] [E H]]. inversion E; subst. split; assumption.
    - intros [Hn H]. exists u. split; [exact Hn|]. apply in_map_iff. exists (v, a). split; [reflexivity | exact H].
  Qed.

  Lemma edge_at_in (g : digraph N A) u v a : edge_at g u v = Some a -> In (v, a) (adj_of eqb g u).
  Proof. unfold edge_at. apply od_find_some_in. Qed.

  Lemma in_edge_at (g : digraph N A) u v a : In (v, a) (adj_of eqb g u) -> exists a', edge_at g u v = Some a'.
  Proof.
    intro H. unfold edge_at. destruct (od_find eqb (adj_of eqb g u) v) as [a'|] eqn:E; [exists a'; reflexivity|].
    apply od_find_none_notin in E. exfalso. apply E. apply in_map_iff. exists (v, a). split; [reflexivity | exact H].
  Qed.

  Lemma adj_of_outside (g : digraph N A) u : wfg g -> ~ In u (g_nodes g) -> adj_of eqb g u = [].
  Proof.
    intros [Hk _] Hu. unfold adj_of. destruct (od_find eqb (g_adj g) u) eqn:E; [|reflexivity].
    apply od_find_some_in in E. exfalso. apply Hu. rewrite <- Hk. apply in_map_iff. exists (u, l). split; [reflexivity | exact E].
  Qed.

  Lemma length_filter_zero {B} (p : B -> bool) l : length (filter p l) = 0 <-> forall x, In x l -> p x = false.
  Proof.
    induction l as [|y l IH]; simpl; [split; [intros _ x [] | reflexivity]|].
    destruct (p y) eqn:E; simpl.
    - split; [discriminate | intro H; specialize (H y (or_introl eq_refl)); congruence].
    - rewrite IH. split; [intros H x [Hx|Hx]; [subst; exact E | apply H; exact Hx] | intros H x Hx; apply H; right; exact Hx].
  Qed.

  Lemma in_degree_zero (g : digraph N A) n : wfg g -> (in_degree eqb g n = 0 <-> forall u, edge_at g u n = None).
  Proof.
    intro Hwf. unfold in_degree. rewrite length_filter_zero. split.
    - intros H u. destruct (edge_at g u n) as [a|] eqn:E; [|reflexivity]. exfalso.
      assert (Hu : In u (g_nodes g)).
      { destruct (memb eqb u (g_nodes g)) eqn:M; [apply memb_In; exact M|]. apply memb_false in M.
        unfold edge_at in E. rewrite (adj_of_outside g u Hwf M) in E. discriminate. }
      specialize (H (u, n, a) (proj2 (in_g_edges g u n a) (conj Hu (edge_at_in g u n a E)))). simpl in H.
      rewrite eqb_refl in H. discriminate.
    - intros H [[u v] a] Hin. apply in_g_edges in Hin. destruct Hin as [Hu Hin].
      destruct (eqb v n) eqn:E; [|reflexivity]. apply eqb_spec in E. subst v.
      destruct (in_edge_at g u n a Hin) as [a' E']. rewrite H in E'. discriminate.
  Qed.

  Lemma out_degree_zero (g : digraph N A) n : out_degree eqb g n = 0 <-> forall v, edge_at g n v = None.
  Proof.
    unfold out_degree, edge_at. destruct (adj_of eqb g n) as [|[v a] l]; simpl.
    - split; [reflexivity | reflexivity].
    - split; [discriminate | intro H; specialize (H v); rewrite eqb_refl in H; discriminate].
  Qed.

  (* ---- removing no nodes *)
  Lemma filter_all_true {B} (p : B -> bool) l : (forall x, In x l -> p x = true) -> filter p l = l.
  Proof.
    induction l as [|y l IH]; simpl; intro H; [reflexivity|]. rewrite (H y (or_introl eq_refl)).
    f_equal. apply IH. intros x Hx. apply H. right. exact Hx.
  Qed.

  Lemma remove_no_nodes (g : digraph N A) : g_remove_nodes_from eqb g [] = g.
  Proof.
    unfold g_remove_nodes_from. destruct g as [ns adj]. simpl. f_equal.
    - apply filter_all_true. reflexivity.
    - rewrite (filter_all_true _ adj) by (intros [n l] _; reflexivity).
      induction adj as [|[n l] adj IH]; simpl; [reflexivity|]. rewrite IH. f_equal. f_equal.
      apply filter_all_true. intros [v a] _. reflexivity.
  Qed.

  (* ---- the first source *)
  Lemma first_source_spec (g : digraph N A) :
    (exists n, In n (g_nodes g) /\ in_degree eqb g n = 0) ->
    exists s, g_first_source eqb g = Ok s /\ In s (g_nodes g) /\ in_degree eqb g s = 0.
  Proof.
    intros [n [Hn Hd]]. unfold g_first_source. destruct (g_nodes g) as [|x l] eqn:E; [destruct Hn|]. rewrite <- E in *.
    destruct (filter (fun n => Nat.eqb (in_degree eqb g n) 0) (g_nodes g)) as [|s rest] eqn:Ef.
    - exfalso. assert (H : In n (filter (fun n => Nat.eqb (in_degree eqb g n) 0) (g_nodes g))) by (apply filter_In; split; [exact Hn | rewrite Hd; reflexivity]).
      rewrite Ef in H. destruct H.
    - exists s. split; [reflexivity|]. assert (H : In s (filter (fun n => Nat.eqb (in_degree eqb g n) 0) (g_nodes g))) by (rewrite Ef; left; reflexivity).
      apply filter_In in H. destruct H as [H1 H2]. split; [exact H1 | apply Nat.eqb_eq; exact H2].
  Qed.

  (* ---- dict lookups through the filters and maps of the subgraph views *)
  Lemma od_find_filter_keys {V} (p : N -> bool) (d : list (N * V)) k :
    od_find eqb (filter (fun '(n, _) => p n) d) k = if p k then od_find eqb d k else None.
  Proof.
    induction d as [|[n x] d IH]; simpl; [destruct (p k); reflexivity|].
    destruct (p n) eqn:Ep; simpl; destruct (eqb k n) eqn:E.
    - apply eqb_spec in E. subst. rewrite Ep. reflexivity.
    - exact IH.
    - apply eqb_spec in E. subst. rewrite Ep. rewrite IH, Ep. reflexivity.
    - exact IH.
  Qed.

  Lemma od_find_map_vals {V W} (f : N -> V -> W) (d : list (N * V)) k :
    od_find eqb (map (fun '(n, x) => (n, f n x)) d) k = option_map (f k) (od_find eqb d k).
  Proof.
    induction d as [|[n x] d IH]; simpl; [reflexivity|].
    destruct (eqb k n) eqn:E; [apply eqb_spec in E; subst; reflexivity | exact IH].
  Qed.

  Lemma edge_at_subgraph (g : digraph N A) es u v :
    edge_at (g_edge_subgraph eqb g es) u v =
    if existsb (fun '(a, b) => andb (eqb a u) (eqb b v)) es then edge_at g u v else None.
  Proof.
    unfold edge_at, adj_of, g_edge_subgraph. cbv zeta. cbn [g_adj].
    rewrite (od_find_map_vals (fun n l => filter (fun '(v0, _) => andb (existsb (fun '(a, b) => andb (eqb a n) (eqb b v0)) es) (existsb (fun '(a, b) => orb (eqb a v0) (eqb b v0)) es)) l)).
    rewrite (od_find_filter_keys (fun n => existsb (fun '(a, b) => orb (eqb a n) (eqb b n)) es)).
    destruct (existsb (fun '(a, b) => andb (eqb a u) (eqb b v)) es) eqn:El.
    - assert (Hu : existsb (fun '(a, b) => orb (eqb a u) (eqb b u)) es = true).
      { apply existsb_exists in El. destruct El as [[a b] [Hin E]]. apply existsb_exists. exists (a, b). split; [exact Hin|].
        apply andb_true_iff in E. destruct E as [E _]. rewrite E. reflexivity. }
      assert (Hv : existsb (fun '(a, b) => orb (eqb a v) (eqb b v)) es = true).
      { apply existsb_exists in El. destruct El as [[a b] [Hin E]]. apply existsb_exists. exists (a, b). split; [exact Hin|].
        apply andb_true_iff in E. destruct E as [_ E]. rewrite E. apply orb_true_r. }
      rewrite Hu. destruct (od_find eqb (g_adj g) u) as [l|]; simpl; [|reflexivity].
      rewrite (od_find_filter_keys (fun v0 => andb (existsb (fun '(a, b) => andb (eqb a u) (eqb b v0)) es) (existsb (fun '(a, b) => orb (eqb a v0) (eqb b v0)) es))).
      rewrite El, Hv. reflexivity.
    - destruct (existsb (fun '(a, b) => orb (eqb a u) (eqb b u)) es); [|reflexivity].
      destruct (od_find eqb (g_adj g) u) as [l|]; simpl; [|reflexivity].
      rewrite (od_find_filter_keys (fun v0 => andb (existsb (fun '(a, b) => andb (eqb a u) (eqb b v0)) es) (existsb (fun '(a, b) => orb (eqb a v0) (eqb b v0)) es))).
      rewrite El. reflexivity.
  Qed.

  Lemma nodes_subgraph (g : digraph N A) es n :
    In n (g_nodes (g_edge_subgraph eqb g es)) <-> In n (g_nodes g) /\ exists a b, In (a, b) es /\ (a = n \/ b = n).
  Proof.
    unfold g_edge_subgraph. cbv zeta. cbn [g_nodes]. rewrite filter_In, existsb_exists. split.
    - intros [H [[a b] [Hin E]]]. split; [exact H|]. exists a, b. split; [exact Hin|].
      apply orb_true_iff in E. destruct E as [E|E]; apply eqb_spec in E; auto.
    - intros [H [a [b [Hin E]]]]. split; [exact H|]. exists (a, b). split; [exact Hin|].
      destruct E as [E|E]; subst; rewrite eqb_refl; [reflexivity | apply orb_true_r].
  Qed.

  (* ---- adjacency dicts have each successor once *)
  Definition adj_keys_nodup (g : digraph N A) : Prop := forall u, NoDup (map fst (adj_of eqb g u)).

  Lemma keys_setitem_notin {V} (d : list (N * V)) k v : ~ In k (map fst d) -> map fst (od_setitem eqb d k v) = map fst d ++ [k].
  Proof.
    induction d as [|[a b] d IH]; simpl; [reflexivity|]. intro H.
    destruct (eqb k a) eqn:E; [apply eqb_spec in E; subst; exfalso; apply H; left; reflexivity|].
    simpl. rewrite IH; [reflexivity | intro H1; apply H; right; exact H1].
  Qed.

  Lemma nodup_snoc {B} (l : list B) x : NoDup l -> ~ In x l -> NoDup (l ++ [x]).
  Proof.
    induction l as [|y l IH]; simpl; intros H Hx; [constructor; [intros []|constructor]|].
    inversion H as [|? ? Hn Hl]; subst. constructor.
    - rewrite in_app_iff. intros [H1|[H1|[]]]; [apply Hn; exact H1 | subst; apply Hx; left; reflexivity].
    - apply IH; [exact Hl | intro H1; apply Hx; right; exact H1].
  Qed.

  Lemma setitem_keys_nodup {V} (d : list (N * V)) k v : NoDup (map fst d) -> NoDup (map fst (od_setitem eqb d k v)).
  Proof.
    intro H. destruct (memb eqb k (map fst d)) eqn:M.
    - apply memb_In in M. rewrite keys_setitem_in; assumption.
    - apply memb_false in M. rewrite keys_setitem_notin by exact M.
      apply nodup_snoc; assumption.
  Qed.

  Lemma add_edge_keys_nodup (g : digraph N A) u v a :
    wfg g -> In u (g_nodes g) -> In v (g_nodes g) -> adj_keys_nodup g -> adj_keys_nodup (g_add_edge eqb g u v a).
  Proof.
    intros Hwf Hu Hv Hk w. rewrite (adj_after_add_edge g u v a w Hwf Hu Hv).
    destruct (eqb w u); [apply setitem_keys_nodup; apply Hk | apply Hk].
  Qed.

  Lemma nodup_keys_filter {V} (p : N * V -> bool) (l : list (N * V)) : NoDup (map fst l) -> NoDup (map fst (filter p l)).
  Proof.
    induction l as [|[a b] l IH]; simpl; intro H; [constructor|]. inversion H as [|? ? Hn Hl]; subst.
    destruct (p (a, b)); simpl; [|apply IH; exact Hl]. constructor; [|apply IH; exact Hl].
    intro Hin. apply Hn. apply in_map_iff in Hin. destruct Hin as [[x y] [E Hin]]. simpl in E. subst x.
    apply filter_In in Hin. apply in_map_iff. exists (a, y). split; [reflexivity | apply Hin].
  Qed.

  Lemma adj_of_subgraph (g : digraph N A) es u :
    adj_of eqb (g_edge_subgraph eqb g es) u =
    if existsb (fun '(a, b) => orb (eqb a u) (eqb b u)) es
    then filter (fun '(v0, _) => andb (existsb (fun '(a, b) => andb (eqb a u) (eqb b v0)) es) (existsb (fun '(a, b) => orb (eqb a v0) (eqb b v0)) es)) (adj_of eqb g u)
    else [].
  Proof.
    unfold adj_of, g_edge_subgraph. cbv zeta. cbn [g_adj].
    rewrite (od_find_map_vals (fun n l => filter (fun '(v0, _) => andb (existsb (fun '(a, b) => andb (eqb a n) (eqb b v0)) es) (existsb (fun '(a, b) => orb (eqb a v0) (eqb b v0)) es)) l)).
    rewrite (od_find_filter_keys (fun n => existsb (fun '(a, b) => orb (eqb a n) (eqb b n)) es)).
    destruct (existsb (fun '(a, b) => orb (eqb a u) (eqb b u)) es); [|reflexivity].
    destruct (od_find eqb (g_adj g) u); reflexivity.
  Qed.

  Lemma subgraph_keys_nodup (g : digraph N A) es : adj_keys_nodup g -> adj_keys_nodup (g_edge_subgraph eqb g es).
  Proof.
    intros Hk u. rewrite adj_of_subgraph. destruct (existsb _ es); [|constructor].
    apply nodup_keys_filter. apply Hk.
  Qed.

  Lemma key_in_iff (g : digraph N A) u v : In v (map fst (adj_of eqb g u)) <-> edge_at g u v <> None.
  Proof.
    unfold edge_at. pose proof (od_find_none_notin (adj_of eqb g u) v) as H.
    destruct (od_find eqb (adj_of eqb g u) v) eqn:E.
    - split; [discriminate|]. intros _. destruct (memb eqb v (map fst (adj_of eqb g u))) eqn:M; [apply memb_In; exact M|].
      apply memb_false in M. apply H in M. discriminate.
    - split; [|congruence]. intro Hin. exfalso. apply (proj1 H eq_refl). exact Hin.
  Qed.

  Lemma successors_spec (g : digraph N A) u : In u (g_nodes g) -> g_successors eqb g u = Ok (map fst (adj_of eqb g u)).
  Proof. intro H. unfold g_successors, g_has_node. rewrite (proj2 (memb_In u _) H). reflexivity. Qed.

  (* ---- the edge list *)
  Lemma in_adj_iff (g : digraph N A) u v a : adj_keys_nodup g -> (In (v, a) (adj_of eqb g u) <-> edge_at g u v = Some a).
  Proof.
    intro Hk. split; [apply od_find_in_nodup; apply Hk | apply edge_at_in].
  Qed.

  Lemma nodup_app {B} (l1 l2 : list B) : NoDup l1 -> NoDup l2 -> (forall z, In z l1 -> In z l2 -> False) -> NoDup (l1 ++ l2).
  Proof.
    induction l1 as [|x l1 IH]; simpl; intros H1 H2 Hd; [exact H2|]. inversion H1 as [|? ? Hn H1']; subst. constructor.
    - rewrite in_app_iff. intros [H|H]; [contradiction | apply (Hd x); [left; reflexivity | exact H]].
    - apply IH; [exact H1' | exact H2 | intros z Hz; apply Hd; right; exact Hz].
  Qed.

  Lemma NoDup_flat_map {B C} (f : B -> list C) (l : list B) :
    NoDup l -> (forall x, In x l -> NoDup (f x)) ->
    (forall x y z, In x l -> In y l -> In z (f x) -> In z (f y) -> x = y) -> NoDup (flat_map f l).
  Proof.
    induction l as [|x l IH]; simpl; intros Hl Hf Hd; [constructor|]. inversion Hl as [|? ? Hn Hl']; subst.
    apply nodup_app.
    - apply Hf. left. reflexivity.
    - apply IH; [exact Hl' | intros y Hy; apply Hf; right; exact Hy | intros a b z Ha Hb; apply Hd; right; assumption].
    - intros z Hz Hz'. apply in_flat_map in Hz'. destruct Hz' as [y [Hy Hzy]].
      assert (x = y) by (apply (Hd x y z); [left; reflexivity | right; exact Hy | exact Hz | exact Hzy]). subst. contradiction.
  Qed.

  Lemma g_edges_nodup (g : digraph N A) : NoDup (g_nodes g) -> adj_keys_nodup g -> NoDup (g_edges eqb g).
  Proof.
    intros Hn Hk. unfold g_edges. apply NoDup_flat_map; [exact Hn | |].
    - intros n _. apply FinFun.Injective_map_NoDup.
      + intros [v a] [v' a'] E. inversion E. reflexivity.
      + specialize (Hk n). apply NoDup_map_inv in Hk. exact Hk.
    - intros x y z _ _ Hx Hy. apply in_map_iff in Hx. apply in_map_iff in Hy.
      destruct Hx as [[v a] [E1 _]], Hy as [[v' a'] [E2 _]]. subst z. inversion E2. reflexivity.
  Qed.

  Lemma g_edge_pairs_nodup (g : digraph N A) : NoDup (g_nodes g) -> adj_keys_nodup g ->
    NoDup (map (fun e : N * N * A => (fst (fst e), snd (fst e))) (g_edges eqb g)).
  Proof.
    intros Hn Hk. unfold g_edges. rewrite flat_map_concat_map, concat_map, map_map, <- flat_map_concat_map.
    apply NoDup_flat_map; [exact Hn | |].
    - intros n _. rewrite map_map.
      assert (E : map (fun x : N * A => (fst (fst (let '(v, a) := x in (n, v, a))), snd (fst (let '(v, a) := x in (n, v, a))))) (adj_of eqb g n)
                  = map (fun v => (n, v)) (map fst (adj_of eqb g n))).
      { rewrite map_map. apply map_ext. intros [v a]. reflexivity. }
      rewrite E. apply FinFun.Injective_map_NoDup; [intros v v' E'; inversion E'; reflexivity | apply Hk].
    - intros x y z _ _ Hx Hy. rewrite map_map in Hx, Hy. apply in_map_iff in Hx. apply in_map_iff in Hy.
      destruct Hx as [[v a] [E1 _]], Hy as [[v' a'] [E2 _]]. simpl in *. subst z. inversion E2. reflexivity.
  Qed.

  Lemma g_edges_perm (g1 g2 : digraph N A) :
    NoDup (g_nodes g1) -> NoDup (g_nodes g2) -> adj_keys_nodup g1 -> adj_keys_nodup g2 ->
    (forall u, In u (g_nodes g1) <-> In u (g_nodes g2)) ->
    (forall u v, In u (g_nodes g1) -> edge_at g1 u v = edge_at g2 u v) ->
    Permutation (g_edges eqb g1) (g_edges eqb g2).
  Proof.
    intros N1 N2 K1 K2 Hn He. apply NoDup_Permutation; [apply g_edges_nodup; assumption | apply g_edges_nodup; assumption|].
    intros [[u v] a]. rewrite !in_g_edges, (in_adj_iff g1 u v a K1), (in_adj_iff g2 u v a K2). split.
    - intros [Hu E]. split; [apply Hn; exact Hu | rewrite <- (He u v Hu); exact E].
    - intros [Hu E]. apply Hn in Hu. split; [exact Hu | rewrite (He u v Hu); exact E].
  Qed.

  (* ---- removing nodes; Kahn's algorithm on a ranked graph *)
  Lemma remove_nodes_wfg (g : digraph N A) ns : wfg g -> wfg (g_remove_nodes_from eqb g ns).
  Proof.
    intros [Hk Hn]. unfold g_remove_nodes_from. split; cbn [g_nodes g_adj].
    - rewrite <- Hk. clear Hk Hn. induction (g_adj g) as [|[n l] d IH]; simpl; [reflexivity|].
      destruct (negb (memb eqb n ns)); simpl; [rewrite IH; reflexivity | exact IH].
    - apply NoDup_filter. exact Hn.
  Qed.

  Lemma edge_at_remove (g : digraph N A) ns u v :
    edge_at (g_remove_nodes_from eqb g ns) u v =
    if memb eqb u ns then None else if memb eqb v ns then None else edge_at g u v.
  Proof.
    unfold edge_at, adj_of, g_remove_nodes_from. cbn [g_adj].
    rewrite (od_find_map_vals (fun _ l => filter (fun '(v0, _) => negb (memb eqb v0 ns)) l)).
    rewrite (od_find_filter_keys (fun n => negb (memb eqb n ns))).
    destruct (memb eqb u ns); simpl; [reflexivity|].
    destruct (od_find eqb (g_adj g) u) as [l|]; simpl; [|destruct (memb eqb v ns); reflexivity].
    rewrite (od_find_filter_keys (fun v0 => negb (memb eqb v0 ns))). destruct (memb eqb v ns); reflexivity.
  Qed.

  Lemma edge_source_in_nodes (g : digraph N A) u v a : wfg g -> edge_at g u v = Some a -> In u (g_nodes g).
  Proof.
    intros Hwf E. destruct (memb eqb u (g_nodes g)) eqn:M; [apply memb_In; exact M|]. apply memb_false in M.
    unfold edge_at in E. rewrite (adj_of_outside g u Hwf M) in E. discriminate.
  Qed.

  Lemma min_by (rk : N -> nat) (l : list N) : l <> [] -> exists m, In m l /\ forall x, In x l -> rk m <= rk x.
  Proof.
    induction l as [|y l IH]; [congruence|]. intros _. destruct l as [|z l'].
    - exists y. split; [left; reflexivity|]. intros x [Hx|[]]. subst. lia.
    - destruct (IH ltac:(discriminate)) as [m [Hm Hmin]]. destruct (le_lt_dec (rk y) (rk m)) as [Hle|Hlt].
      + exists y. split; [left; reflexivity|]. intros x [Hx|Hx]; [subst; lia | specialize (Hmin x Hx); lia].
      + exists m. split; [right; exact Hm|]. intros x [Hx|Hx]; [subst; lia | exact (Hmin x Hx)].
  Qed.

  Lemma length_filter_le {B} (p : B -> bool) l : length (filter p l) <= length l.
  Proof. induction l as [|y l IH]; simpl; [lia|]. destruct (p y); simpl; lia. Qed.

  Lemma length_filter_lt {B} (p : B -> bool) l x : In x l -> p x = false -> length (filter p l) < length l.
  Proof.
    induction l as [|y l IH]; simpl; [contradiction|]. intros [H|H] Hp.
    - subst. rewrite Hp. pose proof (length_filter_le p l). lia.
    - specialize (IH H Hp). destruct (p y); simpl; lia.
  Qed.

  Section Ranked.
    Variable rk : N -> nat.
    Definition ranked (g : digraph N A) : Prop := forall u v a, edge_at g u v = Some a -> rk u < rk v.

    Lemma ranked_has_source (g : digraph N A) : wfg g -> ranked g -> g_nodes g <> [] ->
      exists n, In n (g_nodes g) /\ in_degree eqb g n = 0.
    Proof.
      intros Hwf Hr Hne. destruct (min_by rk (g_nodes g) Hne) as [m [Hm Hmin]]. exists m. split; [exact Hm|].
      apply (in_degree_zero g m Hwf). intro u. destruct (edge_at g u m) as [a|] eqn:E; [|reflexivity]. exfalso.
      pose proof (Hr u m a E). pose proof (Hmin u (edge_source_in_nodes g u m a Hwf E)). lia.
    Qed.

    Lemma ranked_remove (g : digraph N A) ns : ranked g -> ranked (g_remove_nodes_from eqb g ns).
    Proof.
      intros Hr u v a E. rewrite edge_at_remove in E. destruct (memb eqb u ns); [discriminate|].
      destruct (memb eqb v ns); [discriminate|]. exact (Hr u v a E).
    Qed.

    Lemma kahn_empties n : forall g : digraph N A, wfg g -> ranked g -> length (g_nodes g) <= n -> g_nodes (kahn eqb n g) = [].
    Proof.
      induction n as [|n IH]; intros g Hwf Hr Hlen; simpl.
      - destruct (g_nodes g); [reflexivity | simpl in Hlen; lia].
      - apply IH; [apply remove_nodes_wfg; exact Hwf | apply ranked_remove; exact Hr|].
        destruct (g_nodes g) as [|x l] eqn:En.
        + unfold g_remove_nodes_from. cbn [g_nodes]. rewrite En. simpl. lia.
        + rewrite <- En in *. destruct (ranked_has_source g Hwf Hr ltac:(rewrite En; discriminate)) as [s [Hs Hd]].
          unfold g_remove_nodes_from. cbn [g_nodes].
          assert (length (filter (fun n0 => negb (memb eqb n0 (filter (fun n1 => Nat.eqb (in_degree eqb g n1) 0) (g_nodes g)))) (g_nodes g)) < length (g_nodes g)); [|lia].
          apply (length_filter_lt _ _ s Hs).
          rewrite (proj2 (memb_In s _)); [reflexivity|]. apply filter_In. split; [exact Hs | rewrite Hd; reflexivity].
    Qed.

    Theorem ranked_acyclic (g : digraph N A) : wfg g -> ranked g -> g_has_cycle eqb g = false.
    Proof. intros Hwf Hr. unfold g_has_cycle. rewrite (kahn_empties _ g Hwf Hr (le_n _)). reflexivity. Qed.
  End Ranked.
End NxFacts.
