(* The well-formedness theorem of theory/GraphWF.v instantiated with the relation table REGENERATED
   from types/*.py (gen/Shipped_gen.v): its hypotheses follow from the table facts T1, T3, T4 of
   theory/ShippedFacts.v, which are decided by computation on the table. *)
From Coq Require Import List Bool ZArith Lia Permutation Arith.
Import ListNotations.
From V Require Import PyBase NxModel NxFacts Engine_gen Shipped_gen ShippedFacts Graph_bridge GraphWF AlgebraTheory.

Definition dummy_guard : unit -> unit -> res (bool * unit) := fun _ st => Ok (false, st).
Definition dummy_trans : unit -> unit -> res (unit * unit) := fun d st => Ok (d, st).

Definition rel_of (t : ty) (d : ty * bool * bool * bool) : relation ty unit unit :=
  let '(r, inf, _, _) := d in mkRel r t inf dummy_guard dummy_trans.
Definition shipped_relations (t : ty) : list (relation ty unit unit) := map (rel_of t) (declared t).

(* [si]: the iteration order of a freshly built Python set (any permutation); [rnd]: what is done with an exported graph *)
Definition shipped_ctx_with (si : list ty -> list ty) (rnd : list ty -> list (ty * ty * option style) -> Z) : ctx ty unit unit unit unit :=
  mkCtx ty_eqb (fun _ _ => true) shipped_relations (fun _ _ st => Ok (true, st))
        (fun t => ty_eqb t tGeneric) tGeneric si (fun _ => tt) (fun _ => 0%Z) (fun d _ => d)
        (fun _ => []) (fun _ _ => Raise KeyError) (fun _ => tt) (fun l => l)
        (fun _ _ => Raise KeyError) (fun t => Z.of_nat (ty_name t)) rnd.

Lemma all_types_complete t : In t all_types.
Proof. destruct t; vm_compute; tauto. Qed.

Lemma rel_of_related t d : related_type (rel_of t d) = related d.
Proof. destruct d as [[[r i] a] b]. reflexivity. Qed.
Lemma rel_of_inferential t d : inferential (rel_of t d) = negb (is_identity d).
Proof. destruct d as [[[r i] a] b]. simpl. destruct i; reflexivity. Qed.
Lemma rel_of_type t d : type_ (rel_of t d) = t.
Proof. destruct d as [[[r i] a] b]. reflexivity. Qed.

Lemma nodupb_NoDup l : nodupb l = true -> NoDup l.
Proof.
  induction l as [|x l IH]; simpl; [constructor|]. intro H. apply andb_true_iff in H. destruct H as [H1 H2].
  constructor; [|apply IH; exact H2]. intro Hin. apply negb_true_iff in H1.
  assert (existsb (ty_eqb x) l = true) by (apply existsb_exists; exists x; split; [exact Hin | apply ty_eqb_spec; reflexivity]). congruence.
Qed.

Lemma NoDup_map_inj {A B} (f : A -> B) l x y : NoDup (map f l) -> In x l -> In y l -> f x = f y -> x = y.
Proof.
  induction l as [|z l IH]; simpl; [contradiction|]. intros Hnd Hx Hy E. inversion Hnd as [|? ? Hn Hnd']; subst.
  destruct Hx as [Hx|Hx], Hy as [Hy|Hy]; subst.
  - reflexivity.
  - exfalso. apply Hn. rewrite E. apply in_map. exact Hy.
  - exfalso. apply Hn. rewrite <- E. apply in_map. exact Hx.
  - apply IH; assumption.
Qed.

Lemma in_filter_one {A} (p : A -> bool) l x y : length (filter p l) = 1 -> In x l -> In y l -> p x = true -> p y = true -> x = y.
Proof.
  intros Hl Hx Hy Px Py.
  assert (Hx' : In x (filter p l)) by (apply filter_In; auto). assert (Hy' : In y (filter p l)) by (apply filter_In; auto).
  destruct (filter p l) as [|a [|b l']]; simpl in Hl; try discriminate.
  destruct Hx' as [?|[]], Hy' as [?|[]]. congruence.
Qed.

Section Shipped.
  Variables (si : list ty -> list ty) (rnd : list ty -> list (ty * ty * option style) -> Z).
  Hypothesis Hsi : forall l, NoDup l -> Permutation (si l) l.
  Let X := shipped_ctx_with si rnd.

  Lemma sh_uniq t r r' : In r (relations X t) -> In r' (relations X t) -> related_type r = related_type r' -> r = r'.
  Proof.
    simpl. unfold shipped_relations. intros Hr Hr' E. apply in_map_iff in Hr. apply in_map_iff in Hr'.
    destruct Hr as [d [Ed Hd]], Hr' as [d' [Ed' Hd']]. subst r r'. rewrite !rel_of_related in E.
    f_equal. apply (NoDup_map_inj related (declared t)); try assumption.
    apply nodupb_NoDup. destruct shipped_table_facts as [_ [_ [_ [H4 _]]]]. unfold T4_nodup_sources in H4.
    rewrite forallb_forall in H4. apply H4. apply all_types_complete.
  Qed.

  Lemma sh_T1 t : t <> tGeneric -> length (filter is_identity (declared t)) = 1.
  Proof.
    intro Hne. destruct shipped_table_facts as [H1 _]. unfold T1 in H1. rewrite forallb_forall in H1.
    specialize (H1 t (all_types_complete t)). destruct (ty_eqb t tGeneric) eqn:E; [apply ty_eqb_spec in E; contradiction|].
    apply Nat.eqb_eq in H1. unfold identity_parents in H1. rewrite map_length in H1. exact H1.
  Qed.

  Lemma sh_one t r r' : In r (relations X t) -> In r' (relations X t) -> inferential r = false -> inferential r' = false -> r = r'.
  Proof.
    simpl. unfold shipped_relations. intros Hr Hr' E E'. apply in_map_iff in Hr. apply in_map_iff in Hr'.
    destruct Hr as [d [Ed Hd]], Hr' as [d' [Ed' Hd']]. subst r r'. rewrite rel_of_inferential in E, E'.
    apply negb_false_iff in E. apply negb_false_iff in E'.
    destruct (ty_eqb t tGeneric) eqn:Eg; [apply ty_eqb_spec in Eg; subst; destruct Hd|].
    f_equal. apply (in_filter_one is_identity (declared t)); try assumption. apply sh_T1. intro H. subst. discriminate.
  Qed.

  Lemma sh_rank t r : In r (relations X t) -> rk (related_type r) < rk t.
  Proof.
    simpl. unfold shipped_relations. intro Hr. apply in_map_iff in Hr. destruct Hr as [d [Ed Hd]]. subst r. rewrite rel_of_related.
    destruct shipped_table_facts as [_ [_ [H3 _]]]. unfold T3 in H3. rewrite forallb_forall in H3.
    specialize (H3 t (all_types_complete t)). rewrite forallb_forall in H3. apply Nat.ltb_lt. exact (H3 d Hd).
  Qed.

  Lemma sh_parent types t : parent_closed types = true -> In t types -> t <> tGeneric ->
    exists r, In r (relations X t) /\ inferential r = false /\ In (related_type r) types.
  Proof.
    intros Hpc Ht Hne. pose proof (sh_T1 t Hne) as H1.
    destruct (filter is_identity (declared t)) as [|d [|? ?]] eqn:Ef; simpl in H1; try discriminate.
    assert (Hd : In d (filter is_identity (declared t))) by (rewrite Ef; left; reflexivity).
    apply filter_In in Hd. destruct Hd as [Hd Hi].
    exists (rel_of t d). split; [simpl; unfold shipped_relations; apply in_map; exact Hd|].
    split; [rewrite rel_of_inferential, Hi; reflexivity|]. rewrite rel_of_related.
    unfold parent_closed in Hpc. rewrite forallb_forall in Hpc. specialize (Hpc t Ht). rewrite forallb_forall in Hpc.
    specialize (Hpc (related d)). unfold identity_parents in Hpc. rewrite Ef in Hpc. specialize (Hpc (or_introl eq_refl)).
    apply existsb_exists in Hpc. destruct Hpc as [y [Hy E]]. apply ty_eqb_spec in E. subst. exact Hy.
  Qed.

  (* EVERY parent-closed list of shipped types containing Generic, in EVERY supply order and with EVERY
     set iteration order, yields a well-formed typeset *)
  Theorem shipped_typesets_well_formed types w0 :
    In tGeneric types -> parent_closed types = true ->
    exists ts w1, VT_init X (VT_blank X) types w0 = Ok (tt, ts, w1) /\ wf_result X rk (mkset X types) w0 ts w1.
  Proof.
    intros HinG Hpc. apply (typeset_well_formed X rk).
    - exact ty_eqb_spec.
    - intros t r Hr. simpl in Hr. unfold shipped_relations in Hr. apply in_map_iff in Hr. destruct Hr as [d [Ed _]]. subst. apply rel_of_type.
    - exact Hsi.
    - intro t. simpl. apply ty_eqb_spec.
    - reflexivity.
    - exact sh_uniq.
    - exact sh_one.
    - exact sh_rank.
    - exact HinG.
    - intros t Ht Hne. apply sh_parent; assumption.
  Qed.

  (* two supply orders of the same types: same edge function (hence same styles), node lists permutations *)
  Theorem shipped_order_independent types1 types2 w0 ts1 ts2 w1 w2 :
    In tGeneric types1 -> parent_closed types1 = true -> (forall t, In t types1 <-> In t types2) ->
    parent_closed types2 = true ->
    VT_init X (VT_blank X) types1 w0 = Ok (tt, ts1, w1) ->
    VT_init X (VT_blank X) types2 w0 = Ok (tt, ts2, w2) ->
    Permutation (g_nodes (relation_graph ts1)) (g_nodes (relation_graph ts2)) /\
    (forall u v, edge_at ty_eqb (relation_graph ts1) u v = edge_at ty_eqb (relation_graph ts2) u v) /\
    (forall u v, edge_at ty_eqb (base_graph ts1) u v = edge_at ty_eqb (base_graph ts2) u v).
  Proof.
    intros HinG Hpc Hsame Hpc2 E1 E2.
    assert (HinG2 : In tGeneric types2) by (apply Hsame; exact HinG).
    destruct (shipped_typesets_well_formed types1 w0 HinG Hpc) as [ts1' [w1' [E1' W1]]].
    destruct (shipped_typesets_well_formed types2 w0 HinG2 Hpc2) as [ts2' [w2' [E2' W2]]].
    rewrite E1 in E1'. inversion E1'; subst ts1' w1'. rewrite E2 in E2'. inversion E2'; subst ts2' w2'.
    assert (Hin : forall t, In t (mkset X types1) <-> In t (mkset X types2)).
    { intro t. rewrite !(mkset_in X ty_eqb_spec Hsi). apply Hsame. }
    split; [|split].
    - rewrite (wf_nodes _ _ _ _ _ _ W1), (wf_nodes _ _ _ _ _ _ W2).
      apply NoDup_Permutation; [apply (mkset_nodup X ty_eqb_spec Hsi) | apply (mkset_nodup X ty_eqb_spec Hsi) | exact Hin].
    - intros u v. destruct (edge_at ty_eqb (relation_graph ts1) u v) as [a|] eqn:Ea.
      + symmetry. apply (wf_edges _ _ _ _ _ _ W2). apply (wf_edges _ _ _ _ _ _ W1) in Ea.
        destruct Ea as [Hu [Hv Hr]]. split; [apply Hin; exact Hu|]. split; [apply Hin; exact Hv | exact Hr].
      + destruct (edge_at ty_eqb (relation_graph ts2) u v) as [b|] eqn:Eb; [|reflexivity].
        apply (wf_edges _ _ _ _ _ _ W2) in Eb. destruct Eb as [Hu [Hv Hr]].
        assert (K : edge_at ty_eqb (relation_graph ts1) u v = Some b)
          by (apply (wf_edges _ _ _ _ _ _ W1); split; [apply Hin; exact Hu|]; split; [apply Hin; exact Hv | exact Hr]).
        simpl in K. congruence.
    - intros u v. destruct (edge_at ty_eqb (base_graph ts1) u v) as [a|] eqn:Ea.
      + symmetry. apply (wf_base_edges _ _ _ _ _ _ W2). apply (wf_base_edges _ _ _ _ _ _ W1) in Ea.
        destruct Ea as [Hu [Hv Hr]]. split; [apply Hin; exact Hu|]. split; [apply Hin; exact Hv | exact Hr].
      + destruct (edge_at ty_eqb (base_graph ts2) u v) as [b|] eqn:Eb; [|reflexivity].
        apply (wf_base_edges _ _ _ _ _ _ W2) in Eb. destruct Eb as [Hu [Hv Hr]].
        assert (K : edge_at ty_eqb (base_graph ts1) u v = Some b)
          by (apply (wf_base_edges _ _ _ _ _ _ W1); split; [apply Hin; exact Hu|]; split; [apply Hin; exact Hv | exact Hr]).
        simpl in K. congruence.
  Qed.
  (* the bundled table hypotheses hold for the regenerated shipped table *)
  Lemma shipped_table_ok : table_ok X rk.
  Proof.
    split; [exact ty_eqb_spec|]. split.
    { intros t r Hr. simpl in Hr. unfold shipped_relations in Hr. apply in_map_iff in Hr. destruct Hr as [d [Ed _]]. subst. apply rel_of_type. }
    split; [exact Hsi|]. split; [intro t; simpl; apply ty_eqb_spec|]. split; [reflexivity|].
    split; [exact sh_uniq|]. split; [exact sh_one | exact sh_rank].
  Qed.

  Lemma shipped_closed S : In tGeneric S -> parent_closed S = true -> closed X S.
  Proof. intros HG Hpc. split; [exact HG|]. intros t Ht Hne. apply sh_parent; assumption. Qed.
End Shipped.

(* ---- the same facts for ANY context over the shipped relation table: any sequence type, any state, any
   guards and transformers - only the SHAPE of the table (sources, identity/inference, declaring type) matters *)
Section AnyBackend.
  Context {D St L F : Type} (X0 : ctx ty D St L F) (mkr : ty -> ty * bool * bool * bool -> relation ty D St).
  Hypothesis HX_eqb : T_eqb X0 = ty_eqb.
  Hypothesis HX_rel : forall t, relations X0 t = map (mkr t) (declared t).
  Hypothesis HX_gen : forall t, is_generic X0 t = ty_eqb t tGeneric.
  Hypothesis HX_G : Generic X0 = tGeneric.
  Hypothesis HX_si : forall l, NoDup l -> Permutation (set_iter X0 l) l.
  Hypothesis Hm1 : forall t d, related_type (mkr t d) = related d.
  Hypothesis Hm2 : forall t d, inferential (mkr t d) = negb (is_identity d).
  Hypothesis Hm3 : forall t d, type_ (mkr t d) = t.

  Lemma any_T1 t : t <> tGeneric -> length (filter is_identity (declared t)) = 1.
  Proof.
    intro Hne. destruct shipped_table_facts as [H1 _]. unfold T1 in H1. rewrite forallb_forall in H1.
    specialize (H1 t (all_types_complete t)). destruct (ty_eqb t tGeneric) eqn:E; [apply ty_eqb_spec in E; contradiction|].
    apply Nat.eqb_eq in H1. unfold identity_parents in H1. rewrite map_length in H1. exact H1.
  Qed.

  Theorem any_table_ok : table_ok X0 rk.
  Proof.
    split; [rewrite HX_eqb; exact ty_eqb_spec|]. split.
    { intros t r Hr. rewrite HX_rel in Hr. apply in_map_iff in Hr. destruct Hr as [d [Ed _]]. subst. apply Hm3. }
    split; [exact HX_si|]. split; [intro t; rewrite HX_gen, HX_G; apply ty_eqb_spec|].
    split; [rewrite HX_G, HX_rel; reflexivity|]. split; [|split].
    - intros t r r' Hr Hr' E. rewrite HX_rel in Hr, Hr'. apply in_map_iff in Hr. apply in_map_iff in Hr'.
      destruct Hr as [d [Ed Hd]], Hr' as [d' [Ed' Hd']]. subst r r'. rewrite !Hm1 in E.
      f_equal. apply (NoDup_map_inj related (declared t)); try assumption.
      apply nodupb_NoDup. destruct shipped_table_facts as [_ [_ [_ [H4 _]]]]. unfold T4_nodup_sources in H4.
      rewrite forallb_forall in H4. apply H4. apply all_types_complete.
    - intros t r r' Hr Hr' E E'. rewrite HX_rel in Hr, Hr'. apply in_map_iff in Hr. apply in_map_iff in Hr'.
      destruct Hr as [d [Ed Hd]], Hr' as [d' [Ed' Hd']]. subst r r'. rewrite Hm2 in E, E'.
      apply negb_false_iff in E. apply negb_false_iff in E'.
      destruct (ty_eqb t tGeneric) eqn:Eg; [apply ty_eqb_spec in Eg; subst; destruct Hd|].
      f_equal. apply (in_filter_one is_identity (declared t)); try assumption. apply any_T1. intro H. subst. discriminate.
    - intros t r Hr. rewrite HX_rel in Hr. apply in_map_iff in Hr. destruct Hr as [d [Ed Hd]]. subst r. rewrite Hm1.
      destruct shipped_table_facts as [_ [_ [H3 _]]]. unfold T3 in H3. rewrite forallb_forall in H3.
      specialize (H3 t (all_types_complete t)). rewrite forallb_forall in H3. apply Nat.ltb_lt. exact (H3 d Hd).
  Qed.

  Theorem any_closed S : In tGeneric S -> parent_closed S = true -> closed X0 S.
  Proof.
    intros HG Hpc. split; [rewrite HX_G; exact HG|]. intros t Ht Hne. rewrite HX_G in Hne.
    pose proof (any_T1 t Hne) as H1.
    destruct (filter is_identity (declared t)) as [|d [|? ?]] eqn:Ef; simpl in H1; try discriminate.
    assert (Hd : In d (filter is_identity (declared t))) by (rewrite Ef; left; reflexivity).
    apply filter_In in Hd. destruct Hd as [Hd Hi].
    exists (mkr t d). split; [rewrite HX_rel; apply in_map; exact Hd|].
    split; [rewrite Hm2, Hi; reflexivity|]. rewrite Hm1.
    unfold parent_closed in Hpc. rewrite forallb_forall in Hpc. specialize (Hpc t Ht). rewrite forallb_forall in Hpc.
    specialize (Hpc (related d)). unfold identity_parents in Hpc. rewrite Ef in Hpc. specialize (Hpc (or_introl eq_refl)).
    apply existsb_exists in Hpc. destruct Hpc as [y [Hy E]]. apply ty_eqb_spec in E. subst. exact Hy.
  Qed.
End AnyBackend.
