"""abstract(): concrete pandas Series -> the abstract series of coq/lib/Values.v (dtype facts measured
with pandas.api.types, values abstracted to kinds), and the extracted-model runner for the pandas
membership predicates."""
import datetime
import ipaddress
import pathlib
import uuid
import warnings
from urllib.parse import ParseResult

import numpy as np
import pandas as pd
from pandas.api import types as pdt

from . import common as C

KINDS = ["KNone", "KNaN", "KNA", "KNaT", "KBool", "KInt", "KFloat", "KComplex", "KStr", "KBytes", "KTimestamp", "KPyDatetime", "KDate", "KTime",
         "KTimedelta", "KPyTimedelta", "KPurePath", "KPath", "KUrl", "KIP", "KUUID", "KEmail", "KGeom", "KOther"]
KI = {k: i for i, k in enumerate(KINDS)}


class OutsideUniverse(Exception):
    pass


def abstract_value(x):
    from shapely.geometry.base import BaseGeometry
    from visions.types.email_address import FQDA
    from visions.utils.images.image_utils import path_is_image
    if x is None:
        return ("KNone", 0, 0, 0)
    if x is pd.NA:
        return ("KNA", 0, 0, 0)
    if x is pd.NaT:
        return ("KNaT", 0, 0, 0)
    if isinstance(x, (float, np.floating)) and x != x:
        return ("KNaN", 0, 0, 0)
    try:
        if pdt.is_scalar(x) and pd.isna(x) is True:
            return ("KNaN", 0, 0, 0)          # complex nan, Decimal('nan') ...: dropped by dropna like NaN
    except Exception:  # noqa
        pass
    if isinstance(x, (bool, np.bool_)):
        return ("KBool", 0, 0, 0)
    if isinstance(x, (int, np.integer)):
        return ("KInt", 0, 0, 0)
    if isinstance(x, (float, np.floating)):
        if type(x) not in (float, np.float64):
            raise OutsideUniverse("float scalar class " + type(x).__name__)
        return ("KFloat", 0, 0, 0)
    if isinstance(x, (complex, np.complexfloating)):
        return ("KComplex", 0, 0, 0)
    if isinstance(x, str):
        try:
            x.encode("utf-8")
        except UnicodeEncodeError:
            # a str holding a lone surrogate: astype(str) raises on it, so it is not the model's KStr
            # (whose measured round trip is "true"); judged by the oracles only
            raise OutsideUniverse("str that is not encodable (lone surrogate)")
        return ("KStr", 0, 0, 0)
    if isinstance(x, bytes):
        return ("KBytes", 0, 0, 0)
    if isinstance(x, pd.Timestamp):
        return ("KTimestamp", 0, 0, 0)
    if isinstance(x, datetime.datetime):
        return ("KPyDatetime", 0, 0, 0)
    if isinstance(x, datetime.date):
        return ("KDate", 0, 0, 0)
    if isinstance(x, datetime.time):
        return ("KTime", 0, 0, 0)
    if isinstance(x, pd.Timedelta):
        return ("KTimedelta", 0, 0, 0)
    if isinstance(x, datetime.timedelta):
        return ("KPyTimedelta", 0, 0, 0)
    if isinstance(x, pathlib.Path):
        ex = x.exists()
        return ("KPath", int(x.is_absolute()), int(ex), int(bool(ex and path_is_image(x))))
    if isinstance(x, pathlib.PurePath):
        return ("KPurePath", int(x.is_absolute()), 0, 0)
    if isinstance(x, ParseResult):
        return ("KUrl", 0, 0, 0)
    if isinstance(x, ipaddress._BaseAddress):
        return ("KIP", 0, 0, 0)
    if isinstance(x, uuid.UUID):
        return ("KUUID", 0, 0, 0)
    if isinstance(x, FQDA):
        return ("KEmail", 0, 0, 0)
    if isinstance(x, BaseGeometry):
        return ("KGeom", 0, 0, 0)
    for a in ("year", "month", "day", "hour", "microsecond", "netloc", "scheme", "time_low", "hex", "local", "fqdn"):
        if hasattr(x, a):
            raise OutsideUniverse(f"object of class {type(x).__name__} has attribute {a}")
    if type(x).__name__ in ("date", "time"):
        raise OutsideUniverse("foreign class named date/time")
    return ("KOther", 0, 0, 0)


FACTS = ["is_bool_dtype", "is_categorical_dtype", "is_complex_dtype", "is_unsigned_integer_dtype", "is_datetime64_any_dtype", "is_float_dtype",
         "is_integer_dtype", "is_numeric_dtype", "is_object_dtype", "is_string_dtype", "is_timedelta64_dtype", "is_sparse"]


def dtype_facts(s):
    with warnings.catch_warnings():
        warnings.simplefilter("ignore")
        f = [int(bool(getattr(pdt, n)(s))) for n in FACTS]
        f.append(int(isinstance(s.dtype, pd.SparseDtype)))
        try:
            f.append(int(bool(s.cat.ordered)))
        except AttributeError:
            f.append(2)
    return f


def abstract(s):
    """-> list of ints (the driver's line).  Raises OutsideUniverse."""
    f = dtype_facts(s)
    with warnings.catch_warnings():
        warnings.simplefilter("ignore")
        vals = [abstract_value(x) for x in s]
        # the model's hasnans / dropna / head must agree with pandas on this series
        nulls = [v[0] in ("KNone", "KNaN", "KNA", "KNaT") for v in vals]
        if bool(s.hasnans) != any(nulls):
            raise OutsideUniverse("hasnans disagrees with the value abstraction")
        d = s.dropna()
        if len(d) != nulls.count(False):
            raise OutsideUniverse("dropna disagrees with the value abstraction")
        fd = dtype_facts(d)
        if f[8]:       # object dtype: is_string_dtype(series) is value dependent, and never consulted by visions there
            fd[9] = f[9]
        if len(d) and fd[:13] != f[:13]:
            raise OutsideUniverse("dtype predicates change under dropna")
        if len(d) and [abstract_value(x) for x in d] != [v for v, n in zip(vals, nulls) if not n]:
            raise OutsideUniverse("iteration of dropna() is not the filtered iteration")
        if f[8] and [abstract_value(x)[0] == "KStr" for x in s.values[0:5]] != [v[0] == "KStr" for v in vals[0:5]]:
            raise OutsideUniverse("series.values boxes differently from iteration")
    out = list(f)
    for k, a, e, i in vals:
        out += [KI[k], a, e, i]
    return out


def real_vector(s, types):
    out = []
    for t in types:
        try:
            with warnings.catch_warnings():
                warnings.simplefilter("ignore")
                out.append(1 if s in t else 0)
        except AttributeError:
            out.append(3)
        except TypeError:
            out.append(4)
        except ValueError:
            out.append(5)
        except Exception:  # noqa
            out.append(9)
    return out
