(* Upward closure of the pandas membership predicates (C16): for every identity edge P -> T of the
   shipped relation table, T's generated contains_op implies P's, for ALL abstract series (any
   dtype-fact tuple, any values, any length), under the side conditions stated per edge. *)
From Coq Require Import List Bool ZArith Lia.
Import ListNotations.
From V Require Import PyBase Values Shipped_gen PandasContains_gen.
Open Scope py_scope.

(* the series the null-handling decorators hand to the wrapped predicate *)
Definition norm (s : series) : series := if s_hasnans s then s_dropna s else s.

Definition std (f : series -> unit -> res bool) (s : series) : res bool :=
  if s_empty (norm s) then Ok false else f (norm s) tt.

Lemma norm_dtype s : s_dtype (norm s) = s_dtype s.
Proof. unfold norm. destruct (s_hasnans s); reflexivity. Qed.

Lemma norm_empty_of_empty s : s_empty s = true -> s_empty (norm s) = true.
Proof.
  unfold norm, s_empty, s_hasnans, s_dropna. destruct s as [d l]; simpl. destruct l; [reflexivity | discriminate].
Qed.

Lemma bind_ret_eta (m : res bool) : (v <- m ;; ret v) = m.
Proof. destruct m; reflexivity. Qed.

(* both orders in which visions stacks series_handle_nulls and series_not_empty mean the same *)
Lemma hn_ne_std f s : series_handle_nulls (series_not_empty f) s tt = std f s.
Proof.
  unfold series_handle_nulls, series_not_empty, std, norm. rewrite !bind_ret_eta.
  destruct (s_hasnans s); [|destruct (s_empty s); reflexivity].
  destruct (s_empty (s_dropna s)); reflexivity.
Qed.

Lemma ne_hn_std f s : series_not_empty (series_handle_nulls f) s tt = std f s.
Proof.
  unfold series_handle_nulls, series_not_empty, std. rewrite !bind_ret_eta.
  destruct (s_empty s) eqn:E.
  - rewrite (norm_empty_of_empty s E). reflexivity.
  - unfold norm. destruct (s_hasnans s); [|rewrite E; reflexivity].
    destruct (s_empty (s_dropna s)); reflexivity.
Qed.

Lemma hn_std f s : s_empty s = false -> series_handle_nulls f s tt = std f s.
Proof.
  intro E. unfold series_handle_nulls, std, norm. rewrite !bind_ret_eta.
  destruct (s_hasnans s); [|rewrite E; reflexivity].
  destruct (s_empty (s_dropna s)); reflexivity.
Qed.

Lemma not_sparse_id f s : series_not_sparse f s tt = f s tt.
Proof. unfold series_not_sparse. apply bind_ret_eta. Qed.

Lemma ne_plain f s : series_not_empty f s tt = if s_empty s then Ok false else f s tt.
Proof. unfold series_not_empty. destruct (s_empty s); [reflexivity | apply bind_ret_eta]. Qed.

Definition In_type (t : ty) (s : series) : Prop := pandas_contains t s = Ok true.

(* ---- facts about real dtypes (measured; a hypothesis of the theorems, checked on every series the
   harness abstracts): unsigned integer dtypes are integer dtypes *)
Definition dfacts_ok (d : dfacts) : bool := implb (is_unsigned_integer d) (is_integer d).

Theorem Generic_contains_everything s : In_type tGeneric s.
Proof. reflexivity. Qed.

Theorem Count_in_Integer s : dfacts_ok (s_dtype s) = true -> In_type tCount s -> In_type tInteger s.
Proof.
  unfold In_type, pandas_contains, pandas_Count_contains, pandas_Integer_contains, dfacts_ok.
  rewrite !not_sparse_id, !ne_plain. unfold count_contains_body, integer_contains_body.
  destruct (s_empty s); [discriminate|]. cbn [ret].
  destruct (is_unsigned_integer (s_dtype s)); [|discriminate]. simpl. intros -> _. reflexivity.
Qed.

Theorem Ordinal_in_Categorical s : In_type tOrdinal s -> In_type tCategorical s.
Proof.
  unfold In_type, pandas_contains, pandas_Ordinal_contains, pandas_Categorical_contains.
  rewrite !not_sparse_id, !ne_plain. unfold ordinal_contains_body, categorical_contains_body.
  destruct (s_empty s); [discriminate|]. rewrite bind_ret_eta.
  destruct (is_categorical (s_dtype s)); [reflexivity | discriminate].
Qed.

Lemma std_true f s : std f s = Ok true -> s_empty (norm s) = false /\ f (norm s) tt = Ok true.
Proof. unfold std. destruct (s_empty (norm s)); [discriminate | auto]. Qed.

Theorem Image_in_File s : In_type tImage s -> In_type tFile s.
Proof.
  unfold In_type, pandas_contains, pandas_Image_contains, pandas_File_contains.
  rewrite !ne_hn_std. intro H. apply std_true in H. destruct H as [E H]. unfold std. rewrite E.
  unfold image_contains_body, file_contains_body in *. rewrite bind_ret_eta in *.
  rewrite py_all_pure in *. inversion H as [H1]. f_equal.
  rewrite H1. rewrite forallb_forall in *. intros v Hv. specialize (H1 v Hv).
  apply andb_true_iff in H1. destruct H1 as [H1 _]. rewrite H1. reflexivity.
Qed.

(* File -> Path: needs "no existing relative path" (see findings/C16_refuted.v, F16c) *)
Theorem File_in_Path s :
  (forall v, In v (s_vals (norm s)) -> v_exists v = true -> v_abs v = true) ->
  In_type tFile s -> In_type tPath s.
Proof.
  unfold In_type, pandas_contains, pandas_File_contains, pandas_Path_contains.
  rewrite !ne_hn_std. intros Hab H. apply std_true in H. destruct H as [E H]. unfold std. rewrite E.
  unfold file_contains_body, path_contains_body in *. rewrite bind_ret_eta in *.
  rewrite py_all_pure in *. inversion H as [H1]. f_equal. rewrite H1.
  rewrite forallb_forall in *. intros v Hv. specialize (H1 v Hv).
  apply andb_true_iff in H1. destruct H1 as [Hi He].
  rewrite (Hab v Hv He), andb_true_r.
  unfold v_isinstance in *. destruct (v_kind v); simpl in *; try discriminate; reflexivity.
Qed.

(* the children of Object that do not test the dtype themselves *)
Definition object_like (d : dfacts) : bool := orb (is_object d) (andb (is_string d) (negb (is_categorical d))).

Lemma object_of_std f s :
  object_like (s_dtype s) = true -> std f s = Ok true -> In_type tObject s.
Proof.
  intros Hd H. apply std_true in H. destruct H as [E _].
  unfold In_type, pandas_contains, pandas_Object_contains. rewrite not_sparse_id, hn_ne_std. unfold std. rewrite E.
  unfold object_contains_body. rewrite norm_dtype. unfold object_like in Hd.
  destruct (is_object (s_dtype s)); [reflexivity|]. simpl in Hd. cbn. rewrite Hd. reflexivity.
Qed.

Theorem children_in_Object s t :
  In t [tDate; tTime; tURL; tUUID; tEmailAddress; tGeometry; tIPAddress; tPath] ->
  object_like (s_dtype s) = true -> In_type t s -> In_type tObject s.
Proof.
  intros Ht Hd. unfold In_type at 1.
  simpl in Ht. repeat (destruct Ht as [<-|Ht]; [cbv beta iota delta [pandas_contains]|]); try contradiction.
  - unfold pandas_Date_contains. rewrite hn_ne_std. apply object_of_std; exact Hd.
  - unfold pandas_Time_contains. rewrite hn_ne_std. apply object_of_std; exact Hd.
  - unfold pandas_URL_contains. rewrite hn_ne_std. apply object_of_std; exact Hd.
  - unfold pandas_UUID_contains. rewrite ne_hn_std. apply object_of_std; exact Hd.
  - unfold pandas_EmailAddress_contains. rewrite ne_hn_std. apply object_of_std; exact Hd.
  - unfold pandas_Geometry_contains. rewrite ne_hn_std. apply object_of_std; exact Hd.
  - unfold pandas_IPAddress_contains. rewrite ne_hn_std. apply object_of_std; exact Hd.
  - unfold pandas_Path_contains. rewrite ne_hn_std. apply object_of_std; exact Hd.
Qed.

(* String -> Object (unconditional since the null handling of String was aligned with its parent's,
   fix: commit 129f2e0; before, an all-missing series of a non-object string dtype was a counterexample) *)
Theorem String_in_Object s : In_type tString s -> In_type tObject s.
Proof.
  unfold In_type at 1, pandas_contains, pandas_String_contains. rewrite not_sparse_id, hn_ne_std.
  intro H. apply std_true in H. destruct H as [E H].
  unfold In_type, pandas_contains, pandas_Object_contains. rewrite not_sparse_id, hn_ne_std. unfold std. rewrite E.
  unfold string_contains_body in H. unfold object_contains_body. rewrite norm_dtype in *.
  destruct (is_categorical (s_dtype s)) eqn:Ec; [discriminate|].
  destruct (is_object (s_dtype s)) eqn:Eo; cbn [negb] in *; [reflexivity|].
  cbn [ret andb] in H. inversion H as [Hs]. cbn. rewrite Hs, ?Ec. reflexivity.
Qed.
