(* C03 - Inference is sound.  Composition theorem over the reference walk of a relation graph (which the
   GENERATED infer computes, props/C12.v): if every relation, whenever it is taken, lands inside its target
   type (obligation L1, one per shipped relation, decided on the implementation) and the root contains the
   input, then the data returned by infer is contained in the last type of the returned path; and that data is
   exactly the composition of the path's transformers, each applied after its guard accepted. *)
From Coq Require Import List Bool ZArith.
Import ListNotations.
From V Require Import PyBase NxModel WalkSpec Engine_gen Engine_bridge EngineTheory SampledTheory InferTheory.
Open Scope py_scope.

Theorem C03_cast_is_in_the_inferred_type :
  forall (T D St L F : Type) (X : ctx T D St L F) (g : graph T D St) (cont : T -> D -> bool),
    (forall from to ea d st st1 d' st2,
        g_edge (T_eqb X) g from to = Ok ea ->
        relationship (ea_relationship ea) d st = Ok (true, st1) ->
        transformer (ea_relationship ea) d st1 = Ok (d', st2) -> cont to d' = true) ->
  forall fuel root d st dout p st',
    cont root d = true ->
    walk (succ_of X g) fuel root d st [] = Ok (dout, p, st') ->
    cont (last p root) dout = true.
Proof. exact @cast_in_inferred_type. Qed.
Print Assumptions C03_cast_is_in_the_inferred_type.

Theorem C03_cast_is_the_guarded_composition :
  forall (T D St L F : Type) (X : ctx T D St L F) (g : graph T D St) fuel root d st dout p st',
    walk (succ_of X g) fuel root d st [] = Ok (dout, p, st') ->
    exists hops, p = root :: hops /\ follows X g root d hops dout.
Proof. exact @walk_is_guarded_composition. Qed.
