(* Theorems about the reference walk and about DataFrame re-assembly, parametric in the type
   system, the data, the state and the successor order. *)
From Coq Require Import List Bool ZArith Lia.
Import ListNotations.
From V Require Import PyBase OdFacts NxModel WalkSpec Engine_gen Engine_bridge Frame_bridge.
Open Scope py_scope.

Section DetectSound.
  Context {T D St L F : Type} (X : ctx T D St L F).
  Variable g : graph T D St.
  Variable cont : T -> D -> bool.      (* `d in t` : contains_op with a fresh state *)

  (* every edge of g is an identity relation whose guard is the child's contains_op, which
     neither reads nor writes the state, and whose transformer is identity_transform *)
  Definition contains_graph : Prop :=
    forall t v ea, g_edge (T_eqb X) g t v = Ok ea ->
      (forall d st, relationship (ea_relationship ea) d st = Ok (cont v d, st)) /\
      (forall d st, transformer (ea_relationship ea) d st = Ok (d, st)).

  Hypothesis Hg : contains_graph.

  Definition is_succ (a b : T) : Prop :=
    exists ns, g_successors (T_eqb X) g a = Ok ns /\ In b ns.

  Fixpoint chain (a : T) (rest : list T) : Prop :=
    match rest with
    | [] => True
    | b :: rest' => is_succ a b /\ chain b rest'
    end.

  Lemma guard_of_edge t v d st b st' :
    e_guard (edge_of X g t v) d st = Ok (b, st') -> b = cont v d /\ st' = st.
  Proof.
    unfold edge_of; cbn [e_guard]. destruct (g_edge (T_eqb X) g t v) as [ea|e] eqn:GE; cbn [bind]; [|discriminate].
    destruct (Hg t v ea GE) as [H1 _]. rewrite H1. intro H; inversion H; auto.
  Qed.

  Lemma trans_of_edge t v d st d' st' :
    e_guard (edge_of X g t v) d st = Ok (true, st) ->
    e_trans (edge_of X g t v) d st = Ok (d', st') -> d' = d /\ st' = st.
  Proof.
    unfold edge_of; cbn [e_guard e_trans]. destruct (g_edge (T_eqb X) g t v) as [ea|e] eqn:GE; cbn [bind]; [|discriminate].
    destruct (Hg t v ea GE) as [_ H2]. rewrite H2. intros _ H; inversion H; auto.
  Qed.

  Lemma rejects_contains t ns d st st1 :
    rejects (map (edge_of X g t) ns) d st st1 -> st1 = st /\ forall v, In v ns -> cont v d = false.
  Proof.
    revert st; induction ns as [|v ns IH]; intros st R; simpl in R; inversion R; subst.
    - split; [reflexivity | intros v []].
    - match goal with H : e_guard _ _ _ = Ok (false, ?s) |- _ => apply guard_of_edge in H; destruct H as [Hb Hs]; subst s end.
      match goal with H : rejects _ _ _ _ |- _ => apply IH in H; destruct H as [-> Hr] end.
      split; [reflexivity|]. intros w [<-|Hw]; [symmetry; exact Hb | apply Hr; exact Hw].
  Qed.

  Lemma succ_of_inv t es :
    succ_of X g t = Ok es -> exists ns, g_successors (T_eqb X) g t = Ok ns /\ es = map (edge_of X g t) ns.
  Proof.
    unfold succ_of. destruct (g_successors (T_eqb X) g t) as [ns|e]; cbn [bind ret]; [|discriminate].
    intro H; inversion H. exists ns; auto.
  Qed.

  Lemma last_indep (l : list T) a d1 d2 : last (a :: l) d1 = last (a :: l) d2.
  Proof.
    revert a; induction l as [|b l IH]; intro a; [reflexivity|].
    change (last (a :: b :: l) d1) with (last (b :: l) d1).
    change (last (a :: b :: l) d2) with (last (b :: l) d2). apply IH.
  Qed.

  Lemma last_cons (v : T) rest t : last (v :: rest) t = last rest v.
  Proof.
    destruct rest as [|r rest]; [reflexivity|].
    change (last (v :: r :: rest) t) with (last (r :: rest) t). apply last_indep.
  Qed.

  Theorem detect_walk_sound t d st path out :
    walks (succ_of X g) t d st path out ->
    exists rest,
      out = (d, path ++ t :: rest, st) /\
      Forall (fun v => cont v d = true) rest /\
      chain t rest /\
      (forall ns, g_successors (T_eqb X) g (last rest t) = Ok ns -> forall v, In v ns -> cont v d = false).
  Proof.
    induction 1 as [t d st path es st1 Sc R | t d st path es pre e post st1 st2 d' st3 out Sc E R G Tr W IH].
    - apply succ_of_inv in Sc. destruct Sc as [ns [Sn ->]].
      apply rejects_contains in R. destruct R as [-> Hr].
      exists []. repeat split; [constructor | simpl].
      intros ns' Hns'. rewrite Sn in Hns'. inversion Hns'; subst. exact Hr.
    - apply succ_of_inv in Sc. destruct Sc as [ns [Sn Ees]]. rewrite Ees in E.
      apply map_eq_app in E. destruct E as [ns1 [ns2 [-> [<- E2]]]].
      apply map_eq_cons in E2. destruct E2 as [v [ns3 [-> [<- <-]]]].
      apply rejects_contains in R. destruct R as [-> _].
      pose proof (guard_of_edge _ _ _ _ _ _ G) as [Hc ->].
      pose proof (trans_of_edge _ _ _ _ _ _ G Tr) as [-> ->].
      cbn [e_dst edge_of] in IH. destruct IH as [rest [-> [Hf [Hch Hlast]]]].
      exists (v :: rest). repeat split.
      + rewrite <- app_assoc. reflexivity.
      + constructor; [symmetry; exact Hc | exact Hf].
      + exists (ns1 ++ v :: ns3). split; [exact Sn | apply in_or_app; right; left; reflexivity].
      + exact Hch.
      + intros ns' Hns'. apply Hlast. rewrite <- (last_cons v rest t). exact Hns'.
  Qed.
End DetectSound.

Section Frames.
  Context {T D St L F : Type} (X : ctx T D St L F).
  Hypothesis L_eqb_spec : forall a b, L_eqb X a b = true <-> a = b.

  Lemma od_of_pairs_nodup {V} (l : list (L * V)) :
    NoDup (map fst l) -> od_of_pairs (L_eqb X) l = l.
  Proof.
    unfold od_of_pairs. intro ND.
    assert (G : forall acc, (forall k, In k (map fst l) -> od_find (L_eqb X) acc k = None) ->
                fold_left (fun d kv => od_setitem (L_eqb X) d (fst kv) (snd kv)) l acc = acc ++ l).
    { induction l as [|[k v] l IH]; intros acc Hf; simpl; [rewrite app_nil_r; reflexivity|].
      inversion ND as [|? ? Hk ND']; subst.
      rewrite (od_setitem_fresh (L_eqb X)) by (apply Hf; left; reflexivity).
      rewrite IH; [rewrite <- app_assoc; reflexivity | exact ND' |].
      intros k' Hk'. assert (k' <> k) by (intro; subst; contradiction).
      assert (Hn : od_find (L_eqb X) acc k' = None) by (apply Hf; right; exact Hk').
      clear - Hn H L_eqb_spec. induction acc as [|[a b] acc IHa]; simpl in *.
      - destruct (L_eqb X k' k) eqn:E; [apply L_eqb_spec in E; contradiction | reflexivity].
      - destruct (L_eqb X k' a); [discriminate | apply IHa; exact Hn]. }
    apply (G []). reflexivity.
  Qed.

  Lemma collect_nodup {V} (f : D * list T * St -> V) (l : list (L * (D * list T * St))) :
    NoDup (map fst l) -> collect X f l [] = map (fun kv => (fst kv, f (snd kv))) l.
  Proof.
    intro ND. unfold collect, put.
    change (fold_left (fun a kv => od_setitem (L_eqb X) a (fst kv) (f (snd kv))) l [])
      with (fold_left (fun a kv => od_setitem (L_eqb X) a (fst kv) (snd kv)) (map (fun kv => (fst kv, f (snd kv))) l) [])
      || idtac.
    assert (E : forall acc, fold_left (fun a kv => od_setitem (L_eqb X) a (fst kv) (f (snd kv))) l acc
                = fold_left (fun d kv => od_setitem (L_eqb X) d (fst kv) (snd kv)) (map (fun kv => (fst kv, f (snd kv))) l) acc).
    { induction l as [|kv l IH]; intro acc; simpl; [reflexivity|]. apply IH. inversion ND; assumption. }
    rewrite E. apply od_of_pairs_nodup. rewrite map_map. simpl. exact ND.
  Qed.

  Lemma map_res_keys {A B} (f : A -> res B) (key : B -> A) l out :
    (forall a b, f a = Ok b -> key b = a) -> map_res f l = Ok out -> map key out = l.
  Proof.
    intro Hk. revert out; induction l as [|a l IH]; intros out H; simpl in H.
    - inversion H; reflexivity.
    - destruct (f a) as [b|e] eqn:Fa; simpl in H; [|discriminate].
      destruct (map_res f l) as [bs|e]; simpl in H; [|discriminate].
      inversion H; subst. simpl. rewrite (Hk a b Fa), (IH bs eq_refl). reflexivity.
  Qed.

  (* A frame with unique labels is typed column by column: every component of the result is,
     label for label and in column order, the result of a fresh reference walk on that column. *)
  Theorem dataframe_is_columns fuel df root g :
    NoDup (frame_columns X df) ->
    _traverse_graph_dataframe X fuel df root g =
    (cols <- col_walks X g fuel root df ;;
     ret (frame_of_dict X (map (fun kv => (fst kv, fst (fst (snd kv)))) cols),
          map (fun kv => (fst kv, snd (fst (snd kv)))) cols,
          map (fun kv => (fst kv, snd (snd kv))) cols)).
  Proof.
    intro ND. rewrite traverse_dataframe_eq.
    destruct (col_walks X g fuel root df) as [cols|e] eqn:CW; cbn [bind ret]; [|reflexivity].
    assert (Hk : map fst cols = frame_columns X df).
    { unfold col_walks in CW. refine (map_res_keys _ fst _ _ _ CW).
      intros a b H. destruct (frame_getitem X df a) as [s|e]; cbn [bind ret] in H; [|discriminate].
      destruct (fresh_walk X g fuel root s); cbn [bind ret] in H; [|discriminate]. inversion H; reflexivity. }
    rewrite od_of_pairs_nodup by (rewrite Hk; exact ND).
    rewrite !collect_nodup by (rewrite Hk; exact ND). reflexivity.
  Qed.
End Frames.
