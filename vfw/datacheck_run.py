"""Generic runner for the relation-level properties (C03 C04 C05 C06 C07 C09): Coq cone + the
property oracle of vfw/datachecks.py over the shared streams on pandas / numpy / list inputs."""
import json
import random
import warnings

import numpy as np
import pandas as pd

from . import common as C
from . import datachecks as D
from . import oracle, streams

SPEC = {
    "C03": dict(fn=D.c03_one, file="props/C03.v", gens=["engine"], backends=("pandas", "numpy", "list")),
    "C04": dict(fn=D.c04_one, file="props/C04.v", gens=["engine"], backends=("pandas", "numpy", "list")),
    "C05": dict(fn=D.c05_one, file="props/C05.v", gens=["engine"], backends=("pandas", "numpy", "list")),
    "C06": dict(fn=D.c06_one, file="props/C06.v", gens=["engine"], backends=("pandas",)),
    "C07": dict(fn=None, file="props/C07.v", gens=["shipped", "pandas", "python"], backends=("pandas",)),
    "C09": dict(fn=D.c09_one, file="props/C09.v", gens=["shipped", "pandas", "python"], backends=("pandas", "numpy", "list")),
}


def typesets_for(prop, deep):
    sh = streams.shipped_typesets()
    if prop in ("C06", "C07"):
        return {"CompleteSet": sh["CompleteSet"], "StandardSet": sh["StandardSet"]} if deep else {"CompleteSet": sh["CompleteSet"]}
    return sh if deep else {"CompleteSet": sh["CompleteSet"], "StandardSet": sh["StandardSet"]}


def make_oracle(prop):
    spec = SPEC[prop]

    def fn(ctx, item, s):
        fails = []
        if isinstance(s, pd.DataFrame):
            if prop in ("C07", "C09"):
                return []
            for name, ts in ctx["typesets"].items():
                for f in spec["fn"](ts, name, s, "frame"):
                    f["frame_recipe"] = item["recipe"]
                    fails.append(f)
            return fails
        for name, ts in ctx["typesets"].items():
            if prop == "C07":
                fails += D.c07_one(ts, name, item, s)
                continue
            fails += spec["fn"](ts, name, s, "pandas")
        if prop != "C07" and "numpy" in spec["backends"] and len(s) <= 8:
            try:
                arr = s.to_numpy()
            except Exception:  # noqa
                arr = None
            if isinstance(arr, np.ndarray) and arr.ndim == 1:
                fails += spec["fn"](ctx["std"], "StandardSet", arr, "numpy")
                if prop == "C05" and len(arr) >= 2:
                    # views that are not C-contiguous (reversed, stepped): still the caller's object
                    for view, vname in ((arr[::-1], "numpy-reversed-view"), (np.repeat(arr, 2)[::2], "numpy-stepped-view")):
                        for f in spec["fn"](ctx["std"], "StandardSet", view, "numpy"):
                            f["backend"] = vname
                            fails.append(f)
        if prop != "C07" and "list" in spec["backends"] and len(s) <= 8:
            try:
                fails += spec["fn"](ctx["std"], "StandardSet", list(s), "list")
            except Exception:  # noqa
                pass
        if prop in ("C03", "C04", "C06") and 1 <= len(s) <= 8:
            # two-column frames: a fixed companion column (year-like / date / decimal / int / text) before and after this one
            comps = ["'2020'", "'2020-01-01'", "'1.5'", "1", "'a'", "'TRUE'"]
            comp = comps[len(item["recipe"]) % len(comps)]
            for order in (("p", "q"), ("q", "p")):
                fr = ("pd.DataFrame({'%s': pd.Series([%s] * %d), '%s': (%s).reset_index(drop=True)})" % (order[0], comp, len(s), order[1], item["recipe"])
                      if order[0] == "p" else
                      "pd.DataFrame({'%s': (%s).reset_index(drop=True), '%s': pd.Series([%s] * %d)})" % (order[0], item["recipe"], order[1], comp, len(s)))
                if item["recipe"].startswith("bank["):
                    break
                try:
                    df = streams.build(fr)
                except Exception:  # noqa
                    continue
                for f in spec["fn"](ctx["typesets"]["CompleteSet"], "CompleteSet", df, "frame"):
                    f["frame_recipe"] = fr
                    fails.append(f)
        if prop == "C05" and len(s) and len(s) <= 8:
            df = pd.DataFrame({"a": s.reset_index(drop=True), "b": s.reset_index(drop=True)})
            fails += D.c05_one(ctx["std"], "StandardSet", df, "frame")
            # column labels that are not strings (default integer labels, tuples, mixed): labels are part of the caller's data
            for labels in ((0, 1), ((1, 2), "x"), (2.5, -5)):
                df = pd.DataFrame({labels[0]: s.reset_index(drop=True), labels[1]: s.reset_index(drop=True)})
                for f in D.c05_one(ctx["std"], "StandardSet", df, "frame"):
                    f["frame_recipe"] = "pd.DataFrame({%r: (%s).reset_index(drop=True), %r: (%s).reset_index(drop=True)})" % (labels[0], item["recipe"], labels[1], item["recipe"])
                    fails.append(f)
        seen, out = set(), []
        for f in fails:
            if (f["class"], f["backend"]) not in seen:
                seen.add((f["class"], f["backend"]))
                out.append(f)
        return out
    return fn


def rebuild(r):
    s = streams.materialise({"recipe": r["recipe"]})
    if isinstance(s, pd.DataFrame):
        return s
    b = r.get("backend", "pandas")
    if b == "numpy":
        return s.to_numpy()
    if b == "numpy-reversed-view":
        return s.to_numpy()[::-1]
    if b == "numpy-stepped-view":
        return np.repeat(s.to_numpy(), 2)[::2]
    if b == "list":
        return list(s)
    if b == "frame" and r.get("frame_recipe"):
        return streams.build(r["frame_recipe"])
    if b == "frame":
        return pd.DataFrame({"a": s.reset_index(drop=True), "b": s.reset_index(drop=True)})
    return s


def replay_entry(prop, e):
    r = e.get("replay", {})
    if "recipe" not in r:
        return [True]
    name = r.get("typeset", "CompleteSet")
    ts = streams.shipped_typesets()[name]
    with warnings.catch_warnings():
        warnings.simplefilter("ignore")
        if prop == "C09" and r.get("backend") == "pylist":
            fs = D.c09_one(streams.shipped_typesets()["StandardSet"], "StandardSet", streams.build(r["recipe"]), "pylist")
        elif prop == "C07" and r.get("backend") in ("numpy-array", "pylist"):
            fs = D.c07_seq_values(streams.shipped_typesets()["StandardSet"], "StandardSet", streams.build(r["recipe"]), r["backend"])
        elif prop == "C07":
            fs = D.c07_one(ts, name, r.get("item", {"family": r.get("family"), "pool": r.get("pool"), "dtype": r.get("enc_dtype"), "nulls": "?", "null": None}), rebuild(r))
        else:
            fs = SPEC[prop]["fn"](ts, name, rebuild(r), r.get("backend", "pandas"))
    if e.get("classifier"):
        from . import known
        fs = [f for f in fs if getattr(known, e["classifier"])(dict(f, recipe=r["recipe"]))]
    return fs


def run(prop, args, extra_trusted=(), rule_extra=""):
    if args.replay:
        r = json.load(open(args.replay))
        if "recipe" not in r:
            print("replay names a broken obligation, no input to re-run:", [o["name"] for o in r.get("broken_obligations", [])])
            return 1
        f = replay_entry(prop, {"replay": r})
        print("replay:", [x["what"] for x in f] if f else "property holds on this input")
        return 1 if f else 0
    spec = SPEC[prop]
    run = C.Run(prop, args.tier, args.seed)
    rnd = random.Random(args.seed)
    info = C.std_coq_phase(run, spec["gens"], [spec["file"].replace(".v", ".vo")], spec["file"])
    deep = args.tier == "thorough" or bool(run.failed_obligations())
    items = streams.all_streams(rnd, "quick", n_fam=9000 if deep else 1200, n_mixed=2500 if deep else 300)
    if deep:
        items += streams.bx_stream(2, rnd, limit=12000)
    if prop in ("C03", "C04", "C05", "C06"):
        k = len(streams.bank_stream())
        items = items[:k] + streams.frame_stream() + items[k:]
    tss = typesets_for(prop, deep)
    ctx = {"typesets": tss, "std": streams.shipped_typesets()["StandardSet"]}
    new, seen_known, kn = oracle.run_oracle(run, prop, items, make_oracle(prop), ctx)
    if prop in ("C03", "C04"):
        # numpy arrays built directly (str dtype, >= 1024 rows, NaN placements): pandas' to_numpy never produces these
        n_seq = 0
        for rc in D.NUMPY_DIRECT_CORNERS:
            with warnings.catch_warnings():
                warnings.simplefilter("ignore")
                x = streams.build(rc)
                n_seq += 1
                for f in spec["fn"](ctx["std"], "StandardSet", x, "numpy-array"):
                    f["recipe"] = rc
                    e = oracle.classify(prop, f, kn)
                    if e is None:
                        new.append(f)
                    else:
                        seen_known.setdefault(e["id"], []).append(f)
        run.cov["numpy_direct_corners"] = n_seq
    if prop == "C09":
        # pure Python lists whose elements pandas would re-box (numpy scalars, huge ints, extreme floats): deterministic corners
        n_seq = 0
        for rc in D.C09_LIST_CORNERS:
            with warnings.catch_warnings():
                warnings.simplefilter("ignore")
                try:
                    x = streams.build(rc)
                except Exception:  # noqa
                    continue
                n_seq += 1
                for f in D.c09_one(ctx["std"], "StandardSet", x, "pylist"):
                    f["recipe"] = rc
                    if oracle.classify(prop, f, kn) is None:
                        new.append(f)
        run.cov["pure_list_corners"] = n_seq
    if prop == "C07":
        # numeric numpy arrays of every float width and Python lists (deterministic corners): cast values = original values
        n_seq = 0
        for rc in D.C07_SEQ_CORNERS:
            with warnings.catch_warnings():
                warnings.simplefilter("ignore")
                try:
                    x = streams.build(rc)
                except Exception:  # noqa
                    continue
                n_seq += 1
                for f in D.c07_seq_values(ctx["std"], "StandardSet", x, "numpy-array" if isinstance(x, np.ndarray) else "pylist"):
                    f["recipe"] = rc
                    if oracle.classify(prop, f, kn) is None:
                        new.append(f)
        run.cov["numpy_and_list_value_corners"] = n_seq
    nviol = oracle.report(run, prop, new, seen_known, kn, replay_known=lambda e: bool(replay_entry(prop, e)))
    if not nviol and run.failed_obligations():
        rep = {"broken_obligations": run.failed_obligations(),
               "searched": f"{run.cov.get('property_oracle_cases_on_impl')} sequences x {list(tss)} x {spec['backends']} on the implementation: no new failing input"}
        for m, fn in (("engine", "Engine_gen.v"), ("pandas", "PandasContains_gen.v")):
            if info["gen"].get(m, {}).get("changed_vs_golden"):
                rep["model_diff_vs_golden:" + fn] = C.golden_diff(fn)
        run.violation(rep, no_input=True)
    run.cov["rule"] = ("repo bank + corner list + file fixtures + bounded-exhaustive dtype x value-kind grid + family x encoding x null-sentinel x position x length x index grid + mixed + "
                       ">=1000-row contaminated series; as pandas Series, numpy array and Python list where the property includes them; " + rule_extra +
                       "distinct_nontrivial = distinct (family, pool, dtype, null placement) cells")
    run.cov["samples"] = [items[11]["recipe"], items[-5]["recipe"]]
    run.cov["trusted_base"] += list(extra_trusted)
    return run.finish("proof")
