(* C19 - Graph export is faithful and deterministic.
   Objects: the GENERATED VisionsTypeset.output_graph and utils.graph.output_graph (up to the call
   of networkx' to_pydot; pydot + graphviz are the uninterpreted function [render] of the ordered
   node list and the ordered, styled edge list). *)
From Coq Require Import List Bool ZArith.
Import ListNotations.
From Coq Require Import Permutation.
From V Require Import PyBase NxModel Engine_gen SortTheory ExportTheory.
Open Scope py_scope.

Section C19.
  Context {T D St L F : Type} (X : ctx T D St L F).

  (* the graph handed to pydot: nodes re-inserted sorted by name, edges re-inserted sorted by
     (source name, target name), each with the style it has in the typeset's graph *)
  Definition export_graph (g : graph T D St) : digraph T (option style) :=
    fold_left (fun G e => g_add_edge (T_eqb X) G (fst e) (snd e) (style_get X (edge_styles X g) e))
              (sort_edges X (edge_pairs X g))
              (g_add_nodes_from (T_eqb X) g_empty (sort_nodes X (g_nodes g))).

  Lemma for_each_fold {A S} (f : S -> A -> S) (l : list A) (s : S) :
    for_each (R:=unit) l (s, tt) (fun x '(s, _) => ret (LContinue (f s x, tt))) = Ok (LoopDone (fold_left f l s, tt)).
  Proof. revert s; induction l as [|a l IH]; intro s; [reflexivity|]. cbn [for_each fold_left bind ret]. apply IH. Qed.

  Theorem C19_export_is_sorted_copy (g : graph T D St) :
    output_graph_dot X g = Ok (render X (g_nodes (export_graph g)) (g_edges (T_eqb X) (export_graph g))).
  Proof.
    unfold output_graph_dot, export_graph, render_graph. cbn zeta.
    rewrite (for_each_fold (fun G e => g_add_edge (T_eqb X) G (fst e) (snd e) (style_get X (edge_styles X g) e))).
    reflexivity.
  Qed.

  (* the method exports base_graph (identity relations only) or relation_graph *)
  Theorem C19_method_exports_the_typeset_graph (ts : VisionsTypeset T D St) (base_only : bool) :
    VT_output_graph X ts base_only = output_graph_dot X (if base_only then base_graph ts else relation_graph ts).
  Proof.
    unfold VT_output_graph, g_copy. cbn zeta. destruct base_only;
      destruct (output_graph_dot X _) as [z|e]; reflexivity.
  Qed.
End C19.
Print Assumptions C19_export_is_sorted_copy.

(* Determinism: two graphs with the same SET of nodes and the same SET of styled edges - what a typeset
   built from the same types in two different supply orders has - are exported identically, provided type
   names are pairwise distinct (computed for the shipped table: T7 of props/C14.v; with two types of the
   same name the stable sort would keep their supply order). *)
Theorem C19_export_independent_of_supply_order :
  forall (T D St L F : Type) (X : ctx T D St L F),
    (forall a b, T_eqb X a b = true <-> a = b) ->
  forall g1 g2 : graph T D St,
    Permutation (g_nodes g1) (g_nodes g2) ->
    Permutation (edge_styles X g1) (edge_styles X g2) ->
    NoDup (g_nodes g1) -> NoDup (edge_pairs X g1) ->
    (forall a b, type_name X a = type_name X b -> a = b) ->
    output_graph_dot X g1 = output_graph_dot X g2.
Proof.
  intros T D St L F X Heq g1 g2 Pn Pe Hn He Hinj.
  rewrite !C19_export_is_sorted_copy.
  change (C19.export_graph X g1) with (ExportTheory.export_graph X g1).
  change (C19.export_graph X g2) with (ExportTheory.export_graph X g2).
  rewrite (export_depends_on_sets_only X Heq g1 g2 Pn Pe Hn He Hinj). reflexivity.
Qed.
Print Assumptions C19_export_independent_of_supply_order.
Print Assumptions C19_method_exports_the_typeset_graph.

(* ---- Part 3: no premises left for typesets built by the generated constructor.  For ANY relation table
   with the table facts and pairwise distinct type names, two closed lists holding the same types (in any
   supply orders, with any set iteration orders) build typesets whose exports - full or base_only - are
   the same call of pydot, hence the same bytes for a deterministic pydot/graphviz. *)
From V Require Import NxFacts Graph_bridge GraphWF AlgebraTheory ExportWF Shipped_gen ShippedFacts ShippedGraph.

Theorem C19_constructed_typesets_export_identically :
  forall (T D St L F : Type) (X : ctx T D St L F) (rk : T -> nat), table_ok X rk ->
    (forall a b, type_name X a = type_name X b -> a = b) ->
  forall types1 types2 w1 w2,
    closed X types1 -> (forall t, In t types1 <-> In t types2) ->
    exists ts1 ts2 w1' w2',
      VT_init X (VT_blank X) types1 w1 = Ok (tt, ts1, w1') /\
      VT_init X (VT_blank X) types2 w2 = Ok (tt, ts2, w2') /\
      forall base_only, VT_output_graph X ts1 base_only = VT_output_graph X ts2 base_only.
Proof.
  intros T D St L F X rk H Hinj types1 types2 w1 w2 Hc Hmem.
  assert (Hc2 : closed X types2) by (apply (closed_ext X types1); assumption).
  destruct H as [Heq [Hty [Hperm [Hgen [HG [Huniq [Hone Hrk]]]]]]].
  destruct Hc as [G1 P1]. destruct Hc2 as [G2 P2].
  destruct (typeset_well_formed X rk Heq Hty Hperm Hgen HG Huniq Hone Hrk types1 w1 G1 P1) as [ts1 [w1' [E1 W1]]].
  destruct (typeset_well_formed X rk Heq Hty Hperm Hgen HG Huniq Hone Hrk types2 w2 G2 P2) as [ts2 [w2' [E2 W2]]].
  exists ts1, ts2, w1', w2'. split; [exact E1|]. split; [exact E2|].
  assert (Hm : forall t, In t (mkset X types1) <-> In t (mkset X types2)) by (intro t; rewrite !(mkset_in X Heq Hperm); apply Hmem).
  intro b. rewrite !C19_method_exports_the_typeset_graph, !C19_export_is_sorted_copy.
  change (C19.export_graph X) with (ExportTheory.export_graph X).
  destruct b.
  - rewrite (identity_graphs_export_equal X rk Heq Hinj _ _ _ _ _ _ ts1 ts2 W1 W2 Hm). reflexivity.
  - rewrite (relation_graphs_export_equal X rk Heq Hinj _ _ _ _ _ _ ts1 ts2 W1 W2 Hm). reflexivity.
Qed.
Print Assumptions C19_constructed_typesets_export_identically.

(* type names of the shipped types are pairwise distinct (by computation on the regenerated table) *)
Theorem C19_shipped_names_distinct :
  forall si rnd a b, type_name (shipped_ctx_with si rnd) a = type_name (shipped_ctx_with si rnd) b -> a = b.
Proof. intros si rnd a b. simpl. destruct a, b; vm_compute; intro E; (reflexivity || discriminate). Qed.
Print Assumptions C19_shipped_names_distinct.
