"""Classifiers of recorded findings (KNOWN_FINDINGS.json -> "classifier").  Each takes the failure
dict an oracle produced and says whether it is an instance of that recorded finding.  They are
deliberately narrow: a different violation of the same property is still reported."""
