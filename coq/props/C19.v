(* C19 - Graph export is faithful and deterministic.
   Objects: the GENERATED VisionsTypeset.output_graph and utils.graph.output_graph (up to the call
   of networkx' to_pydot; pydot + graphviz are the uninterpreted function [render] of the ordered
   node list and the ordered, styled edge list). *)
From Coq Require Import List Bool ZArith.
Import ListNotations.
From V Require Import PyBase NxModel Engine_gen.
Open Scope py_scope.

Section C19.
  Context {T D St L F : Type} (X : ctx T D St L F).

  (* the graph handed to pydot: nodes re-inserted sorted by name, edges re-inserted sorted by
     (source name, target name), each with the style it has in the typeset's graph *)
  Definition export_graph (g : graph T D St) : digraph T (option style) :=
    fold_left (fun G e => g_add_edge (T_eqb X) G (fst e) (snd e) (style_get X (edge_styles X g) e))
              (sort_edges X (edge_pairs X g))
              (g_add_nodes_from (T_eqb X) g_empty (sort_nodes X (g_nodes g))).

  Lemma for_each_fold {A S} (f : S -> A -> S) (l : list A) (s : S) :
    for_each (R:=unit) l (s, tt) (fun x '(s, _) => ret (LContinue (f s x, tt))) = Ok (LoopDone (fold_left f l s, tt)).
  Proof. revert s; induction l as [|a l IH]; intro s; [reflexivity|]. cbn [for_each fold_left bind ret]. apply IH. Qed.

  Theorem C19_export_is_sorted_copy (g : graph T D St) :
    output_graph_dot X g = Ok (render X (g_nodes (export_graph g)) (g_edges (T_eqb X) (export_graph g))).
  Proof.
    unfold output_graph_dot, export_graph, render_graph. cbn zeta.
    rewrite (for_each_fold (fun G e => g_add_edge (T_eqb X) G (fst e) (snd e) (style_get X (edge_styles X g) e))).
    reflexivity.
  Qed.

  (* the method exports base_graph (identity relations only) or relation_graph *)
  Theorem C19_method_exports_the_typeset_graph (ts : VisionsTypeset T D St) (base_only : bool) :
    VT_output_graph X ts base_only = output_graph_dot X (if base_only then base_graph ts else relation_graph ts).
  Proof.
    unfold VT_output_graph, g_copy. cbn zeta. destruct base_only;
      destruct (output_graph_dot X _) as [z|e]; reflexivity.
  Qed.
End C19.
Print Assumptions C19_export_is_sorted_copy.
Print Assumptions C19_method_exports_the_typeset_graph.
