(* C10 - Purity: calls leave process-global state as they found it.
   Objects: the global-effect skeletons of EVERY function in src/visions that writes a process-global
   cell (sys.stderr / sys.stdout, warning filters, numpy error state, pandas options, working
   directory), extracted from the source on this run (gen/Effects_gen.v), under the semantics of
   theory/EffectsTheory.v: opaque code may raise or not at every point.  Result independence from
   enumeration order is props/C02.v; from history and hash seed: decided on the implementation. *)
From Coq Require Import List Bool ZArith.
Import ListNotations.
From V Require Import EffectsTheory Effects_gen.

(* whatever raises and whatever does not, every such function leaves every global cell holding the
   value it held on entry *)
Theorem C10_global_cells_restored : forallb restores all_progs = true.
Proof. vm_compute. reflexivity. Qed.
Print Assumptions C10_global_cells_restored.

(* the semantics is not vacuous: the pattern visions used before the repair (restore a CONSTANT,
   sys.__stderr__, instead of the saved value) is rejected, as is a restore that is skipped on raise *)
Example C10_restoring_a_constant_is_rejected :
  restores [EWrite CStderr (SFresh 1); ETry [EOpaque] [EOpaque] [EWrite CStderr (SConst 1)]] = false.
Proof. vm_compute. reflexivity. Qed.
Example C10_restore_without_finally_is_rejected :
  restores [ESave 1 CStderr; EWrite CStderr (SFresh 1); EOpaque; EWrite CStderr (SLocal 1)] = false.
Proof. vm_compute. reflexivity. Qed.
Example C10_save_restore_in_finally_is_accepted :
  restores [ESave 1 CStderr; EWrite CStderr (SFresh 1); ETry [EOpaque] [EOpaque] [EWrite CStderr (SLocal 1)]] = true.
Proof. vm_compute. reflexivity. Qed.
