(* C13 - Typeset algebra obeys set laws and never modifies its operands.
   Objects: the GENERATED VisionsTypeset.__add__/__sub__/__iadd__/__isub__/replace/_get_other_type
   and VisionsBaseTypeMeta.__add__.  In the model every operation is a pure function of its
   operands (they are immutable values; the translator accepts the methods only because they
   contain no store into an operand), so "operands untouched" holds by construction of the
   translation and is checked on the implementation by snapshots. *)
From Coq Require Import List Bool ZArith.
Import ListNotations.
From V Require Import PyBase NxModel Engine_gen.
Open Scope py_scope.

Section C13.
  Context {T D St L F : Type} (X : ctx T D St L F).
  Notation other_types o := (match o with inl t => mkset X [t] | inr ts => mkset X (types ts) end).

  (* every operation is: build the set expression, then run the constructor on it *)
  Theorem C13_operations_are_constructions (self : VisionsTypeset T D St) o old new warns :
    VT_add X self o warns =
      ('(_, ts, w) <- VT_init X (VT_blank X) (mkset X (types self ++ other_types o)) warns ;; ret (ts, w)) /\
    VT_sub X self o warns =
      ('(_, ts, w) <- VT_init X (VT_blank X) (mkset X (set_diff X (types self) (other_types o))) warns ;; ret (ts, w)) /\
    VT_iadd X self o warns = VT_add X self o warns /\
    VT_isub X self o warns = VT_sub X self o warns /\
    VT_replace X self old new warns =
      (s <- set_remove X (mkset X (mkset X (types self) ++ [new])) old ;;
       '(_, ts, w) <- VT_init X (VT_blank X) s warns ;; ret (ts, w)).
  Proof.
    split; [|split; [|split; [|split]]].
    - unfold VT_add, VT_get_other_type. cbn zeta. destruct o as [t|ts]; cbn [bind ret];
        destruct (VT_init X (VT_blank X) _ warns) as [[[u ts'] w]|e]; reflexivity.
    - unfold VT_sub, VT_get_other_type. cbn zeta. destruct o as [t|ts]; cbn [bind ret];
        destruct (VT_init X (VT_blank X) _ warns) as [[[u ts'] w]|e]; reflexivity.
    - unfold VT_iadd. cbn zeta. destruct (VT_add X self o warns) as [[a b]|e]; reflexivity.
    - unfold VT_isub. cbn zeta. destruct (VT_sub X self o warns) as [[a b]|e]; reflexivity.
    - unfold VT_replace. cbn zeta. destruct (set_remove X _ old) as [s|e]; cbn [bind ret]; [|reflexivity].
      destruct (VT_init X (VT_blank X) s warns) as [[[u ts'] w]|e]; reflexivity.
  Qed.

  (* Type + Type constructs {Generic, T, U} unless one of them already is (a subclass of) Generic *)
  Theorem C13_type_plus_type (t u : T) warns :
    Type_add X t u warns =
      ('(_, ts, w) <- VT_init X (VT_blank X)
          (if orb (is_generic X t) (is_generic X u) then mkset X [t; u] else mkset X [Generic X; t; u]) warns ;;
       ret (ts, w)).
  Proof.
    unfold Type_add. cbn [py_any bind ret].
    destruct (is_generic X t); cbn [bind ret orb negb].
    - destruct (VT_init X (VT_blank X) _ warns) as [[[x ts'] w]|e]; reflexivity.
    - destruct (is_generic X u); cbn [bind ret orb negb];
        destruct (VT_init X (VT_blank X) _ warns) as [[[x ts'] w]|e]; reflexivity.
  Qed.
End C13.
Print Assumptions C13_operations_are_constructions.
Print Assumptions C13_type_plus_type.

(* ---- Part 2: set laws, on top of the well-formedness theorem (theory/GraphWF.v, theory/AlgebraTheory.v).
   For ANY relation table with the table facts ([table_ok]: decidable type equality, one relation per
   (source, type), one identity parent, a rank increasing along relations, any set-iteration order):
   whenever the resulting SET of types is closed (contains Generic and every identity parent - the
   property's "parent-closed results"), the operation does not raise, the result's types are exactly the
   union / difference / substitution, its root is Generic, and the result is a well-formed typeset
   ([built] includes C14's [wf_result]) that depends on the SET only - hence commutativity, associativity,
   idempotence.  [replace] of an absent type raises KeyError (old <> new). *)
From Coq Require Import Permutation.
From V Require Import NxFacts Graph_bridge GraphWF AlgebraTheory Shipped_gen ShippedFacts ShippedGraph.

Section C13_laws.
  Context {T D St L F : Type} (X : ctx T D St L F) (rk : T -> nat) (H : table_ok X rk).
  Notation VTS := (VisionsTypeset T D St).

  Theorem C13_add_is_union (self : VTS) o w :
    closed X (types self ++ operand_types o) ->
    exists ts w', VT_add X self o w = Ok (ts, w') /\
      (forall t, In t (types ts) <-> In t (types self) \/ In t (operand_types o)) /\
      _root_node ts = Some (Generic X) /\
      exists S, (forall t, In t S <-> In t (types self) \/ In t (operand_types o)) /\ built X rk S w ts w'.
  Proof. exact (alg_add_is_union X rk H self o w). Qed.

  Theorem C13_sub_is_difference (self : VTS) o w :
    closed X (set_diff X (types self) (operand_types o)) ->
    exists ts w', VT_sub X self o w = Ok (ts, w') /\
      (forall t, In t (types ts) <-> In t (types self) /\ ~ In t (operand_types o)) /\
      _root_node ts = Some (Generic X) /\
      exists S, (forall t, In t S <-> In t (types self) /\ ~ In t (operand_types o)) /\ built X rk S w ts w'.
  Proof. exact (alg_sub_is_difference X rk H self o w). Qed.

  Theorem C13_replace_is_substitution (self : VTS) old new w :
    (In old (types self) \/ old = new) ->
    closed X (set_diff X (types self ++ [new]) [old]) ->
    exists ts w', VT_replace X self old new w = Ok (ts, w') /\
      (forall t, In t (types ts) <-> (In t (types self) \/ t = new) /\ t <> old) /\
      _root_node ts = Some (Generic X).
  Proof. exact (alg_replace_is_substitution X rk H self old new w). Qed.

  Theorem C13_replace_of_absent_type_raises (self : VTS) old new w :
    ~ In old (types self) -> old <> new -> VT_replace X self old new w = Raise KeyError.
  Proof. exact (alg_replace_absent_raises X rk H self old new w). Qed.

  Theorem C13_type_plus_type_is_the_three_types t u w :
    closed X [Generic X; t; u] ->
    exists ts w', Type_add X t u w = Ok (ts, w') /\
      (forall x, In x (types ts) <-> x = Generic X \/ x = t \/ x = u) /\ _root_node ts = Some (Generic X).
  Proof. exact (alg_type_plus_type X rk H t u w). Qed.

  Theorem C13_add_commutes (a b : VTS) w ra wa rb wb :
    closed X (types a ++ types b) ->
    VT_add X a (inr b) w = Ok (ra, wa) -> VT_add X b (inr a) w = Ok (rb, wb) -> same_typeset X ra rb.
  Proof. exact (alg_add_commutes X rk H a b w ra wa rb wb). Qed.

  Theorem C13_add_idempotent (a : VTS) w ra wa :
    closed X (types a) -> VT_add X a (inr a) w = Ok (ra, wa) -> forall t, In t (types ra) <-> In t (types a).
  Proof. exact (alg_add_idempotent X rk H a w ra wa). Qed.

  Theorem C13_add_associative (a b c : VTS) w ab wab r1 w1 bc wbc r2 w2 :
    closed X (types a ++ types b) -> closed X (types b ++ types c) -> closed X (types a ++ types b ++ types c) ->
    VT_add X a (inr b) w = Ok (ab, wab) -> VT_add X ab (inr c) w = Ok (r1, w1) ->
    VT_add X b (inr c) w = Ok (bc, wbc) -> VT_add X a (inr bc) w = Ok (r2, w2) ->
    same_typeset X r1 r2.
  Proof. exact (alg_add_associative X rk H a b c w ab wab r1 w1 bc wbc r2 w2). Qed.

  Theorem C13_sub_then_add_restores (a : VTS) t w r1 w1 r2 w2 :
    closed X (types a) -> In t (types a) -> closed X (set_diff X (types a) [t]) ->
    VT_sub X a (inl t) w = Ok (r1, w1) -> VT_add X r1 (inl t) w = Ok (r2, w2) ->
    forall x, In x (types r2) <-> In x (types a).
  Proof. exact (alg_sub_then_add_restores X rk H a t w r1 w1 r2 w2). Qed.
End C13_laws.
Print Assumptions C13_add_is_union.
Print Assumptions C13_sub_is_difference.
Print Assumptions C13_replace_is_substitution.
Print Assumptions C13_replace_of_absent_type_raises.
Print Assumptions C13_type_plus_type_is_the_three_types.
Print Assumptions C13_add_commutes.
Print Assumptions C13_add_idempotent.
Print Assumptions C13_add_associative.
Print Assumptions C13_sub_then_add_restores.

(* the hypotheses hold for the shipped table (regenerated on this run), whatever the set iteration order *)
Theorem C13_shipped_table_satisfies_the_hypotheses :
  forall (si : list ty -> list ty) (rnd : list ty -> list (ty * ty * option style) -> Z),
    (forall l, NoDup l -> Permutation (si l) l) ->
    table_ok (shipped_ctx_with si rnd) rk /\
    (forall S, In tGeneric S -> parent_closed S = true -> closed (shipped_ctx_with si rnd) S).
Proof. intros si rnd Hsi. split; [exact (shipped_table_ok si rnd Hsi) | exact (shipped_closed si rnd)]. Qed.
Print Assumptions C13_shipped_table_satisfies_the_hypotheses.

(* non-vacuity: CompleteSet - Image + Image, StandardSet + CompleteSet are closed set expressions *)
Example C13_closed_instances :
  parent_closed (complete_set ++ [tImage]) = true /\ parent_closed (standard_set ++ complete_set) = true /\
  parent_closed (filter (fun x => negb (ty_eqb x tImage)) complete_set) = true.
Proof. vm_compute. repeat split. Qed.
