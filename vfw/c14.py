"""C14 - every constructible typeset is a well-formed rooted relation graph."""
import json
import multiprocessing
import random
import re
import warnings

from . import common as C
from . import gen_shipped

PROP = "C14"
PROP_FILE = "props/C14.v"
TARGETS = ["props/C14.vo", "extract/RunnerC14.vo"]

_STATE = {}


def names_table():
    files, info = gen_shipped.generate(C.REPO)
    return info["names"], info["table"], info["sets"]


def real_types(names):
    import visions
    return [getattr(visions.types, n) for n in names]


def closed_subsets(names, table):
    """all parent-closed subsets containing Generic, as sorted index tuples (DFS over the identity forest)"""
    par = {}
    for c in names:
        ps = [r[0] for r in table[c] if not r[1]]
        par[c] = ps[0] if ps else None
    children = {c: [d for d in names if par[d] == c] for c in names}
    idx = {c: i for i, c in enumerate(names)}

    def options(node):
        """all closed sets of the subtree of `node` that contain `node`"""
        res = [[node]]
        for ch in children[node]:
            sub = options(ch)
            res = [r + s for r in res for s in ([[]] + sub)]
        return res
    for s in options("Generic"):
        yield tuple(sorted(idx[c] for c in s))


def declared_real(names):
    """declared relations read from the real classes (independent of the translator)"""
    out = {}
    for n, t in zip(names, real_types(names)):
        out[n] = [(r.related_type.__name__, bool(r.inferential)) for r in t.get_relations()]
    return out


def init_worker():
    names, table, sets = names_table()
    _STATE.update(names=names, types=real_types(names), decl=declared_real(names))
    _STATE["idx"] = {t: i for i, t in enumerate(_STATE["types"])}


def encode_graph(g, idx):
    nodes = [idx[n] for n in g.nodes]
    edges = [(idx[u], idx[v], 1 if d.get("style") == "dashed" else 0) for u, v, d in g.edges(data=True)]
    return nodes, edges


WARN_SITE = [(re.compile(r"were isolates"), 1), (re.compile(r"Cyclical relations"), 2), (re.compile(r"Provided relations included mapping"), 3)]


CONTAINERS = {"list": list, "generator": lambda ts: (t for t in ts), "iterator": iter, "tuple": tuple, "frozenset": frozenset,
              "dict_keys": lambda ts: dict.fromkeys(ts).keys(), "reversed": lambda ts: reversed(list(ts)), "mutated_set": set}


def real_build(order_idx, via="typeset", container="list"):
    """Construct in REAL visions with the given node order.  via='typeset': VisionsTypeset(list) and
    report the order set(types) had; via='build_graph': build_graph(ordered list) directly."""
    import networkx as nx
    from visions.typesets import VisionsTypeset
    from visions.typesets.typeset import build_graph
    st = _STATE
    types = [st["types"][i] for i in order_idx]
    with warnings.catch_warnings(record=True) as ws:
        warnings.simplefilter("always")
        try:
            if via == "typeset":
                order = [st["idx"][t] for t in set(CONTAINERS[container](types))]     # the iteration order the constructor's own set(...) will have
                supplied = CONTAINERS[container](types)      # any iterable of types is accepted by the constructor
                ts = VisionsTypeset(supplied)
                if container == "mutated_set":
                    # the caller goes on using ITS set: the typeset keeps the types it was built from
                    supplied.clear()
                    supplied.update(st["types"][:3])
                rg, bg, root, tys = ts.relation_graph, ts.base_graph, ts.root_node, sorted(st["idx"][t] for t in ts.types)
            else:
                order = list(order_idx)
                rg, bg = build_graph(types)
                from visions.typesets import typeset as tsm
                root = getattr(tsm, "find_root_node", lambda g: next(nx.topological_sort(g)))(rg)
                tys = sorted(st["idx"][t] for t in rg.nodes)
        except Exception as e:  # noqa
            code = {"KeyError": 1, "ValueError": 2, "NetworkXError": 5, "StopIteration": 6, "NetworkXUnfeasible": 7}.get(type(e).__name__, 9)
            return order if via != "typeset" else [st["idx"][t] for t in set(CONTAINERS[container](types))], ("raise", code)
    wsites = sorted(next((s for rx, s in WARN_SITE if rx.search(str(w.message))), 0) for w in ws)
    return order, ("ok", st["idx"][root], encode_graph(rg, st["idx"]), encode_graph(bg, st["idx"]), tys, wsites)


def parse_model(line):
    xs = [int(x) for x in line.split(",") if x != ""]
    if xs[0] != 0:
        return ("raise", xs[0])
    p = [2]

    def take(n):
        r = xs[p[0]:p[0] + n]
        p[0] += n
        return r

    def graph():
        n = take(1)[0]
        nodes = take(n)
        m = take(1)[0]
        es = take(3 * m)
        return nodes, [tuple(es[i:i + 3]) for i in range(0, 3 * m, 3)]
    rg, bg = graph(), graph()
    nt = take(1)[0]
    tys = sorted(take(nt))
    nw = take(1)[0]
    sites = []
    for _ in range(nw):
        s, k = take(2)
        take(k)
        sites.append(s)
    return ("ok", xs[1], rg, bg, tys, sorted(sites))


def wellformed(sub_idx, out):
    """C14 stated on the implementation's result for the parent-closed subset sub_idx. None = ok."""
    st = _STATE
    names, decl = st["names"], st["decl"]
    if out[0] != "ok":
        return f"construction raised (code {out[1]})"
    _, root, (rn, re_), (bn, be), tys, wsites = out
    S = set(sub_idx)
    if names[root] != "Generic":
        return f"root is {names[root]}, not Generic"
    if set(tys) != S or set(rn) != S:
        return f"types {sorted(names[i] for i in tys)} differ from the given subset"
    want = set()
    for i in S:
        for rel, inf in decl[names[i]]:
            j = names.index(rel)
            if j in S:
                want.add((j, i, 1 if inf else 0))
    if set(re_) != want or len(re_) != len(want):
        extra, missing = set(re_) - want, want - set(re_)
        return (f"relation graph edges differ from the declared relations with both ends included: "
                f"missing {[(names[a], names[b], 'dashed' if s else 'solid') for a, b, s in missing][:3]} unexpected {[(names[a], names[b], 'dashed' if s else 'solid') for a, b, s in extra][:3]}")
    ident = {(a, b) for a, b, s in want if s == 0}
    if {(a, b) for a, b, _ in be} != ident:
        return "base graph edges differ from the identity relations"
    if any(s != 0 for _, _, s in be):
        return "an identity edge is not solid"
    if len(S) > 1 and set(bn) != S:
        return f"base graph nodes {sorted(names[i] for i in bn)} do not span the subset"
    # tree rooted at Generic: every non-root node has exactly one identity in-edge, all reach the root
    indeg = {}
    parent = {}
    for a, b in ident:
        indeg[b] = indeg.get(b, 0) + 1
        parent[b] = a
    for i in S:
        if i == root:
            if indeg.get(i, 0):
                return "Generic has an identity parent"
            continue
        if indeg.get(i, 0) != 1:
            return f"{names[i]} has {indeg.get(i, 0)} identity parents in the base graph"
        x, steps = i, 0
        while x != root and steps <= len(S):
            x = parent[x]
            steps += 1
        if x != root:
            return f"{names[i]} is not connected to Generic by identity edges"
    # acyclic: Kahn
    adj = {}
    deg = {i: 0 for i in S}
    for a, b, _ in re_:
        adj.setdefault(a, []).append(b)
        deg[b] += 1
    todo = [i for i in S if deg[i] == 0]
    seen = 0
    while todo:
        x = todo.pop()
        seen += 1
        for y in adj.get(x, []):
            deg[y] -= 1
            if deg[y] == 0:
                todo.append(y)
    if seen != len(S):
        return "relation graph has a cycle"
    if any(w != 3 for w in wsites):
        return f"construction of a parent-closed subset warned about isolates or cycles (sites {wsites})"
    return None


def work(chunk):
    """chunk: list of (subset tuple, closed?)  ->  list of (subset, order used, via, real outcome, wellformed msg)"""
    rnd = random.Random(hash(chunk[0][0]) & 0xFFFF)
    out = []
    for sub, closed in chunk:
        order, real = real_build(list(sub), "typeset")
        msg = wellformed(sub, real) if closed else None
        out.append((sub, order, real, msg, 0))
        sh = list(sub)
        rnd.shuffle(sh)
        order2, real2 = real_build(sh, "build_graph")
        msg2 = wellformed(sub, real2) if closed else None
        out.append((sub, order2, real2, msg2, 1))
        if closed and rnd.random() < 0.15:
            cont = rnd.choice([c for c in CONTAINERS if c != "list"])
            order3, real3 = real_build(sh, "typeset", cont)
            msg3 = wellformed(sub, real3)
            if msg3:
                msg3 += f" [types supplied as a {cont}]"
            out.append((sub, order3, real3, msg3, 0))
    return out


def canon(o):
    """relation graph: node and edge order compared exactly.  base graph (an edge_subgraph VIEW):
    networkx iterates the nodes of a view in the hash order of the induced node set when that set
    is small, so its node order is unobservable through visions and compared as a set; the
    successor order of every node (what traversal uses) is compared exactly."""
    if o[0] != "ok":
        return o
    adj = {}
    for u, v, st in o[3][1]:
        adj.setdefault(u, []).append((v, st))
    return ("ok", o[1], (tuple(o[2][0]), tuple(map(tuple, o[2][1]))),
            (tuple(sorted(o[3][0])), tuple(sorted((u, tuple(vs)) for u, vs in adj.items()))), tuple(o[4]), tuple(o[5]))


def replay(path):
    r = json.load(open(path))
    if "subset" not in r:
        print("replay names a broken obligation, no input to re-run:", [o["name"] for o in r.get("broken_obligations", [])])
        return 1
    init_worker()
    idx = [_STATE["names"].index(n) for n in r["order"]]
    order, real = real_build(idx, r.get("via", "build_graph"), r.get("container", "list"))
    msg = wellformed(tuple(sorted(_STATE["names"].index(n) for n in r["subset"])), real)
    print("replay:", msg or "property holds on this input")
    return 1 if msg else 0


def run(args):
    if args.replay:
        return replay(args.replay)
    run = C.Run(PROP, args.tier, args.seed)
    rnd = random.Random(args.seed)
    info = C.std_coq_phase(run, ["engine", "shipped"], TARGETS, PROP_FILE)
    broken = bool(run.failed_obligations())
    names, table, sets = names_table() if info["gen"]["shipped"]["ok"] else (None, None, None)
    if names is None:       # table no longer in the accepted shape: use the real classes for enumeration
        import visions
        names = ["Generic"] + sorted(n for n in visions.types.__all__ if n not in ("Generic", "VisionsBaseType"))
        table = {n: [(r.related_type.__name__, bool(r.inferential), False, False) for r in getattr(visions.types, n).get_relations()] for n in names}
    init_worker()
    allsubs = list(closed_subsets(names, table))
    run.cov["parent_closed_subsets_total"] = len(allsubs)
    std = set(sets["standard_set"]) if sets else set()
    stdidx = {names.index(n) for n in std}
    if args.tier == "thorough" or broken:
        chosen = allsubs
        run.cov["exhaustive"] = True
    else:
        chosen = [s for s in allsubs if set(s) <= stdidx] + rnd.sample(allsubs, min(20000, len(allsubs)))
        run.cov["exhaustive"] = False
    # plus arbitrary (not parent-closed) subsets: constructor behaviour only (model vs implementation)
    arbitrary = []
    for _ in range(3000 if args.tier == "quick" else 30000):
        k = rnd.randint(0, len(names))
        arbitrary.append(tuple(sorted(rnd.sample(range(len(names)), k))))
    jobs = [(s, True) for s in chosen] + [(s, False) for s in arbitrary]
    chunks = [jobs[i:i + 400] for i in range(0, len(jobs), 400)]
    with multiprocessing.Pool(16, initializer=init_worker) as pool:
        results = [r for part in pool.map(work, chunks) for r in part]
    run.cov["evaluations"] = len(results)
    run.cov["distinct_nontrivial"] = len({r[0] for r in results if len(r[0]) > 1})
    # ---- S2: well-formedness on the implementation
    bad = [r for r in results if r[3]]
    # ---- correspondence with the generated constructor
    model_ok = info["build_ok"] and info["gen"]["engine"]["ok"] and info["gen"]["shipped"]["ok"]
    mism = []
    if model_ok:
        ok, out = C.build_driver("c14")
        run.oblig("extract+link driver c14 (ExtrOcamlBasic)", "correspondence", ok, out[-500:])
        if ok:
            lines = C.run_driver("c14", [" ".join(map(str, [r[4]] + list(r[1]))) for r in results], timeout=3000)
            for r, line in zip(results, lines):
                if canon(parse_model(line)) != canon(r[2]):
                    mism.append((r, line))
            run.oblig(f"correspondence: generated VisionsTypeset.__init__/build_graph over the generated relation table vs real visions on {len(results)} "
                      f"constructions ({len(chosen)} parent-closed subsets x 2 supply orders + arbitrary subsets): root, nodes and edges in order, styles, types, warnings, exceptions",
                      "correspondence", not mism, [dict(order=[names[i] for i in m[0][1]], impl=str(m[0][2])[:300], model=m[1][:300]) for m in mism[:2]])
            run.cov["traces_validated_against_impl"] = len(results)
            run.cov["disagreements_checked"] = len(mism)
    if bad:
        b = min(bad, key=lambda r: len(r[0]))
        run.violation({"what": b[3], "subset": [names[i] for i in b[0]], "order": [names[i] for i in b[1]], "via": "typeset" if b[4] == 0 else "build_graph",
                       "container": (re.search(r"supplied as a (\w+)", b[3]) or [None, "list"])[1],
                       "python": "VisionsTypeset({" + ", ".join("visions.types." + names[i] for i in b[0]) + "})",
                       "broken_obligations": run.failed_obligations()})
    elif run.failed_obligations():
        rep = {"broken_obligations": run.failed_obligations(),
               "searched": f"{len(results)} constructions on the implementation against the well-formedness oracle: no failing subset"}
        for m, fn in (("engine", "Engine_gen.v"), ("shipped", "Shipped_gen.v")):
            if info["gen"].get(m, {}).get("changed_vs_golden"):
                rep["model_diff_vs_golden:" + fn] = C.golden_diff(fn)
        if mism:
            rep["disagreement"] = dict(order=[names[i] for i in mism[0][0][1]], impl=str(mism[0][0][2])[:500], model=mism[0][1][:500])
        run.violation(rep, no_input=True)
    run.cov["rule"] = ("parent-closed subsets of the shipped types containing Generic (all of them in the thorough tier; all subsets of the StandardSet types + 20000 random ones in quick), "
                       "each constructed through VisionsTypeset (set order) and through build_graph with a shuffled list, plus arbitrary subsets for constructor behaviour; "
                       "non-trivial = more than one type")
    run.cov["samples"] = [{"subset": [names[i] for i in results[k][0]], "order": [names[i] for i in results[k][1]]} for k in (10, len(results) // 2)]
    run.cov["trusted_base"] += [
        "translators vfw/gen_engine.py (build_graph, check_*, __init__) and vfw/gen_shipped.py (relation table from types/*.py, typesets) - regenerated this run",
        "coq/lib/NxModel.v (networkx subset) hand model, validated by this correspondence (node/edge insertion order, isolates, first source, edge_subgraph)",
        "extraction: ExtrOcamlBasic only; coq/extract/conv.ml + driver_c14.ml",
        "set(types) iteration order is read back from the interpreter (set_iter := identity)",
    ]
    return run.finish("proof")
