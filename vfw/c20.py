"""C20 - the LRU cache helper is transparent and bounded."""
import importlib
import itertools
import json
import random
from collections import OrderedDict

from . import common as C

PROP = "C20"
PROP_FILE = "props/C20.v"
TARGETS = ["props/C20.vo", "findings/C20_corners.vo", "extract/RunnerC20.vo"]


# ------------------------------------------------------------------ the implementation side
def impl_trace(cap, hist):
    """Run the real visions.utils.cache.lru_cache on a history.  Returns per call
    (value, stamp, keys-after) or 'RAISE:<exc>'."""
    from visions.utils import cache as vc
    cur = [0]

    def func(x):
        return (x, cur[0])

    wrapped = vc.lru_cache(hash_func=lambda x: x, max_length=cap)(func)
    cell = None
    for c in (wrapped.__closure__ or ()):
        try:
            if hasattr(c.cell_contents, "cache") and hasattr(c.cell_contents, "max_length"):
                cell = c.cell_contents
        except ValueError:
            pass
    out = []
    for i, k in enumerate(hist):
        cur[0] = i
        try:
            v = wrapped(k)
        except Exception as e:  # noqa
            out.append("RAISE")
            break
        keys = list(cell.cache.keys()) if cell is not None else None
        out.append((v[0], v[1], keys))
    return out


def fmt_impl(tr):
    cells = []
    for c in tr:
        if c == "RAISE":
            cells.append("RAISE")
        else:
            v, st, keys = c
            cells.append(f"{v}:{st}:{','.join(map(str, keys))}" if keys is not None else f"{v}:{st}:?")
    return "|".join(cells)


def ref_lru(cap, hist):
    """Independent reference LRU (the property oracle S2): expected (value, stamp, keys)."""
    d = OrderedDict()
    out = []
    for i, k in enumerate(hist):
        if k in d:
            d.move_to_end(k)
        else:
            d[k] = (k, i)
            if len(d) > cap:
                d.popitem(last=False)
        out.append((d[k][0], d[k][1], list(d.keys())))
    return out


def check_property_on_impl(cap, hist):
    """C20 stated directly on the implementation.  Returns None or a description."""
    got = impl_trace(cap, hist)
    exp = ref_lru(cap, hist)
    for i, (g, e) in enumerate(zip(got, exp)):
        if g == "RAISE":
            return f"call {i} (key {hist[i]}) raised"
        if g[0] != e[0]:
            return f"call {i}: returned value for key {g[0]}, wrapped function gives {e[0]} (not transparent)"
        if g[2] is not None and len(g[2]) > cap:
            return f"call {i}: cache holds {len(g[2])} entries > max_length {cap}"
        if g[1] != e[1]:
            return (f"call {i} (key {hist[i]}): value computed at call {g[1]}, a reference LRU of capacity {cap} "
                    f"would have computed it at call {e[1]} (recompute on hit / wrong eviction)")
    if len(got) != len(exp):
        return "trace length differs"
    return None


FALSY = [None, 0, "", False, (), 0.0]


def check_falsy_values(cap, hist):
    """the wrapped function may return ANY value (None, 0, '', False ...): results are still its results and it is
    called exactly on the reference LRU's misses.  Returns None or a description."""
    from visions.utils import cache as vc
    calls = []
    cur = [0]

    def func(x):
        calls.append(cur[0])
        return FALSY[x % len(FALSY)]
    wrapped = vc.lru_cache(hash_func=lambda x: x, max_length=cap)(func)
    for i, k in enumerate(hist):
        cur[0] = i
        try:
            v = wrapped(k)
        except Exception as e:  # noqa
            return f"call {i} (key {k}) raised {type(e).__name__} for a wrapped function returning {FALSY[k % len(FALSY)]!r}"
        want = FALSY[k % len(FALSY)]
        if v is not want and not (v == want and type(v) is type(want)):
            return f"call {i} (key {k}): returned {v!r}, the wrapped function returns {want!r}"
    exp = ref_lru(cap, hist)
    misses = [i for i, e in enumerate(exp) if e[1] == i]
    if calls != misses:
        return (f"wrapped function returning {[FALSY[k % len(FALSY)] for k in sorted(set(hist))]!r} for keys {sorted(set(hist))}: it was called at calls {calls}, "
                f"a reference LRU of capacity {cap} misses at calls {misses} (recomputation on a hit)")
    return None


def check_mutable_arg(cap, hist):
    """the argument is ONE mutable object edited in place between calls; the key is what hash_func reads from it at
    the time of the call (the documented use: mutable_pseudo_hash on a Series).  Results and recomputations are those
    of a reference LRU over the key sequence."""
    from visions.utils import cache as vc
    calls = []
    cur = [0]

    def func(box):
        calls.append(cur[0])
        return ("v", box[0], cur[0])
    wrapped = vc.lru_cache(hash_func=lambda box: box[0], max_length=cap)(func)
    box = [None]
    exp = ref_lru(cap, hist)
    for i, k in enumerate(hist):
        cur[0] = i
        box[0] = k
        try:
            v = wrapped(box)
        except Exception as e:  # noqa
            return f"call {i} (key {k}, passed in a mutable object edited in place) raised {type(e).__name__}"
        if v[1] != k:
            return f"call {i}: the same mutable argument now holds key {k}, the cached result of key {v[1]} was returned (not transparent)"
        if v[2] != exp[i][1]:
            return (f"call {i} (key {k}, same mutable argument object as the previous call): value computed at call {v[2]}, "
                    f"a reference LRU of capacity {cap} over the key sequence would have computed it at call {exp[i][1]}")
    return None


def histories(tier, rnd):
    """Exhaustive histories over 4 keys up to length k for capacities 1..3, then random long ones."""
    kmax = 6 if tier == "quick" else 8
    for cap in (1, 2, 3):
        for n in range(0, kmax + 1):
            for h in itertools.product(range(4), repeat=n):
                yield cap, list(h)
    nrand = 2000 if tier == "quick" else 10000
    for _ in range(nrand):
        cap = rnd.choice([1, 2, 3, 4, 7, 16])
        nk = rnd.choice([2, 4, 5, 9, 20])
        n = rnd.randint(1, 200)
        yield cap, [rnd.randrange(nk) for _ in range(n)]


def od_cases(rnd, n):
    for _ in range(n):
        ops = []
        for _ in range(rnd.randint(1, 30)):
            ops.append((rnd.randrange(7), rnd.randrange(5), rnd.randrange(100)))
        yield ops


def od_impl(ops):
    d = OrderedDict()
    out = []
    for c, k, v in ops:
        s, val = 0, 0
        try:
            if c == 0:
                val = d[k]
            elif c == 1:
                d[k] = v
            elif c == 2:
                del d[k]
            elif c == 3:
                d.move_to_end(k)
            elif c == 4:
                val = next(iter(d))
            elif c == 5:
                val = 1 if k in d else 0
            else:
                val = len(d)
        except KeyError:
            s = 1
        except StopIteration:
            s = 2
        out.append(f"{s}:{val}:" + ",".join(f"{a}={b}" for a, b in d.items()))
    return "|".join(out)


def shrink(cap, hist, bad):
    """Greedy shrink of a failing history: drop calls while `bad` still holds."""
    h = list(hist)
    changed = True
    while changed:
        changed = False
        for i in range(len(h)):
            h2 = h[:i] + h[i + 1:]
            if bad(cap, h2):
                h, changed = h2, True
                break
    return h


def replay(path):
    r = json.load(open(path))
    if "history" not in r:
        print("replay names a broken obligation, no input to re-run:", r.get("broken_obligations"))
        return 1
    msg = {"falsy": check_falsy_values, "mutable-argument": check_mutable_arg}.get(r.get("value_function"), check_property_on_impl)(r["capacity"], r["history"])
    print("replay:", "property fails: " + msg if msg else "property holds on this input")
    return 1 if msg else 0


def run(args):
    if args.replay:
        return replay(args.replay)
    run = C.Run(PROP, args.tier, args.seed)
    rnd = random.Random(args.seed)
    info = C.std_coq_phase(run, ["cache"], TARGETS, PROP_FILE)
    model_ok = info["build_ok"] and info["gen"]["cache"]["ok"]
    cases = list(histories(args.tier, rnd))
    run.cov["evaluations"] = 0
    distinct = set()
    # ---- correspondence: generated model vs implementation, OrderedDict model vs collections
    if info["gen"]["cache"]["ok"]:
        ok, out = C.build_driver("c20")
        run.oblig("extract+link driver c20 (ExtrOcamlBasic)", "correspondence", ok, out[-600:])
        if ok:
            odc = list(od_cases(rnd, 500 if args.tier == "quick" else 5000))
            got = C.run_driver("c20", ["D " + " ".join(f"{c} {k} {v}" for c, k, v in ops) for ops in odc])
            bad = [(ops, g, od_impl(ops)) for ops, g in zip(odc, got) if g != od_impl(ops)]
            run.oblig(f"correspondence: PyBase.od_* vs collections.OrderedDict on {len(odc)} random op sequences",
                      "correspondence", not bad, bad[:1])
            run.cov["od_model_cases"] = len(odc)
            got = C.run_driver("c20", ["L " + " ".join(map(str, [cap] + h)) for cap, h in cases])
            mism = []
            for (cap, h), g in zip(cases, got):
                run.cov["evaluations"] += 1
                if len(set(h)) > cap:
                    distinct.add((cap, tuple(h)))
                imp = fmt_impl(impl_trace(cap, h))
                if imp != g:
                    mism.append((cap, h, g, imp))
            run.cov["traces_validated_against_impl"] = len(cases)
            run.cov["disagreements_checked"] = len(mism)
            run.oblig(f"correspondence: generated lru_cache closure vs visions.utils.cache.lru_cache on {len(cases)} histories "
                      f"(results, computation stamps, cache keys after every call)", "correspondence", not mism,
                      [dict(capacity=m[0], history=m[1], model=m[2], impl=m[3]) for m in mism[:2]])
    # ---- S2: the property itself on the implementation (independent reference LRU)
    failing = None
    n_s2 = 0
    for cap, h in cases:
        n_s2 += 1
        msg = check_property_on_impl(cap, h)
        if msg:
            failing = (cap, h, msg)
            break
    falsy_fail = None
    if not failing:
        for cap, h in cases:
            if len(h) > 5 and n_s2 % 7:
                n_s2 += 1
                continue
            n_s2 += 1
            msg = check_falsy_values(cap, h)
            if msg:
                falsy_fail = (cap, h, msg)
                break
    mut_fail = None
    if not failing and not falsy_fail:
        for cap, h in cases:
            if len(h) > 5 and n_s2 % 5:
                n_s2 += 1
                continue
            n_s2 += 1
            msg = check_mutable_arg(cap, h)
            if msg:
                mut_fail = (cap, h, msg)
                break
    run.cov["property_oracle_cases_on_impl"] = n_s2
    if mut_fail:
        cap, h, msg = mut_fail
        h = shrink(cap, h, lambda c, x: check_mutable_arg(c, x) is not None)
        run.violation({"capacity": cap, "history": h, "what": check_mutable_arg(cap, h), "value_function": "mutable-argument",
                       "python": f"from visions.utils.cache import lru_cache; box=[None]; f=lru_cache(lambda b: b[0],{cap})(lambda b: ('v', b[0])); [(box.__setitem__(0, k), f(box)) for k in {h}]",
                       "broken_obligations": run.failed_obligations()})
    elif falsy_fail:
        cap, h, msg = falsy_fail
        h = shrink(cap, h, lambda c, x: check_falsy_values(c, x) is not None)
        run.violation({"capacity": cap, "history": h, "what": check_falsy_values(cap, h), "value_function": "falsy",
                       "python": f"from visions.utils.cache import lru_cache; f=lru_cache(lambda x:x,{cap})(lambda x: {FALSY!r}[x % {len(FALSY)}]); [f(k) for k in {h}]",
                       "broken_obligations": run.failed_obligations()})
    elif failing:
        cap, h, msg = failing
        h = shrink(cap, h, lambda c, x: check_property_on_impl(c, x) is not None)
        msg = check_property_on_impl(cap, h)
        run.violation({"capacity": cap, "history": h, "what": msg,
                       "impl_trace": fmt_impl(impl_trace(cap, h)), "reference_lru": ref_lru(cap, h),
                       "python": f"from visions.utils.cache import lru_cache; f=lru_cache(lambda x:x,{cap})(func); [f(k) for k in {h}]",
                       "broken_obligations": run.failed_obligations()})
    elif run.failed_obligations():
        fo = run.failed_obligations()
        rep = {"broken_obligations": fo, "searched": f"{n_s2} histories (exhaustive up to length {6 if args.tier=='quick' else 8} over 4 keys, capacities 1..3, plus random) on the implementation against a reference LRU: no failing history"}
        if info["gen"].get("cache", {}).get("changed_vs_golden"):
            rep["model_diff_vs_golden"] = C.golden_diff("Cache_gen.v")
        run.violation(rep, no_input=True)
    run.cov["distinct_nontrivial"] = len(distinct)
    run.cov["rule"] = ("all histories over 4 keys up to length %d for capacities 1..3 plus random histories up to length 200; "
                       "non-trivial = more distinct keys than the capacity (forces an eviction); distinct = distinct (capacity, history)"
                       % (6 if args.tier == "quick" else 8))
    run.cov["exhaustive"] = True
    run.cov["samples"] = [{"capacity": c, "history": h, "impl": fmt_impl(impl_trace(c, h))} for c, h in (cases[777], cases[5000], [c for c in cases if len(c[1]) > 8][0])]
    run.cov["trusted_base"] += [
        "translator vfw/py2coq.py + vfw/gen_cache.py (utils/cache.py -> gen/Cache_gen.v, regenerated this run)",
        "coq/lib/PyBase.v OrderedDict model (checked against collections.OrderedDict this run)",
        "extraction: ExtrOcamlBasic only (Extract Inductive bool/option/unit/list/prod/sumbool/comparison), no Extract Constant; coq/extract/conv.ml + driver_c20.ml",
        "theorem hypotheses: key equality decidable and correct; hash_func total and not conflating calls with different results; max_length >= 1; wrapped function returns on the calls made",
        "not modelled: mutable_pseudo_hash, state persistence of the cache when the wrapped function raises, thread safety",
    ]
    run.assumptions += ["exceptions discard the partially updated cache in the model (Python keeps it); the theorems assume the wrapped function returns"]
    return run.finish("proof")
