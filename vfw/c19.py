"""C19 - graph export is faithful and deterministic."""
import json
import os
import random
import shutil
import tempfile
import warnings

from . import common as C
from . import c14, streams

PROP = "C19"
PROP_FILE = "props/C19.v"
TARGETS = ["props/C19.vo", "extract/RunnerC14.vo"]


def typeset_in_order(order_names):
    """a VisionsTypeset whose graphs were built with the given supply order (what __init__ does with
    the iteration order of set(types), which cannot be chosen from outside)"""
    import visions
    from visions.typesets import VisionsTypeset
    from visions.typesets.typeset import build_graph
    types = [getattr(visions.types, n) for n in order_names]
    with warnings.catch_warnings():
        warnings.simplefilter("ignore")
        ts = VisionsTypeset(set(types))          # the real constructor first: whatever else it initialises stays initialised
        ts._root_node = None
        ts.relation_graph, ts.base_graph = build_graph(types)
        ts.types = set(ts.relation_graph.nodes)
    return ts


def export(ts, base_only, tmpdir, capture_raw=False):
    """returns (dot file bytes, raw dot text handed to graphviz or None)"""
    import pydot
    raw = []
    orig = pydot.Dot.write

    def spy(self, path, prog=None, format="raw", encoding=None):
        raw.append(self.to_string())
        return orig(self, path, prog=prog, format=format, encoding=encoding)
    p = os.path.join(tmpdir, "g.dot")
    if capture_raw:
        pydot.Dot.write = spy
    try:
        ts.output_graph(p, base_only=base_only)
    finally:
        pydot.Dot.write = orig
    return open(p, "rb").read(), (raw[0] if raw else None)


def parse_dot(text):
    import pydot
    g = pydot.graph_from_dot_data(text)[0]
    nodes = [n.get_name().strip('"') for n in g.get_nodes() if n.get_name() not in ("node", "graph", "edge")]
    edges = [(e.get_source().strip('"'), e.get_destination().strip('"'), (e.get("style") or "").strip('"')) for e in g.get_edges()]
    return nodes, edges


def faithful(ts, base_only, text):
    """file content vs the typeset's own graphs"""
    nodes, edges = parse_dot(text)
    g = ts.base_graph if base_only else ts.relation_graph
    want_nodes = {str(n) for n in g.nodes}
    want_edges = {(str(u), str(v), "dashed" if ts.relation_graph[u][v]["relationship"].inferential else "solid") for u, v in g.edges}
    mentioned = set(nodes) | {x for e in edges for x in e[:2]}
    if mentioned != want_nodes or (len(set(nodes)) != len(nodes)):
        return f"nodes in the file {sorted(mentioned)} differ from the typeset's {'base' if base_only else 'relation'} graph nodes {sorted(want_nodes)}"
    if set(nodes) != want_nodes:
        return f"node statements {sorted(nodes)} do not list every type {sorted(want_nodes)}"
    if set(edges) != want_edges or len(edges) != len(want_edges):
        return f"edges in the file differ: missing {sorted(want_edges - set(edges))[:3]} unexpected {sorted(set(edges) - want_edges)[:3]}"
    return None


def cases(rnd, tier):
    par = streams.identity_parent()
    out = [["Generic"], ["Generic", "DateTime"], ["Generic", "Object"], ["Generic", "Float", "Integer"], ["Generic", "Object", "String", "Boolean"]]
    from visions.typesets import CompleteSet, GeometrySet, StandardSet
    for ts in streams.shipped_typesets().values():
        out.append(sorted(t.__name__ for t in ts.types))
    # exhaustive for small typesets: all parent-closed sets of at most 4 types
    names, table, _ = c14.names_table()
    small = [s for s in c14.closed_subsets(names, table) if len(s) <= (3 if tier == "quick" else 4)]
    out += [[names[i] for i in s] for s in small]
    for _ in range(30 if tier == "quick" else 400):
        out.append(streams.random_closed_subset(rnd, par, universe=streams.TYPE_NAMES + ["Numeric", "Sparse"]))
    return out


def replay(path):
    r = json.load(open(path))
    if "typeset" not in r:
        print("replay names a broken obligation, no input to re-run:", [o["name"] for o in r.get("broken_obligations", [])])
        return 1
    tmp = tempfile.mkdtemp(prefix="visions-verif-c19-", dir=C.SCRATCH)
    try:
        outs = []
        if r.get("history"):
            th, fresh = typeset_in_order(r["orders"][0]), typeset_in_order(r["orders"][0])
            hist = [export(th, bo, tmp)[0] for bo in (True, False, True, False)]
            b = export(fresh, False, tmp)[0]
            if hist[1] != b or hist[3] != b or hist[0] != hist[2]:
                print("replay: property fails: exports of one instance (base, full, base, full) differ from a fresh instance's")
                return 1
        for order in r["orders"]:
            ts = typeset_in_order(order)
            b, raw = export(ts, r["base_only"], tmp)
            outs.append(b)
            msg = faithful(ts, r["base_only"], b.decode())
            if msg:
                print("replay: property fails:", msg)
                return 1
        if len(set(outs)) > 1:
            print("replay: property fails: DOT text differs between supply orders")
            return 1
    finally:
        shutil.rmtree(tmp, ignore_errors=True)
    print("replay: property holds on this input")
    return 0


def run(args):
    if args.replay:
        return replay(args.replay)
    run = C.Run(PROP, args.tier, args.seed)
    rnd = random.Random(args.seed)
    info = C.std_coq_phase(run, ["engine", "shipped"], TARGETS, PROP_FILE)
    broken = bool(run.failed_obligations())
    tmp = tempfile.mkdtemp(prefix="visions-verif-c19-", dir=C.SCRATCH)
    names, table, _ = c14.names_table()
    idx = {n: i for i, n in enumerate(names)}
    fail, n, nexp, distinct = None, 0, 0, set()
    model_lines, model_meta = [], []
    n_orders = 6 if args.tier == "quick" and not broken else (12 if args.tier == "quick" else 20)
    try:
        for S in cases(rnd, args.tier):
            for base_only in (False, True):
                n += 1
                distinct.add((tuple(S), base_only))
                outs, orders = [], []
                perms = [sorted(S), sorted(S, reverse=True)]
                import itertools
                if len(S) <= 3 or (len(S) == 4 and args.tier == "thorough" and rnd.random() < 0.25):
                    perms = [list(p) for p in itertools.permutations(S)]
                else:
                    for _ in range(n_orders - 2):
                        p = list(S)
                        rnd.shuffle(p)
                        perms.append(p)
                for k, order in enumerate(perms):
                    ts = typeset_in_order(order)
                    b, raw = export(ts, base_only, tmp, capture_raw=(k < 2))
                    nexp += 1
                    outs.append(b)
                    orders.append(order)
                    if fail is None:
                        msg = faithful(ts, base_only, b.decode())
                        if msg:
                            fail = {"what": msg, "typeset": S, "base_only": base_only, "orders": [order]}
                    if k == 0 and not base_only and fail is None:
                        # history on ONE instance: base, full, base, full - every export equals the export of a fresh instance
                        th = typeset_in_order(order)
                        hist = [export(th, bo, tmp)[0] for bo in (True, False, True, False)]
                        nexp += 4
                        if hist[1] != b or hist[3] != b or hist[0] != hist[2]:
                            which = "full export after a base_only export" if hist[1] != b else ("second full export" if hist[3] != b else "second base_only export")
                            fail = {"what": f"on one typeset instance the exports base_only=True, False, True, False were made in this order: the {which} differs from the export of a fresh instance",
                                    "typeset": S, "base_only": False, "orders": [order], "history": "base,full,base,full"}
                    if raw is not None:
                        model_lines.append(" ".join(map(str, [3, 1 if base_only else 0] + [idx[x] for x in order])))
                        model_meta.append((S, base_only, order, raw))
                if fail is None and len(set(outs)) > 1:
                    j = next(i for i, o in enumerate(outs) if o != outs[0])
                    fail = {"what": "the written DOT text differs between two supply orders of the same typeset",
                            "typeset": S, "base_only": base_only, "orders": [orders[0], orders[j]]}
    finally:
        shutil.rmtree(tmp, ignore_errors=True)
    run.cov["evaluations"] = nexp
    run.cov["distinct_nontrivial"] = len(distinct)
    run.cov["property_oracle_cases_on_impl"] = nexp
    # ---- correspondence: what the generated output_graph hands to pydot vs what the implementation handed
    if info["build_ok"] and info["gen"]["engine"]["ok"] and info["gen"]["shipped"]["ok"]:
        ok, out = C.build_driver("c14")
        run.oblig("extract+link driver c14", "correspondence", ok, out[-400:])
        if ok:
            lines = C.run_driver("c14", model_lines)
            mism = []
            for (S, base_only, order, raw), line in zip(model_meta, lines):
                xs = [int(x) for x in line.split(",")]
                nodes_i, edges_i = parse_dot(raw)
                if xs[0] != 0:
                    mism.append(dict(typeset=S, order=order, model=f"raise {xs[0]}"))
                    continue
                k = xs[1]
                mn = [names[i] for i in xs[2:2 + k]]
                m = xs[2 + k]
                es = xs[3 + k:3 + k + 3 * m]
                me = [(names[es[i]], names[es[i + 1]], {0: "solid", 1: "dashed", 2: ""}[es[i + 2]]) for i in range(0, 3 * m, 3)]
                if mn != nodes_i or me != edges_i:
                    mism.append(dict(typeset=S, base_only=base_only, order=order, model_nodes=mn, impl_nodes=nodes_i, model_edges=me[:4], impl_edges=edges_i[:4]))
            run.oblig(f"correspondence: nodes and styled edges (in order) that the generated output_graph hands to pydot vs the DOT text the implementation hands to graphviz, {len(lines)} exports",
                      "correspondence", not mism, mism[:2])
            run.cov["traces_validated_against_impl"] = len(lines)
            run.cov["disagreements_checked"] = len(mism)
    if fail:
        fail["broken_obligations"] = run.failed_obligations()
        fail["how"] = "vfw.c19.typeset_in_order(order).output_graph(file.dot, base_only)"
        run.violation(fail)
    elif run.failed_obligations():
        rep = {"broken_obligations": run.failed_obligations(), "searched": f"{nexp} exports of {len(distinct)} (typeset, base_only) pairs under several supply orders: no failing input"}
        if info["gen"].get("engine", {}).get("changed_vs_golden"):
            rep["model_diff_vs_golden"] = C.golden_diff("Engine_gen.v")
        run.violation(rep, no_input=True)
    run.cov["rule"] = ("shipped typesets, all parent-closed typesets of at most 3 (quick) / 4 (thorough) types under ALL supply orders, random parent-closed typesets under "
                       f"{n_orders} orders; x base_only in {{False, True}}; each export parsed back and compared with the typeset's graphs, bytes compared across orders")
    run.cov["samples"] = [dict(typeset=m[0], base_only=m[1], order=m[2]) for m in model_meta[:2]]
    run.cov["trusted_base"] += [
        "translators vfw/gen_engine.py (VisionsTypeset.output_graph, utils.graph.output_graph up to to_pydot) and vfw/gen_shipped.py",
        "render (networkx to_pydot + pydot + graphviz) is an uninterpreted function of the ordered node list and ordered styled edge list; graph-level attributes (node shape/colour, dpi) are constants and not modelled",
        "supply orders are realised on the implementation by build_graph(ordered list), as __init__ does with set(types)",
    ]
    return run.finish("proof")
