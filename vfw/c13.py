"""C13 - typeset algebra obeys set laws and never modifies its operands."""
import json
import random
import warnings

from . import common as C
from . import c14, streams

PROP = "C13"
PROP_FILE = "props/C13.v"
TARGETS = ["props/C13.vo", "extract/RunnerC14.vo"]


def snapshot(ts):
    return (frozenset(ts.types), tuple(ts.relation_graph.nodes), tuple(ts.relation_graph.edges), tuple(ts.base_graph.edges))


def type_snapshot(names):
    import visions
    out = {}
    for n in names:
        t = getattr(visions.types, n)
        out[n] = (t.__bases__, tuple((r.related_type, r.inferential) for r in t.relations))
    return out


def parent_closed(S, par):
    return all(n == "Generic" or par.get(n) in S for n in S) and "Generic" in S


def apply_op(op, a, b):
    """returns (result typeset or exception, warnings list)"""
    with warnings.catch_warnings(record=True) as ws:
        warnings.simplefilter("always")
        try:
            if op == "add":
                r = a + b
            elif op == "sub":
                r = a - b
            elif op == "iadd":
                r = a
                r += b
            elif op == "isub":
                r = a
                r -= b
            elif op == "replace":
                r = a.replace(*b)
            else:
                raise AssertionError(op)
        except Exception as e:  # noqa
            return e, [str(w.message) for w in ws]
    return r, [str(w.message) for w in ws]


def expected_set(op, A, B):
    if op in ("add", "iadd"):
        return set(A) | set(B)
    if op in ("sub", "isub"):
        return set(A) - set(B)
    old, new = B
    if old not in A:
        return None          # set.remove raises KeyError: documented python behaviour, not judged
    return (set(A) | {new}) - {old}


def names_of(ts):
    return sorted(t.__name__ for t in ts.types)


def single_steps(rnd, tier):
    """all (typeset, type) pairs for add / sub / replace over shipped typesets + some sub-typesets"""
    import visions
    par = streams.identity_parent()
    bases = {k: names_of(v) for k, v in streams.shipped_typesets().items()}
    for _ in range(4 if tier == "quick" else 40):
        s = streams.random_closed_subset(rnd, par)
        bases["sub:" + ",".join(s)] = s
    allt = streams.TYPE_NAMES + ["Numeric", "Sparse"]
    for bname, A in bases.items():
        for t in allt:
            yield ("add", bname, A, ("type", t))
            yield ("sub", bname, A, ("type", t))
            yield ("iadd", bname, A, ("type", t))
            yield ("isub", bname, A, ("type", t))
        for old in A:
            for new in (rnd.sample(allt, 4) if tier == "quick" else allt):
                yield ("replace", bname, A, ("pair", (old, new)))
        for oname, O in bases.items():
            yield ("add", bname, A, ("set", O))
            yield ("sub", bname, A, ("set", O))


def check_step(op, A, other, par):
    """C13 on one operation against real visions.  Returns list of failure strings."""
    import visions
    T = lambda n: getattr(visions.types, n)  # noqa
    fails = []
    a = streams.typeset_from_names(A)
    snap_a = snapshot(a)
    if other[0] == "type":
        b, B = T(other[1]), [other[1]]
    elif other[0] == "set":
        b, B = streams.typeset_from_names(other[1]), other[1]
        snap_b = snapshot(b)
    else:
        b, B = (T(other[1][0]), T(other[1][1])), other[1]
    tsnap = type_snapshot(set(A) | set(B if other[0] != "pair" else list(B)))
    want = expected_set(op, A, B)
    r, ws = apply_op(op, a, b)
    if snapshot(a) != snap_a:
        fails.append(f"left operand changed by {op}: types/graph before {sorted(x.__name__ for x in snap_a[0])} after {names_of(a)}")
    if other[0] == "set" and snapshot(b) != snap_b:
        fails.append(f"right operand changed by {op}")
    if type_snapshot(tsnap.keys()) != tsnap:
        fails.append(f"type classes changed by {op}")
    if want is None:
        return fails
    closed = parent_closed(want, par)
    if isinstance(r, Exception):
        if closed:
            fails.append(f"{op} raised {type(r).__name__}: {str(r)[:80]} although the result set {sorted(want)} is parent-closed")
        elif "Generic" in want and not isinstance(r, (KeyError,)):
            fails.append(f"NONCLOSED {op} raised {type(r).__name__}: {str(r)[:60]} - a relation whose source type is absent must be dropped with a warning, never an error (result set {sorted(want)})")
        return fails
    if r is a or (other[0] == "set" and r is b):
        fails.append(f"{op} returned an operand object instead of a new typeset")
    if closed:
        if set(names_of(r)) != want:
            fails.append(f"{op}: result types {names_of(r)} differ from the set {'union' if 'add' in op else 'difference' if 'sub' in op else 'substitution'} {sorted(want)}")
        if r.root_node.__name__ != "Generic":
            fails.append(f"{op}: root of the result is {r.root_node}")
    else:
        if not set(names_of(r)) <= want:
            fails.append(f"{op}: result has types outside the set result: {sorted(set(names_of(r)) - want)}")
    # dropped relations must be warned about
    import re
    missing_src = set()
    for n in (set(names_of(r)) | want):
        for rel in getattr(visions.types, n).get_relations():
            if rel.related_type.__name__ not in want and n in want:
                missing_src.add((rel.related_type.__name__, n))
    warned = set()
    for w in ws:
        m = re.search(r"mapping from (\w+) to (\w+) but", w)
        if m:
            warned.add((m.group(1), m.group(2)))
    if missing_src - warned:
        fails.append(f"{op}: relations {sorted(missing_src - warned)[:3]} were dropped without a warning")
    return fails


def laws(rnd, par, n):
    """commutativity / associativity / idempotence on random parent-closed typesets"""
    fails = []
    for _ in range(n):
        A, B, Cc = (streams.random_closed_subset(rnd, par) for _ in range(3))
        a, b, c = (streams.typeset_from_names(x) for x in (A, B, Cc))
        with warnings.catch_warnings():
            warnings.simplefilter("ignore")
            try:
                if (a + b).types != (b + a).types:
                    fails.append({"what": "a + b and b + a have different types", "A": A, "B": B})
                if ((a + b) + c).types != (a + (b + c)).types:
                    fails.append({"what": "+ is not associative", "A": A, "B": B, "C": Cc})
                if (a + a).types != a.types:
                    fails.append({"what": "a + a differs from a", "A": A})
                if set(names_of(a + b)) != set(A) | set(B):
                    fails.append({"what": "a + b is not the union", "A": A, "B": B})
            except Exception as e:  # noqa
                fails.append({"what": f"law evaluation raised {type(e).__name__}: {e}", "A": A, "B": B, "C": Cc})
    return fails


def type_plus_type(par):
    import visions
    fails = []
    allt = streams.TYPE_NAMES + ["Numeric", "Sparse"]
    for x in allt:
        for y in allt:
            tx, ty = getattr(visions.types, x), getattr(visions.types, y)
            want = {"Generic", x, y}
            with warnings.catch_warnings():
                warnings.simplefilter("ignore")
                try:
                    r = tx + ty
                except Exception as e:  # noqa
                    if parent_closed(want, par):
                        fails.append({"what": f"{x} + {y} raised {type(e).__name__}", "op": "type+type", "A": [x], "other": ["type", y]})
                    else:
                        fails.append({"what": f"NONCLOSED {x} + {y} raised {type(e).__name__}: a relation whose source type is absent must be dropped with a warning, never an error",
                                      "op": "type+type", "A": [x], "other": ["type", y]})
                    continue
            if parent_closed(want, par) and set(names_of(r)) != want:
                fails.append({"what": f"{x} + {y} has types {names_of(r)}, expected {sorted(want)}", "op": "type+type", "A": [x], "other": ["type", y]})
    return fails


def replay(path):
    r = json.load(open(path))
    if "op" not in r:
        print("replay names a broken obligation, no input to re-run:", [o["name"] for o in r.get("broken_obligations", [])])
        return 1
    par = streams.identity_parent()
    if r["op"] == "type+type":
        f = [x for x in type_plus_type(par) if x["A"] == r["A"] and x["other"] == r["other"]]
    else:
        other = tuple(r["other"]) if r["other"][0] != "pair" else ("pair", tuple(r["other"][1]))
        f = check_step(r["op"], r["A"], other, par)
    print("replay:", f if f else "property holds on this input")
    return 1 if f else 0


def is_known(kn, what):
    for e in kn:
        if e["classifier"] == "F13a" and what.startswith("NONCLOSED") and "ValueError" in what:
            return e
    return None


def run(args):
    if args.replay:
        return replay(args.replay)
    from . import oracle
    run = C.Run(PROP, args.tier, args.seed)
    rnd = random.Random(args.seed)
    info = C.std_coq_phase(run, ["engine", "shipped"], TARGETS, PROP_FILE)
    par = streams.identity_parent()
    kn = oracle.load_known(PROP)
    new, known_hits, n = [], {}, 0
    distinct = set()
    steps = list(single_steps(rnd, args.tier))
    for op, bname, A, other in steps:
        n += 1
        distinct.add((op, bname, str(other)))
        for w in check_step(op, A, other, par):
            e = is_known(kn, w)
            f = {"what": w, "op": op, "A": A, "other": list(other), "class": w.split(":")[0][:40]}
            if e:
                known_hits.setdefault(e["id"], []).append(f)
            elif len(new) < 20:
                new.append(f)
    for f in laws(rnd, par, 60 if args.tier == "quick" else 600):
        new.append(dict(f, op="law", **{"class": f["what"][:30]}))
    for f in type_plus_type(par):
        e = is_known(kn, f["what"])
        if e:
            known_hits.setdefault(e["id"], []).append(f)
        else:
            new.append(dict(f, **{"class": "type+type"}))
    run.cov["evaluations"] = n + 26 * 26
    run.cov["distinct_nontrivial"] = len(distinct)
    run.cov["exhaustive"] = True
    run.cov["known_finding_hits"] = {k: len(v) for k, v in known_hits.items()}
    # ---- correspondence: generated algebra vs implementation (result type sets / exceptions)
    if info["build_ok"] and info["gen"]["engine"]["ok"] and info["gen"]["shipped"]["ok"]:
        ok, out = C.build_driver("c14")
        run.oblig("extract+link driver c14", "correspondence", ok, out[-400:])
        if ok:
            names, table, sets = c14.names_table()
            idx = {nm: i for i, nm in enumerate(names)}
            sample = [s for s in steps if s[3][0] in ("type", "pair")]
            sample = rnd.sample(sample, min(len(sample), 1500 if args.tier == "quick" else 20000))
            mism = []
            for op, bname, A, other in sample:
                a = streams.typeset_from_names(A)
                import visions
                if other[0] == "type":
                    b, args_b, is_t = getattr(visions.types, other[1]), [idx[other[1]]], 1
                else:
                    b, args_b, is_t = tuple(getattr(visions.types, x) for x in other[1]), [idx[x] for x in other[1]], 1
                r, ws = apply_op(op, a, b)
                want = expected_set(op, A, [other[1]] if other[0] == "type" else other[1])
                if want is None or not parent_closed(want, par):
                    continue        # order-dependent outcomes (F13a) are judged by the oracle above, not compared
                code = {"add": 0, "sub": 1, "iadd": 2, "isub": 3, "replace": 4}[op]
                line = C.run_driver("c14", [" ".join(map(str, [2, code, is_t, len(A)] + [idx[x] for x in A] + args_b))])[0]
                xs = [int(x) for x in line.split(",")]
                model_types = sorted(names[i] for i in xs[2:2 + xs[1]]) if xs[0] == 0 else ("raise", xs[0])
                impl_types = names_of(r) if not isinstance(r, Exception) else ("raise", type(r).__name__)
                if model_types != impl_types:
                    mism.append(dict(op=op, A=A, other=list(other), model=model_types, impl=impl_types))
            run.oblig(f"correspondence: generated __add__/__sub__/__iadd__/__isub__/replace vs real visions on {len(sample)} single steps with parent-closed results (result type sets, exceptions)",
                      "correspondence", not mism, mism[:2])
            run.cov["traces_validated_against_impl"] = len(sample)
            run.cov["disagreements_checked"] = len(mism)
    for e in kn:
        r = e.get("replay", {})
        still = bool(check_step(r["op"], r["A"], tuple(r["other"]), par)) if "op" in r and r["op"] != "type+type" else True
        if still:
            run.known(f"{e['id']}: {e['what']}")
    if new:
        seen = set()
        for f in sorted(new, key=lambda f: len(str(f)))[:10]:
            if f["class"] in seen or len(seen) >= 3:
                continue
            seen.add(f["class"])
            run.violation(dict(f, broken_obligations=run.failed_obligations()))
    elif run.failed_obligations():
        rep = {"broken_obligations": run.failed_obligations(), "searched": f"{n} single-step operations, laws and Type+Type on the implementation: no failing input"}
        if info["gen"].get("engine", {}).get("changed_vs_golden"):
            rep["model_diff_vs_golden"] = C.golden_diff("Engine_gen.v")
        run.violation(rep, no_input=True)
    run.cov["rule"] = ("every (typeset, type) pair for + - += -= and replace over the shipped typesets and random parent-closed sub-typesets, typeset-typeset + and -, "
                       "all 26x26 Type + Type, random law instances; distinct = distinct (op, typeset, operand)")
    run.cov["samples"] = [dict(op=s[0], typeset=s[1], other=list(s[3])) for s in (steps[3], steps[len(steps) // 2])]
    run.cov["trusted_base"] += [
        "translators vfw/gen_engine.py (algebra methods, __init__, build_graph) and vfw/gen_shipped.py; NxModel.v",
        "operands are immutable values in the model: non-mutation of operands is carried by the translator's effect discipline (a store into self.types would be rejected) and checked on the implementation by before/after snapshots",
    ]
    return run.finish("proof")
