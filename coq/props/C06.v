(* C06 - Casts are element-wise lossless and shape-preserving.
   Proved part: composition.  The data cast_to_inferred returns is exactly the input pushed through the
   transformers of the inference path in order, each only after its guard accepted the data as it was at that
   point (so a coercion is only ever applied to data its guard vouches for); for a DataFrame the columns are
   transformed independently and re-assembled by label (props/C08.v).  That each shipped transformer keeps
   length, index, name and missing-value positions and decodes element-wise, and that each guard tests the
   exact round trip, are per-relation obligations decided on the implementation against independent decoders. *)
From Coq Require Import List Bool ZArith.
Import ListNotations.
From V Require Import PyBase NxModel WalkSpec Engine_gen Engine_bridge SampledTheory InferTheory.
Open Scope py_scope.

Theorem C06_cast_is_the_guarded_composition_of_the_path :
  forall (T D St L F : Type) (X : ctx T D St L F) fuel ts d out ts',
    VT_infer X fuel ts d = Ok (out, ts') ->
    exists root hops, snd (fst out) = root :: hops /\ follows X (relation_graph ts) root d hops (fst (fst out)).
Proof.
  intros T D St L F X fuel ts d out ts' H. rewrite VT_infer_eq in H.
  destruct (root_of X ts) as [root|e]; cbn [bind ret] in H; [|discriminate]. unfold fresh_walk in H.
  destruct (walk (succ_of X (relation_graph ts)) fuel root d (empty_state X tt) []) as [[[dd p] st']|e] eqn:W; cbn [bind ret] in H; [|discriminate].
  inversion H; subst. destruct (walk_is_guarded_composition X _ _ _ _ _ _ _ _ W) as [hops [-> Hf]].
  exists root, hops. split; [reflexivity | exact Hf].
Qed.
Print Assumptions C06_cast_is_the_guarded_composition_of_the_path.
