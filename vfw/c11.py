"""C11 - a type is a property of the bag of values."""
import ast
import itertools
import json
import random
import warnings

import numpy as np
import pandas as pd

from . import common as C
from . import oracle, streams

PROP = "C11"
PROP_FILE = "props/C11.v"
TARGETS = ["props/C11.vo", "extract/RunnerPython.vo"]


def answers(ts, types, x):
    """(detect_type, infer_type, tuple of `in T`) with exceptions folded in"""
    def safe(f):
        try:
            return f()
        except Exception as e:  # noqa
            return "raise:" + type(e).__name__
    d = safe(lambda: ts.detect_type(x).__name__)
    i = safe(lambda: ts.infer_type(x).__name__)
    m = tuple(safe(lambda t=t: bool(x in t)) for t in types)
    return d, i, m


def variants(s, rnd):
    """(label, transformed series) - reorderings, relabelling, renaming, repetition.  A transformation
    that pandas refuses, or that changes the dtype (Sparse[object] under iloc / concat), is not a
    rearrangement of the same sequence and is skipped."""
    n = len(s)
    cands = []
    if 2 <= n <= 4:
        for p in itertools.permutations(range(n)):
            if list(p) != list(range(n)):
                cands.append((f"rows permuted {list(p)}", lambda p=p: s.iloc[list(p)]))
    elif n > 4:
        for _ in range(3):
            p = list(range(n))
            rnd.shuffle(p)
            cands.append((f"rows permuted {p[:8]}..", lambda p=p: s.iloc[p]))
        cands.append(("rows reversed", lambda: s.iloc[::-1]))
    if n:
        cands.append(("index relabelled with strings", lambda: s.set_axis([f"r{i}" for i in range(n)])))
        cands.append(("index relabelled with one repeated label", lambda: s.set_axis([7] * n)))
        cands.append(("index reset", lambda: s.reset_index(drop=True)))
        cands.append(("renamed", lambda: s.rename("other name")))
        cands.append(("repeated twice", lambda: pd.concat([s, s])))
        cands.append(("repeated three times", lambda: pd.concat([s, s, s], ignore_index=True)))
    out = []
    for label, mk in cands:
        try:
            v = mk()
        except Exception:  # noqa
            continue
        if v.dtype == s.dtype and isinstance(v, pd.Series):
            out.append((label, v))
    return out


def describe(d, i, m, names):
    return {"detect_type": d, "infer_type": i, "contained_in": [n for n, b in zip(names, m) if b is True]}


def check_pandas(ctx, s, rnd):
    fails = []
    ts, types, names = ctx["ts"], ctx["types"], ctx["names"]
    base = answers(ts, types, s)
    for label, v in variants(s, rnd):
        a = answers(ts, types, v)
        if a != base:
            what = []
            if a[2] != base[2]:
                diff = [n for n, x, y in zip(names, base[2], a[2]) if x != y]
                what.append(f"membership in {diff} changes")
            if a[0] != base[0]:
                what.append(f"detect_type {base[0]} -> {a[0]}")
            if a[1] != base[1]:
                what.append(f"infer_type {base[1]} -> {a[1]}")
            kind = "membership" if a[2] != base[2] else ("detect" if a[0] != base[0] else "infer")
            diff_types = [n for n, x, y in zip(names, base[2], a[2]) if x != y]
            fails.append({"what": f"{label}: " + "; ".join(what), "class": f"{kind}:{','.join(diff_types) or base[1] + '->' + str(a[1])}", "variant": label,
                          "kind": kind, "types": diff_types, "before": describe(*base, names), "after": describe(*a, names), "backend": "pandas"})
            break
    return fails


def check_seq(ctx, s, rnd, backend):
    """numpy arrays (StandardSet) and Python lists: permutation and repetition"""
    fails = []
    ts = ctx["std"]
    types, names = ctx["std_types"], ctx["std_names"]
    try:
        x = s.to_numpy() if backend == "numpy" else list(s)
    except Exception:  # noqa
        return fails
    if backend == "numpy" and not (isinstance(x, np.ndarray) and x.ndim == 1):
        return fails
    n = len(x)
    if n < 2 or n > 9:
        return fails
    base = answers(ts, types, x)
    perms = list(itertools.permutations(range(n))) if n <= 4 else [tuple(range(n)), tuple(reversed(range(n))), tuple(range(1, n)) + (0,), (n - 1,) + tuple(range(n - 1))]
    for p in perms[1:]:
        v = x[list(p)] if backend == "numpy" else [x[i] for i in p]
        a = answers(ts, types, v)
        if a != base:
            diff = [nm for nm, u, w in zip(names, base[2], a[2]) if u != w]
            kind = "membership" if a[2] != base[2] else ("detect" if a[0] != base[0] else "infer")
            fails.append({"what": f"{backend}: rows permuted {list(p)}: membership diff {diff}, detect {base[0]} -> {a[0]}, infer {base[1]} -> {a[1]}",
                          "class": f"{backend}:{kind}:{','.join(diff) or str(base[1]) + '->' + str(a[1])}", "variant": f"perm {list(p)}", "kind": kind, "types": diff, "backend": backend,
                          "before": describe(*base, names), "after": describe(*a, names)})
            break
    return fails


def oracle_fn(ctx, item, s):
    rnd = ctx["rnd"]
    fails = check_pandas(ctx, s, rnd)
    if item["family"] in ("bx", "special", "mixed", "family", "cross") or item["pool"] in ("str+odd", "str+none+odd"):
        fails += check_seq(ctx, s, rnd, "numpy")
        fails += check_seq(ctx, s, rnd, "list")
    return fails


def make_ctx(rnd):
    import visions
    sh = streams.shipped_typesets()
    names = sorted(t.__name__ for t in sh["CompleteSet"].types)
    std_names = sorted(t.__name__ for t in sh["StandardSet"].types)
    return {"ts": sh["CompleteSet"], "names": names, "types": [getattr(visions.types, n) for n in names], "std": sh["StandardSet"],
            "std_names": std_names, "std_types": [getattr(visions.types, n) for n in std_names], "rnd": rnd}


def hetero_stream(rnd, n):
    """heterogeneous columns: the rows that matter for prefix-based predicates"""
    reps = streams.KIND_REPS
    out = []
    for _ in range(n):
        k = rnd.randint(2, 4)
        vals = [rnd.choice(reps) for _ in range(k)]
        out.append({"recipe": streams.series_recipe(vals, rnd.choice(["None", "object"])), "family": "hetero", "pool": "hetero", "dtype": "object", "nulls": "?",
                    "null": None, "len": k, "index": "None"})
    # six or more strings plus one odd value (prefix of five)
    for odd in ["b'x'", "1", "None", "1.5", "pd.NA", "datetime.date(2020, 1, 1)"]:
        for pos in (0, 3, 6):
            vals = ["'a'", "'b'", "'c'", "'d'", "'e'", "'f'"]
            vals.insert(pos, odd)
            for dt in ("None", "object"):
                out.append({"recipe": streams.series_recipe(vals, dt), "family": "hetero", "pool": "str+odd", "dtype": dt, "nulls": "?", "null": None, "len": 7, "index": "None"})
    # a missing value inside the prefix and the odd value just behind it (prefix tests that count rows before / after dropping missing values)
    for odd in ["b'x'", "1", "1.5", "datetime.date(2020, 1, 1)"]:
        for none_pos in (0, 1, 4):
            for odd_pos in (4, 5, 6):
                vals = ["'a'", "'b'", "'c'", "'d'", "'e'", "'f'"]
                vals.insert(odd_pos, odd)
                vals.insert(none_pos, "None")
                out.append({"recipe": streams.series_recipe(vals, "object"), "family": "hetero", "pool": "str+none+odd", "dtype": "object", "nulls": "?", "null": None, "len": 8, "index": "None"})
    for a, b in [("'2020-01-01'", "'01/02/2020'"), ("'1'", "'a'"), ("'1.5'", "'2'"), ("'True'", "'yes'"), ("'POINT (1 2)'", "'x'")]:
        out.append({"recipe": streams.series_recipe([a, b]), "family": "hetero", "pool": "strpair", "dtype": "None", "nulls": "?", "null": None, "len": 2, "index": "None"})
    return out


PY_POOL = ["None", "True", "False", "0", "1", "-5", "10 ** 30", "0.0", "1.5", "float('nan')", "float('-inf')", "0j", "(1+2j)", "fractions.Fraction(1, 3)",
           "decimal.Decimal('0')", "decimal.Decimal('-2.5')", "''", "'a'", "'1.5'", "b''", "b'a'", "datetime.datetime(2020, 1, 1)",
           "datetime.datetime(1999, 5, 6, 7, 8, 9)", "datetime.date(2020, 1, 1)", "datetime.time(0, 0)", "datetime.time(1, 2)", "datetime.timedelta(0)",
           "datetime.timedelta(days=1)", "pathlib.PurePosixPath('/a')", "pathlib.PurePosixPath('a')", "pathlib.PureWindowsPath('C:/a')", "pathlib.Path('/tmp')",
           "pathlib.Path('/nonexistent-verif-xyz')", "pathlib.Path('nonexistent-relative-verif')", "pathlib.Path(DATA, 'img.png')", "pathlib.Path(DATA, 'file.html')",
           "urlparse('http://a.b/c')", "urlparse('')", "ipaddress.ip_address('127.0.0.1')", "ipaddress.ip_address('::1')", "uuid.UUID(int=0)", "uuid.UUID(int=12345)",
           "FQDA('a', 'b.c')", "wkt.loads('POINT (1 2)')", "(1, 2)", "()", "[1]", "[]", "{'a': 1}", "{}", "object()"]
_PYNS = None


def pyns():
    """namespace in which the source texts of PY_POOL (and `pylist:` replay recipes) are evaluated"""
    global _PYNS
    if _PYNS is None:
        import datetime
        import decimal
        import fractions
        import ipaddress
        import os
        import pathlib
        import uuid
        from urllib.parse import urlparse

        from shapely import wkt
        from visions.types.email_address import FQDA
        _PYNS = {"datetime": datetime, "decimal": decimal, "fractions": fractions, "ipaddress": ipaddress, "pathlib": pathlib, "uuid": uuid, "urlparse": urlparse,
                 "wkt": wkt, "FQDA": FQDA, "DATA": os.path.join(C.REPO, "src/visions/test/data")}
    return _PYNS


def abstract_pyval(v):
    """(kind index, truthy, nonneg, abs, exists, image) or None when the element is outside lib/PyValues.v"""
    import pathlib

    from visions.types.file import path_exists
    from visions.utils.images.image_utils import path_is_image

    from . import gen_python
    k = gen_python.kind_of(v)
    if k is None:
        return None
    try:
        truthy = bool(v)
    except Exception:  # noqa
        return None
    nonneg = bool(v >= 0) if k in ("PBool", "PInt") else False
    ab = bool(v.is_absolute()) if isinstance(v, pathlib.PurePath) else False
    ex = bool(path_exists(v)) if isinstance(v, pathlib.Path) else False
    im = bool(path_is_image(v)) if ex else False
    return [gen_python.KINDS.index(k), int(truthy), int(nonneg), int(ab), int(ex), int(im)]


def py_type_table():
    import visions

    from . import gen_shipped
    names = ["Generic"] + sorted(n for n in gen_shipped.shipped_types(C.REPO) if n != "Generic")
    return names, [getattr(visions.types, n) for n in names]


def py_vector(types, x):
    vec = []
    for t in types:
        try:
            vec.append(1 if x in t else 0)
        except Exception as e:  # noqa
            vec.append("raise:" + type(e).__name__)
    return vec


def check_pylist(texts, names, types, memo=None):
    """membership of a pure Python list in every shipped type under all row orders (n <= 4; reversal and rotation above) and 2x / 3x repetition"""
    def vec(ts):
        key = tuple(ts)
        if memo is not None and key in memo:
            return memo[key]
        v = py_vector(types, [eval(t, pyns()) for t in ts])  # noqa: S307 (texts are written by this harness only)
        if memo is not None:
            memo[key] = v
        return v
    n = len(texts)
    if n == 0:
        return []
    base = vec(texts)
    if 2 <= n <= 4:
        variants = [(f"rows permuted {list(p)}", [texts[i] for i in p]) for p in itertools.permutations(range(n)) if list(p) != list(range(n))]
    else:
        variants = [("rows reversed", texts[::-1]), ("rows rotated by one", texts[1:] + texts[:1])] if n > 1 else []
    variants += [("repeated twice", texts + texts), ("repeated three times", texts * 3)]
    for label, v in variants:
        a = vec(v)
        if a != base:
            diff = [nm for nm, u, w in zip(names, base, a) if u != w]
            return [{"what": f"pure Python list: {label}: membership in {diff} changes", "class": f"pylist:membership:{','.join(diff)}", "variant": label, "kind": "membership",
                     "types": diff, "backend": "pylist", "recipe": "pylist:[" + ", ".join(texts) + "]", "before": [nm for nm, u in zip(names, base) if u == 1],
                     "after": [nm for nm, u in zip(names, a) if u == 1]}]
    return []


def python_phase(run, info, rnd, deep):
    """(1) correspondence: generated Python-list membership predicates (extracted) vs `list in T` for all shipped types;
    (2) oracle on the implementation: the same pure lists under permutation / repetition.  Returns the oracle's failures."""
    with warnings.catch_warnings():
        warnings.simplefilter("ignore")
        names, types = py_type_table()
        pool = [eval(t, pyns()) for t in PY_POOL]  # noqa: S307
        absd = [abstract_pyval(v) for v in pool]
        idx = [i for i, a in enumerate(absd) if a is not None]
        cases = [[]] + [[i] for i in idx] + [[i, j] for i in idx for j in idx]
        for _ in range(6000 if deep else 1500):
            cases.append([rnd.choice(idx) for _ in range(rnd.randint(3, 7))])
        # a run of one value followed by one odd value (prefix peeks: first element, first five): reversal puts the odd value first
        bases = [i for i in idx if PY_POOL[i] in ("'a'", "1", "1.5", "True", "(1+2j)", "datetime.datetime(2020, 1, 1)", "datetime.date(2020, 1, 1)", "datetime.time(1, 2)",
                                                  "datetime.timedelta(days=1)", "pathlib.Path('/tmp')", "uuid.UUID(int=12345)", "urlparse('http://a.b/c')", "None")]
        cases = cases[:1 + len(idx)] + [[b] * k + [e] for b in bases for e in idx if e != b for k in (5, 6)] + cases[1 + len(idx):]
        memo, fails = {}, []
        for c in cases:
            if len(fails) < 5:
                fails += check_pylist([PY_POOL[i] for i in c], names, types, memo)
    run.cov["python_list_oracle_cases"] = len(cases)
    run.cov["evaluations"] = run.cov.get("evaluations", 0) + len(memo)
    if not (info["build_ok"] and info["gen"]["python"]["ok"]):
        return fails
    ok, out = C.build_driver("python")
    run.oblig("extract+link driver python (ExtrOcamlBasic)", "correspondence", ok, out[-400:])
    if not ok:
        return fails
    bad = [PY_POOL[i] for i, a in enumerate(absd) if a is None]
    run.oblig("every element of the Python pool is inside the universe of lib/PyValues.v", "correspondence", not bad, bad[:3])
    lines = [" ".join(str(n) for i in c for n in absd[i]) for c in cases]
    res = C.run_driver("python", lines)
    mism = []
    for c, line in zip(cases, res):
        m = [int(z) for z in line.split(",")]
        vec = memo[tuple(PY_POOL[i] for i in c)] if c else py_vector(types, [])
        if m != vec:
            mism.append({"list": "[" + ", ".join(PY_POOL[i] for i in c) + "]", "differences (type, model, implementation)": [(n, a, b) for n, a, b in zip(names, m, vec) if a != b]})
    run.oblig(f"correspondence: generated Python-list contains_ops (extracted) vs `list in T` for all {len(names)} shipped types on {len(lines)} lists "
              f"(all lists of length <= 2 over a pool of {len(idx)} elements of every value kind, random lists of length 3-7)", "correspondence", not mism, mism[:3])
    run.cov["python_list_model_cases"] = len(lines)
    run.cov["python_list_model_disagreements"] = len(mism)
    return fails


def replay(path):
    r = json.load(open(path))
    if "recipe" not in r:
        print("replay names a broken obligation, no input to re-run:", [o["name"] for o in r.get("broken_obligations", [])])
        return 1
    if r["recipe"].startswith("pylist:"):
        names, types = py_type_table()
        with warnings.catch_warnings():
            warnings.simplefilter("ignore")
            src = ast.parse(r["recipe"][7:], mode="eval").body
            f = check_pylist([ast.unparse(e) for e in src.elts], names, types)
    else:
        f = replay_entry({"replay": r})
    print("replay:", [x["what"] for x in f] if f else "property holds on this input")
    return 1 if f else 0


def replay_entry(e):
    r = e.get("replay", {})
    if "recipe" not in r:
        return [True]
    rnd = random.Random(0)
    ctx = make_ctx(rnd)
    s = streams.materialise({"recipe": r["recipe"]})
    with warnings.catch_warnings():
        warnings.simplefilter("ignore")
        fs = check_pandas(ctx, s, rnd) + check_seq(ctx, s, rnd, "numpy") + check_seq(ctx, s, rnd, "list")
    if e.get("classifier"):
        from . import known
        fs = [f for f in fs if getattr(known, e["classifier"])(dict(f, recipe=r["recipe"]))]
    return fs


def run(args):
    if args.replay:
        return replay(args.replay)
    run = C.Run(PROP, args.tier, args.seed)
    rnd = random.Random(args.seed)
    info = C.std_coq_phase(run, ["shipped", "pandas", "python"], TARGETS, PROP_FILE)
    py_fails = python_phase(run, info, rnd, args.tier == "thorough")
    deep = args.tier == "thorough" or bool(run.failed_obligations())
    items = (streams.bank_stream() + streams.special_stream() + streams.file_stream() + hetero_stream(rnd, 1500 if deep else 250)
             + streams.bx_stream(2, rnd, limit=6000 if deep else 900) + streams.family_stream(rnd, 3000 if deep else 400)
             + streams.mixed_stream(rnd, 1500 if deep else 200))
    ctx = make_ctx(rnd)
    new, seen_known, kn = oracle.run_oracle(run, PROP, items, oracle_fn, ctx)
    new += [f for f in py_fails if oracle.classify(PROP, f, kn) is None]
    nviol = oracle.report(run, PROP, new, seen_known, kn, replay_known=lambda e: bool(replay_entry(e)))
    if not nviol and run.failed_obligations():
        rep = {"broken_obligations": run.failed_obligations(),
               "searched": f"{run.cov.get('property_oracle_cases_on_impl')} sequences x (all row permutations for n <= 4, relabel, rename, 2- and 3-fold repetition) on pandas / numpy / list: no new failing input"}
        if info["gen"].get("pandas", {}).get("changed_vs_golden"):
            rep["model_diff_vs_golden"] = C.golden_diff("PandasContains_gen.v")
        run.violation(rep, no_input=True)
    run.cov["rule"] = ("repo bank, corner list, heterogeneous object columns (2-4 mixed kinds; six strings plus one odd value at positions 0/3/6), bounded-exhaustive dtype x kinds, family grid, mixed; "
                       "each compared with all its row permutations (n <= 4; samples above), string / repeated index labels, reset index, rename, 2x and 3x repetition; numpy arrays and lists permuted")
    run.cov["samples"] = [items[120]["recipe"], items[-1]["recipe"]]
    run.cov["trusted_base"] += [
        "translators vfw/gen_pandas.py + vfw/gen_shipped.py (regenerated this run); abstraction lib/Values.v (no index, no name: ignoring them is checked dynamically here)",
        "translator vfw/gen_python.py (backends/python/series_utils.py decorators + every Sequence contains_op, regenerated this run); abstraction lib/PyValues.v (kind, truthiness, >= 0, path flags); isinstance facts per kind measured; elements whose bool() raises (pd.NA) or of unlisted subclasses are outside the universe; extraction ExtrOcamlBasic + conv.ml + driver_python.ml",
        "theorem covers `seq in T` for the 18 prefix-free types (pandas) and all 24 types (Python lists); detect_type / infer_type invariance and the 6 prefix-testing types are decided on the implementation only (relations contain whole-column parsers such as pd.to_datetime)",
    ]
    return run.finish("proof")
