(* one abstract list per line (6 ints per element) -> membership vector *)
open Conv
let () =
  try while true do
    let line = input_line stdin in
    let r = python_contains_vector (List.map z_of_int (ints_of_line line)) in
    print_endline (str_ints (List.map int_of_z r))
  done with End_of_file -> ()
