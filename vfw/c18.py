"""C18 - sampled traversal is sound."""
import json
import random
import warnings

import numpy as np
import pandas as pd

from . import common as C
from . import oracle, streams

PROP = "C18"
PROP_FILE = "props/C18.v"
TARGETS = ["props/C18.vo"]


def same(a, b):
    try:
        if a.dtype != b.dtype or not a.index.equals(b.index):
            return False
        return bool(a.equals(b)) or all((x is y) or (x == y) or (x != x and y != y) for x, y in zip(list(a), list(b)))
    except Exception:  # noqa
        return False


def check_one(ts, tsname, s, k, seed):
    from visions.typesets.typeset import traverse_graph_with_sampled_series, traverse_graph_with_series
    fails = []

    def F(what, cls):
        fails.append({"what": what, "class": cls, "typeset": tsname, "sample_size": k, "np_seed": seed})
    np.random.seed(seed)
    try:
        out, path, st = traverse_graph_with_sampled_series(ts.root_node, s, ts.relation_graph, sample_size=k)
    except Exception:  # noqa  (totality: C09)
        return fails
    if not path or path[0] is not ts.root_node:
        F(f"path {path} does not start at the root", "root")
        return fails
    # every relation of the reported path must accept the full data as it is at that point,
    # and the returned data must be the result of exactly these transformers
    cur = s
    for a, b in zip(path, path[1:]):
        rel = ts.relation_graph[a][b]["relationship"]
        try:
            ok = rel.is_relation(cur, {})
        except Exception:  # noqa
            ok = False
        if not ok:
            F(f"reported path {path} contains {b} although relation {a}->{b} rejects the full data at that point", f"reports-failed-type:{b}")
            return fails
        cur = rel.transform(cur, {})
    if not same(cur, out):
        F(f"returned data (dtype {out.dtype}) is not the full data after the transformers of the reported path {path} (dtype {cur.dtype})", "data-not-through-path")
    try:
        if out not in path[-1]:
            # a transformer that does not land in its target type also breaks FULL traversal: that is
            # property C03's subject (recorded there); only sampling-specific failures are C18's
            o2, p2, _ = traverse_graph_with_series(ts.root_node, s, ts.relation_graph)
            if o2 in p2[-1]:
                F(f"returned data does not belong to the last type {path[-1]} of the reported path {path} (full traversal gives {p2}, which does contain its result)", f"not-in-last:{path[-1]}")
    except Exception:  # noqa
        pass
    if len(s) < 1000 or k > len(s):
        out2, path2, _ = traverse_graph_with_series(ts.root_node, s, ts.relation_graph)
        if path2 != path or not same(out2, out):
            F(f"{len(s)} rows, sample_size {k}: sampled traversal gives {path}, full traversal {path2}", "small-differs-from-full")
    return fails


def oracle_fn(ctx, item, s):
    fails = []
    if not isinstance(s, pd.Series):
        return fails
    ks = ctx["sample_sizes"] if len(s) >= 100 else ctx["sample_sizes"][:3]
    for name, ts in ctx["typesets"].items():
        for k in ks:
            for seed in ctx["seeds"]:
                fails += check_one(ts, name, s, k, seed)
                if len(s) < 1000:
                    break
    return fails


def mid_stream(rnd, n):
    """100..999 rows: the range a changed sampling threshold would affect"""
    out = []
    for it in streams.long_stream(rnd, n):
        size = rnd.choice([100, 250, 500, 600, 999])
        r = it["recipe"]
        out.append(dict(it, recipe=f"({r}).iloc[-{size}:].reset_index(drop=True)", len=size, pool=it["pool"] + "-mid"))
    return out


def block_stream(rnd, n):
    """>= 2000 rows whose value conventions change exactly at 1000-row boundaries: each block alone satisfies a relation
    that the whole column does not (the String -> Boolean maps, date formats, int-like vs float-like text)"""
    convs = [("['yes', 'no']", "['true', 'false']"), ("['y', 'n']", "['True', 'False']"), ("['TRUE', 'FALSE']", "['yes', 'no']"),
             ("['1', '2']", "['a', 'b']"), ("['1', '2']", "['1.5', '2.5']"), ("['2020-01-01', '2021-06-15']", "['x y', 'z']"),
             ("['1.0', '2.0']", "['yes', 'no']"), ("[1.0, 2.0]", "[1.5, 2.5]"), ("['http://a.b/c', 'http://d.e/f']", "['a', 'b']")]
    out = []
    for a, b in convs:
        for shape in ("{a} * 500 + {b} * 500", "{b} * 500 + {a} * 1000", "{a} * 1500 + {b} * 500", "{a} * 500 + [None] * 1000 + {b} * 500"):
            r = "pd.Series(" + shape.format(a=a, b=b) + ")"
            out.append({"recipe": r, "family": "block", "pool": a + "|" + b, "dtype": "None", "nulls": "none", "null": None, "len": 2000, "index": "None"})
    rnd.shuffle(out)
    return out[:n]


def dupindex_stream(rnd, n):
    """contaminated long series under a non-unique index: every label is shared by many rows, so a contaminant always
    shares its label with sampled rows"""
    out = []
    for it in streams.long_stream(rnd, n):
        if not it.get("contaminants"):
            continue
        m = rnd.choice([1, 7, 100])
        out.append(dict(it, recipe=f"(lambda s: s.set_axis(np.arange(len(s)) % {m}))({it['recipe']})", index=f"mod{m}", pool=it["pool"] + "-dupindex"))
    return out


def replay(path):
    r = json.load(open(path))
    if "recipe" not in r:
        print("replay names a broken obligation, no input to re-run:", [o["name"] for o in r.get("broken_obligations", [])])
        return 1
    s = streams.materialise({"recipe": r["recipe"]})
    ts = streams.shipped_typesets()[r.get("typeset", "StandardSet")]
    with warnings.catch_warnings():
        warnings.simplefilter("ignore")
        f = check_one(ts, r.get("typeset", "StandardSet"), s, r.get("sample_size", 10), r.get("np_seed", 0))
    print("replay:", [x["what"] for x in f] if f else "property holds on this input")
    return 1 if f else 0


def run(args):
    if args.replay:
        return replay(args.replay)
    run = C.Run(PROP, args.tier, args.seed)
    rnd = random.Random(args.seed)
    info = C.std_coq_phase(run, ["engine"], TARGETS, PROP_FILE)
    broken = bool(run.failed_obligations())
    deep = args.tier == "thorough" or broken
    items = (block_stream(rnd, 36 if deep else 8) + dupindex_stream(rnd, 60 if deep else 12) + streams.long_stream(rnd, 400 if deep else 40) + mid_stream(rnd, 200 if deep else 25)
             + streams.special_stream() + streams.family_stream(rnd, 1500 if deep else 200) + streams.bank_stream())
    tss = streams.shipped_typesets()
    ctx = {"typesets": {"StandardSet": tss["StandardSet"], "CompleteSet": tss["CompleteSet"]} if deep else {"StandardSet": tss["StandardSet"]},
           "sample_sizes": [1, 3, 5, 10, 50, 1000, 2000], "seeds": [0, 1, 2, 3, 4] if deep else [0, 1]}
    new, seen_known, kn = oracle.run_oracle(run, PROP, items, oracle_fn, ctx)
    nviol = oracle.report(run, PROP, new, seen_known, kn)
    if not nviol and run.failed_obligations():
        rep = {"broken_obligations": run.failed_obligations(),
               "searched": f"{run.cov.get('property_oracle_cases_on_impl')} series x sample sizes {ctx['sample_sizes']} x numpy seeds {ctx['seeds']} on the implementation: no failing input"}
        if info["gen"].get("engine", {}).get("changed_vs_golden"):
            rep["model_diff_vs_golden"] = C.golden_diff("Engine_gen.v")
        run.violation(rep, no_input=True)
    run.cov["rule"] = (">= 1000-row series (majority family + 0..3 contaminants at start/end, or mostly missing), 100..999-row series, corner list, family grid, repo bank; "
                       "x sample sizes 1,3,5,10,50,1000,2000 x seeded numpy draws; distinct_nontrivial = distinct (family, pool, dtype, null placement) cells")
    run.cov["samples"] = [items[0]["recipe"], items[45 if not deep else 450]["recipe"]]
    run.cov["trusted_base"] += [
        "translator vfw/py2coq.py + vfw/gen_engine.py (traverse_graph_with_sampled_series regenerated this run)",
        "series.sample / series.shape[0] are arbitrary functions of the model context (every draw is covered by the theorem); the relation graph is arbitrary",
        "C18_result_in_last_type assumes every transformer lands in its target type (that is property C03, checked separately) - this check's oracle tests membership directly",
    ]
    return run.finish("proof")
