"""C17 - Spark columns are typed from their schema alone."""
import json
import os
import random
import re
import warnings

from . import common as C
from . import oracle

PROP = "C17"
PROP_FILE = "props/C17.v"
TARGETS = ["props/C17.vo"]

_SPARK = {}


def spark():
    if "s" not in _SPARK:
        from pyspark.sql import SparkSession
        os.environ.setdefault("SPARK_LOCAL_IP", "127.0.0.1")
        _SPARK["s"] = (SparkSession.builder.master("local[1]").appName("visions-verif-c17")
                       .config("spark.ui.enabled", "false").config("spark.log.level", "OFF").config("spark.sql.shuffle.partitions", "1")
                       .config("spark.driver.host", "127.0.0.1").getOrCreate())
        _SPARK["s"].sparkContext.setLogLevel("OFF")
        import logging
        for name in ("DataFrameQueryContextLogger", "py4j", "pyspark"):
            lg = logging.getLogger(name)
            lg.disabled = True
            lg.propagate = False
    return _SPARK["s"]


# (coq term, python expression, example value or None, documented visions type name)
def spark_types():
    import pyspark.sql.types as T
    import datetime
    import decimal
    atoms = [
        ("SByte", T.ByteType(), 1, "Integer"), ("SShort", T.ShortType(), 2, "Integer"), ("SInteger", T.IntegerType(), 3, "Integer"),
        ("SLong", T.LongType(), 4, "Integer"), ("SFloat", T.FloatType(), 1.5, "Float"), ("SDouble", T.DoubleType(), 2.5, "Float"),
        ("(SDecimal 10 2)", T.DecimalType(10, 2), decimal.Decimal("1.25"), "Float"), ("(SDecimal 38 18)", T.DecimalType(38, 18), decimal.Decimal("2"), "Float"),
        ("(SDecimal 5 0)", T.DecimalType(5, 0), decimal.Decimal("7"), "Float"),
        ("SBoolean", T.BooleanType(), True, "Boolean"), ("SString", T.StringType(), "a", "String"),
        ("SBinary", T.BinaryType(), bytearray(b"x"), "Generic"), ("SDate", T.DateType(), datetime.date(2020, 1, 1), "Date"),
        ("STimestamp", T.TimestampType(), datetime.datetime(2020, 1, 1, 1, 2), "DateTime"),
        ("STimestampNTZ", T.TimestampNTZType(), datetime.datetime(2020, 1, 1, 1, 2), "Generic"),
        ("SNull", T.NullType(), None, "Generic"), ("SDayTimeInterval", T.DayTimeIntervalType(), datetime.timedelta(days=1), "Generic"),
        ("(SChar 3)", T.CharType(3), "abc", "Generic"), ("(SVarchar 3)", T.VarcharType(3), "ab", "Generic"),
    ]
    nested = [
        ("(SArray SInteger true)", T.ArrayType(T.IntegerType()), [1, 2], "Object"),
        ("(SArray (SArray SString true) false)", T.ArrayType(T.ArrayType(T.StringType()), False), [["a"]], "Object"),
        ("(SMap SString SInteger true)", T.MapType(T.StringType(), T.IntegerType()), {"a": 1}, "Object"),
        ("(SMap SString (SStruct [SInteger; SDouble]) true)", T.MapType(T.StringType(), T.StructType([T.StructField("p", T.IntegerType()), T.StructField("q", T.DoubleType())])), {"a": (1, 2.0)}, "Object"),
        ("(SStruct [SInteger])", T.StructType([T.StructField("p", T.IntegerType())]), (1,), "Object"),
        ("(SStruct [SString; SArray SDate true])", T.StructType([T.StructField("p", T.StringType()), T.StructField("q", T.ArrayType(T.DateType()))]), ("x", []), "Object"),
        ("(SStruct [])", T.StructType([]), (), "Object"),
    ]
    return atoms + nested


PARENT = {"Integer": "Generic", "Float": "Generic", "Boolean": "Generic", "String": "Object", "Object": "Generic", "Date": "Object",
          "DateTime": "Generic", "Generic": None}


def documented(doc, names):
    t = doc
    while t not in names:
        t = PARENT[t]
    return t


def typesets():
    import visions
    from visions.typesets import CompleteSet, StandardSet, VisionsTypeset
    V = visions.types
    with warnings.catch_warnings():
        warnings.simplefilter("ignore")
        return {
            "standard_set": StandardSet(),
            "(standard_set ++ [tDate])": StandardSet() + V.Date,
            "complete_set": CompleteSet(),
            "[tGeneric; tObject; tString; tInteger]": VisionsTypeset({V.Generic, V.Object, V.String, V.Integer}),
            "[tGeneric; tObject; tInteger; tFloat; tBoolean]": VisionsTypeset({V.Generic, V.Object, V.Integer, V.Float, V.Boolean}),
        }


def make_df(fields, rows_mode):
    """fields: list of (name, spark type, example, nullable)"""
    import pyspark.sql.types as T
    sp = spark()
    schema = T.StructType([T.StructField(n, t, nullable) for n, t, ex, nullable in fields])
    if rows_mode == "empty":
        rows = []
    elif rows_mode == "nulls":
        rows = [tuple(None if nullable else ex for n, t, ex, nullable in fields)] * 2
    else:
        rows = [tuple(ex for n, t, ex, nullable in fields)] * 2
    if any(isinstance(t, T.NullType) for _, t, _, _ in fields) and rows_mode != "empty":
        rows = [tuple(None if isinstance(t, T.NullType) else r for r, (_, t, _, _) in zip(row, fields)) for row in rows]
    return sp.createDataFrame(rows, schema)


def jobs():
    tr = spark().sparkContext.statusTracker()
    return len(tr.getJobIdsForGroup())


def check_frame(ts, tsname, names, fields, rows_mode, docs):
    fails = []
    desc = {"typeset": tsname, "columns": [(n, str(t), nullable) for n, t, _, nullable in fields], "rows": rows_mode}
    try:
        df = make_df(fields, rows_mode)
    except Exception as e:  # noqa  (Spark refuses the frame: not an input)
        return []
    j0 = jobs()
    try:
        res = ts.detect_type(df)
        out = ts.detect(df)
    except Exception as e:  # noqa
        return [dict(desc, what=f"detect on a Spark DataFrame raised {type(e).__name__}: {str(e)[:100]}", **{"class": f"raises:{type(e).__name__}"})]
    j1 = jobs()
    if out[0] is not df:
        fails.append(dict(desc, what="detect(df)[0] is not the DataFrame that was passed", **{"class": "not-same-frame"}))
    if j1 != j0:
        fails.append(dict(desc, what=f"detect_type/detect triggered {j1 - j0} Spark job(s)", **{"class": "spark-job"}))
    if list(res.keys()) != [f[0] for f in fields]:
        fails.append(dict(desc, what=f"result keys {list(res.keys())} are not the columns in order", **{"class": "keys"}))
    for (n, t, ex, nullable), doc in zip(fields, docs):
        want = documented(doc, names)
        got = res.get(n)
        if got is None or got.__name__ != want:
            fails.append(dict(desc, what=f"column {n!r} of Spark type {t.simpleString()} (nullable={nullable}, rows={rows_mode}) typed {got}, documented map gives {want}",
                              **{"class": f"map:{t.typeName()}"}))
    return fails


IMPORT_ORDER_SUB = r"""
import json, os, sys, warnings
warnings.simplefilter("ignore")
os.environ.setdefault("SPARK_LOCAL_IP", "127.0.0.1")
import visions                                   # first: pyspark is not imported yet
from visions.typesets import StandardSet
assert "pyspark" not in sys.modules or os.environ.get("C17_ALLOW_EAGER") == "1"
from pyspark.sql import SparkSession             # the user's own, later, import
import pyspark.sql.types as T
s = (SparkSession.builder.master("local[1]").appName("visions-verif-c17-sub").config("spark.ui.enabled", "false")
     .config("spark.log.level", "OFF").config("spark.driver.host", "127.0.0.1").getOrCreate())
s.sparkContext.setLogLevel("OFF")
df = s.createDataFrame([(1, "a", 1.5)], T.StructType([T.StructField("i", T.IntegerType()), T.StructField("s", T.StringType()), T.StructField("f", T.DoubleType())]))
ts = StandardSet()
dt = ts.detect_type(df)
print("RESULT " + json.dumps({"detect": {k: v.__name__ for k, v in dt.items()} if isinstance(dt, dict) else str(dt)}))
s.stop()
"""


def import_order_probe():
    import subprocess
    import sys
    env = dict(os.environ, PYTHONPATH=os.path.join(C.REPO, "src"), PYTHONHASHSEED="0", C17_ALLOW_EAGER="1")
    try:
        p = subprocess.run([sys.executable, "-W", "ignore", "-c", IMPORT_ORDER_SUB], env=env, capture_output=True, text=True, timeout=300)
    except subprocess.TimeoutExpired:
        return []
    line = next((ln for ln in p.stdout.split("\n") if ln.startswith("RESULT ")), None)
    if line is None:
        return [{"what": f"a fresh process importing visions before pyspark failed to type a Spark DataFrame: {p.stderr[-200:]}", "class": "import-order:raises", "history": "import visions; import pyspark"}]
    got = json.loads(line[7:])
    want = {"i": "Integer", "s": "String", "f": "Float"}
    if got["detect"] != want:
        return [{"what": f"in a fresh process that imports visions before pyspark, detect_type of a Spark DataFrame (int, string, double) give {got}, the documented map gives {want}",
                 "class": "import-order", "history": "import visions; import pyspark"}]
    return []


def replay(path):
    r = json.load(open(path))
    if "columns" not in r:
        print("replay names a broken obligation, no input to re-run:", [o["name"] for o in r.get("broken_obligations", [])])
        return 1
    import pyspark.sql.types as T
    tss = typesets()
    ts = tss[r["typeset"]]
    names = {t.__name__ for t in ts.types}
    byname = {str(t): (c, t, ex, d) for c, t, ex, d in spark_types()}
    fields, docs = [], []
    for n, tstr, nullable in r["columns"]:
        c, t, ex, d = byname[tstr]
        fields.append((n, t, ex, nullable))
        docs.append(d)
    f = check_frame(ts, r["typeset"], names, fields, r["rows"], docs)
    print("replay:", [x["what"] for x in f] if f else "property holds on this input")
    return 1 if f else 0


def run(args):
    if args.replay:
        return replay(args.replay)
    from . import known
    run = C.Run(PROP, args.tier, args.seed)
    rnd = random.Random(args.seed)
    info = C.std_coq_phase(run, ["engine", "shipped", "spark"], TARGETS, PROP_FILE)
    sts = spark_types()
    tss = typesets()
    kn = oracle.load_known(PROP)
    new, known_hits, n = [], {}, 0
    distinct = set()
    impl_answers = {}
    names_pool = ["c", "Col Name", "0", "ünï", "select", "a b"]
    deep = args.tier == "thorough" or bool(run.failed_obligations())
    for tsname, ts in tss.items():
        names = {t.__name__ for t in ts.types}
        for coqt, t, ex, doc in sts:
            for nullable in (True, False):
                for rows_mode in (("empty", "nulls", "data") if deep else (("data",) if nullable else ("empty",))):
                    n += 1
                    distinct.add((tsname, coqt, nullable, rows_mode))
                    fs = check_frame(ts, tsname, names, [(rnd.choice(names_pool), t, ex, nullable)], rows_mode, [doc])
                    new += fs
            # the answer of the implementation for the correspondence with the model
            try:
                df = make_df([("c", t, ex, True)], "empty")
            except Exception:  # noqa  (Spark refuses this type in a frame: not an input)
                continue
            try:
                impl_answers[(tsname, coqt)] = ts.detect_type(df)["c"].__name__
            except Exception as e:  # noqa
                impl_answers[(tsname, coqt)] = "raise:" + type(e).__name__
        # position: multi-column frames
        for _ in range(6 if not deep else 40):
            k = rnd.randint(2, 5)
            pick = [rnd.choice(sts) for _ in range(k)]
            fields = [(f"c{i}", t, ex, rnd.random() < 0.5) for i, (c, t, ex, d) in enumerate(pick)]
            n += 1
            new += check_frame(ts, tsname, names, fields, rnd.choice(["empty", "data"]), [p[3] for p in pick])
    # a fresh process in which visions is imported BEFORE pyspark (lazy pyspark import in user code): same answers
    for f in import_order_probe():
        new.append(f)
        n += 1
    # known finding probe: dotted column name
    import pyspark.sql.types as T
    dotted = check_frame(tss["standard_set"], "standard_set", {t.__name__ for t in tss["standard_set"].types}, [("x.y", T.IntegerType(), 1, True)], "data", ["Integer"])
    run.cov["evaluations"] = n
    run.cov["distinct_nontrivial"] = len(distinct)
    run.cov["property_oracle_cases_on_impl"] = n
    # ---- correspondence: generated model (vm_compute) vs implementation answers
    if info["build_ok"]:
        cdir = os.path.join(C.COQ, "cases")
        os.makedirs(cdir, exist_ok=True)
        keys = sorted(impl_answers)
        body = "; ".join(f"detect_type_col {k[0]} [mkField 1 {k[1]} true]" for k in keys)
        src = ("From Coq Require Import List ZArith.\nImport ListNotations.\nFrom V Require Import PyBase Shipped_gen Spark_gen C17.\n"
               f"Eval vm_compute in [{body}].\n")
        p = os.path.join(cdir, "c17_cases.v")
        open(p, "w").write(src)
        qf = []
        for d in C.QDIRS:
            qf += ["-Q", os.path.join(C.COQ, d), "V"]
        with C.Lock():
            rc, out, _ = C.sh(["coqc"] + qf + [p], cwd=cdir, timeout=600)
        model = re.findall(r"(Ok t\w+|Raise \w+)", out) if rc == 0 else []
        mism = []
        if len(model) == len(keys):
            for k, m in zip(keys, model):
                mm = m[4:] if m.startswith("Ok t") else "raise:" + m[6:]
                if mm != impl_answers[k]:
                    mism.append(dict(typeset=k[0], spark_type=k[1], model=mm, impl=impl_answers[k]))
        run.oblig(f"correspondence: generated Spark contains_ops + engine (vm_compute) vs real visions on a local Spark session, {len(keys)} (typeset, Spark type) pairs",
                  "correspondence", rc == 0 and len(model) == len(keys) and not mism, (out[-400:] if rc else mism[:3]))
        run.cov["traces_validated_against_impl"] = len(keys)
        run.cov["disagreements_checked"] = len(mism)
    # ---- report
    for e in kn:
        if e["classifier"] == "F17b" and dotted:
            run.known(f"{e['id']}: {e['what']}")
    new = [f for f in new if not any(getattr(known, e["classifier"])(f) for e in kn)]
    seen = set()
    for f in new:
        if f["class"] in seen or len(seen) >= 3:
            continue
        seen.add(f["class"])
        run.violation(dict(f, broken_obligations=run.failed_obligations()))
    if not new and run.failed_obligations():
        rep = {"broken_obligations": run.failed_obligations(), "searched": f"{n} Spark frames on the implementation against the documented map: no failing input"}
        for m, fn in (("spark", "Spark_gen.v"), ("engine", "Engine_gen.v")):
            if info["gen"].get(m, {}).get("changed_vs_golden"):
                rep["model_diff_vs_golden:" + fn] = C.golden_diff(fn)
        run.violation(rep, no_input=True)
    run.cov["rule"] = ("every Spark SQL type constructor of the model (atomic types, decimals of 3 precisions, char/varchar, nested array/map/struct) x nullable x rows (empty / nulls / data in thorough) "
                       "x 5 typesets, plus multi-column frames for position, odd column names; Spark status-tracker job count before/after; distinct = (typeset, type, nullable, rows)")
    run.cov["samples"] = [dict(typeset=k[0], spark_type=k[1], impl=v) for k, v in list(impl_answers.items())[:3]]
    run.cov["trusted_base"] += [
        "translators vfw/gen_spark.py (Spark contains_ops, registration list), vfw/gen_engine.py, vfw/gen_shipped.py - regenerated this run",
        "pyspark DataType class hierarchy: MEASURED from the installed pyspark into gen/Spark_gen.v (spark_isinstance), not verified",
        "props/C17.v spark_relations: hand model of VisionsBaseTypeMeta.relations + multimethod dispatch for Spark DataFrames (identity guard = registered contains_op or the base `pass`), validated by this correspondence",
        "partial: 'no Spark job' cannot be exhibited by the model (a frame is its schema there); it is checked dynamically through the Spark status tracker",
    ]
    return run.finish("proof")
