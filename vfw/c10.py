"""C10 - purity: results depend only on (typeset, data); no global side effects."""
import json
import os
import random
import subprocess
import sys
import warnings

from . import common as C
from . import gen_effects, oracle, streams

PROP = "C10"
PROP_FILE = "props/C10.v"
TARGETS = ["props/C10.vo"]

PROBES = ["pd.Series([1, 2, 3])", "pd.Series(['1.0', '2.0'])", "pd.Series(['a', 'b', None])", "pd.Series([True, False], dtype=object)",
          "pd.Series(['2020-01-01', '2021-03-04'])", "pd.Series(['POINT (1 2)', 'POINT (3 4)'])", "pd.Series(['http://a.b/c'])",
          "pd.Series([1.0, 2.0, nan])", "pd.Series([(1+0j), (2+0j)])", "pd.Series(['x', 'y'], dtype='category')", "pd.Series([], dtype=object)",
          "pd.Series(['TRUE', 'false'])", "pd.Series([datetime.date(2020, 1, 1)])", "pd.Series(['127.0.0.1', '::1'])", "pd.Series(['not wkt ('])"]


def global_snapshot():
    import numpy as np
    import pandas as pd
    import visions
    regs = {}

    def impls(mm):
        try:
            return sorted({getattr(f, "__qualname__", repr(f)) + "@" + str(getattr(getattr(f, "__code__", None), "co_firstlineno", "")) for f in mm.values()})
        except Exception:  # noqa
            return repr(type(mm))
    for n in streams.TYPE_NAMES + ["Numeric", "Sparse"]:
        t = getattr(visions.types, n)
        try:
            regs[n] = (impls(t.contains_op), tuple((str(r.related_type), r.inferential, impls(r.relationship), impls(r.transformer)) for r in t.relations))
        except Exception:  # noqa
            regs[n] = None
    from visions.relations import relations as R
    from visions.backends.pandas import test_utils as TU
    defaults = {
        "identity_transform.state": dict(R.identity_transform.__defaults__[0]),
        "default_relation.state": dict(R.default_relation.__defaults__[0]),
    }
    return {"stderr": id(sys.stderr), "stdout": id(sys.stdout), "filters": list(map(repr, warnings.filters)), "np_err": dict(np.geterr()),
            "pd_opts": (pd.get_option("mode.copy_on_write") if False else None, pd.get_option("display.max_rows"), pd.get_option("future.infer_string") if hasattr(pd.options, "future") else None),
            "cwd": os.getcwd(), "registrations": regs, "mutable_defaults": defaults}


def ts_snapshot(ts):
    return (sorted(t.__name__ for t in ts.types),
            sorted((u.__name__, v.__name__, d.get("style")) for u, v, d in ts.relation_graph.edges(data=True)),
            sorted((u.__name__, v.__name__) for u, v in ts.base_graph.edges()))


def probe(ts):
    out = []
    for r in PROBES:
        try:
            with warnings.catch_warnings():
                warnings.simplefilter("ignore")
                s = streams.build(r)
                out.append((ts.detect_type(s).__name__, ts.infer_type(s).__name__, [repr(v) for v in ts.cast_to_inferred(s)][:4]))
        except Exception as e:  # noqa
            out.append("raise:" + type(e).__name__)
    # frames with several string labels: key order of the answers and column order of the casts are part of the result
    for r in FRAME_PROBES:
        try:
            with warnings.catch_warnings():
                warnings.simplefilter("ignore")
                df = streams.build(r)
                it, dt = ts.infer_type(df), ts.detect_type(df)
                out.append(([(str(k), v.__name__) for k, v in it.items()], [str(k) for k in dt], [str(c) for c in ts.cast_to_inferred(df).columns],
                            [str(c) for c in ts.cast_to_detected(df).columns], [str(k) for k in ts.infer(df)[1]]))
        except Exception as e:  # noqa
            out.append("raise:" + type(e).__name__)
    return out


FRAME_PROBES = ["pd.DataFrame({'zeta': ['1', '2'], 'alpha': [1.5, 2.5], 'mid': ['x', 'y'], 'beta': [True, False], 'omega': ['2020-01-01', '2021-01-01'], 'b2': [1, 2]})",
                "pd.DataFrame({'col_%d' % i: [str(i), str(i + 1)] for i in range(12)})",
                "pd.DataFrame({'a': [1], 'B': ['x'], 'c c': [2.5], '': [None], '0': ['0']})"]


def random_history(rnd, ts_pool, n):
    """a list of (description, thunk) API calls"""
    import pandas as pd
    import visions
    from visions import create_type
    from visions.typesets import CompleteSet, StandardSet, VisionsTypeset
    V = visions.types
    names = streams.TYPE_NAMES
    ops = []
    items = streams.special_stream() + streams.family_stream(rnd, 60) + streams.mixed_stream(rnd, 20)
    for k in range(n):
        c = rnd.randrange(9)
        if c == 0:
            ops.append(("construct CompleteSet", lambda: ts_pool.append(CompleteSet())))
        elif c == 1:
            S = streams.random_closed_subset(rnd)
            ops.append((f"construct typeset {S}", lambda S=S: ts_pool.append(streams.typeset_from_names(S))))
        elif c == 2:
            t = getattr(V, rnd.choice(names))
            ops.append((f"typeset + {t}", lambda t=t: ts_pool.append(rnd.choice(ts_pool) + t)))
        elif c == 3:
            t = getattr(V, rnd.choice(names))
            ops.append((f"typeset - {t}", lambda t=t: ts_pool.append(rnd.choice(ts_pool) - t)))
        elif c == 4:
            ops.append(("typeset + typeset", lambda: ts_pool.append(rnd.choice(ts_pool) + rnd.choice(ts_pool))))
        elif c == 5:
            nm = f"T{k}"
            ops.append((f"create_type {nm}", lambda nm=nm: create_type(nm, contains=lambda s, st: True, identity=V.Generic)))
        elif c in (6, 7):
            it = rnd.choice(items)
            meth = rnd.choice(["detect_type", "infer_type", "cast_to_inferred", "cast_to_detected", "in"])

            def call(it=it, meth=meth):
                s = streams.materialise(it)
                ts = rnd.choice(ts_pool)
                if meth == "in":
                    return [s in t for t in ts.types]
                return getattr(ts, meth)(s)
            ops.append((f"{meth} on {it['recipe'][:60]}", call))
        else:
            it = rnd.choice(items)

            def callf(it=it):
                s = streams.materialise(it)
                df = pd.DataFrame({"a": s.reset_index(drop=True), "b": s.reset_index(drop=True)})
                return rnd.choice(ts_pool).infer_type(df)
            ops.append((f"infer_type on a frame of {it['recipe'][:50]}", callf))
    return ops


def history_check(rnd, n_hist, hist_len):
    """probe before / after random histories; global snapshot around every call (under a redirected stderr)"""
    import io
    fails = []
    from visions.typesets import CompleteSet
    for h in range(n_hist):
        with warnings.catch_warnings():
            warnings.simplefilter("ignore")
            ts = CompleteSet()
            before = probe(ts)
        redirected = io.StringIO()
        old = sys.stderr
        sys.stderr = redirected          # a caller that captures stderr, as test runners and notebooks do
        try:
            g0 = global_snapshot()
            pool = [ts]
            pool_snaps = {0: ts_snapshot(ts)}
            for desc, thunk in random_history(rnd, pool, hist_len):
                # a caller running with (some) warnings promoted to errors (-W error::FutureWarning ...): calls may raise
                strict = rnd.choice([None, None, None, FutureWarning, DeprecationWarning, UserWarning, Warning])
                try:
                    with warnings.catch_warnings():
                        warnings.simplefilter("ignore")
                        if strict is not None:
                            warnings.filterwarnings("error", category=strict)
                        thunk()
                except (Exception, Warning):  # noqa  (C09 / C13; or the promoted warning)
                    pass
                if strict is not None:
                    desc += f" [-W error::{strict.__name__}]"
                # every typeset in the pool keeps the types and graphs it was built with (operands are values)
                for i, t_ in enumerate(pool):
                    sn = ts_snapshot(t_)
                    if i not in pool_snaps:
                        pool_snaps[i] = sn
                    elif pool_snaps[i] != sn:
                        part = [k for k in range(3) if pool_snaps[i][k] != sn[k]]
                        fails.append({"what": f"typeset #{i} of the history was changed by `{desc}` (which did not construct it): " +
                                              "; ".join(f"{('types', 'relation graph', 'base graph')[k]}: added {[x for x in sn[k] if x not in pool_snaps[i][k]][:6]}, removed {[x for x in pool_snaps[i][k] if x not in sn[k]][:6]}" for k in part),
                                      "class": "typeset-mutated", "call": desc, "history": h})
                        pool_snaps[i] = sn
                g1 = global_snapshot()
                if g1 != g0:
                    diff = [k for k in g0 if g0[k] != g1[k]]
                    fails.append({"what": f"process-global state changed by `{desc}`: {diff}", "class": "global:" + ",".join(diff), "call": desc, "history": h})
                    g0 = g1
        finally:
            sys.stderr = old
        with warnings.catch_warnings():
            warnings.simplefilter("ignore")
            after = probe(ts)
            fresh = probe(CompleteSet())
        # two series with the same name, dtype and values but another index, one after the other on the same typeset:
        # each result carries ITS input's index and is a distinct object
        with warnings.catch_warnings():
            warnings.simplefilter("ignore")
            for r in PROBES:
                try:
                    s1 = streams.build(r)
                    if not len(s1):
                        continue
                    s2 = s1.copy()
                    s2.index = [f"r{i}" for i in range(len(s2))]
                    c1, c2 = ts.cast_to_inferred(s1), ts.cast_to_inferred(s2)
                    d1, d2 = ts.infer(s1)[0], ts.infer(s2)[0]
                except Exception:  # noqa
                    continue
                if list(c2.index) != list(s2.index) or list(d2.index) != list(s2.index) or list(c1.index) != list(s1.index) or (c2 is c1):
                    fails.append({"what": f"probe {r}: after the same call on a series with the same values and index {list(s1.index)[:3]}, cast_to_inferred / infer of the series with index "
                                          f"{list(s2.index)[:3]} returned index {list(c2.index)[:3]} / {list(d2.index)[:3]} (the earlier call's result)",
                                  "class": "history-dependent:index", "history": h, "recipe": r})
                    break
        if after != before:
            k = next(i for i, (a, b) in enumerate(zip(before, after)) if a != b)
            fails.append({"what": f"probe {(PROBES + FRAME_PROBES)[k]} answered {before[k]} before and {after[k]} after a history of API calls on the same typeset object",
                          "class": "history-dependent", "history": h, "recipe": (PROBES + FRAME_PROBES)[k]})
        if fresh != before:
            k = next(i for i, (a, b) in enumerate(zip(before, fresh)) if a != b)
            fails.append({"what": f"probe {(PROBES + FRAME_PROBES)[k]} answered {before[k]} on the first CompleteSet() and {fresh[k]} on one created after a history of API calls",
                          "class": "history-dependent-fresh", "history": h, "recipe": (PROBES + FRAME_PROBES)[k]})
    return fails


SUB = r'''
import json, sys, warnings
warnings.simplefilter("ignore")
sys.path.insert(0, '__VERIF__')
from vfw import c10
from visions.typesets import CompleteSet
print(json.dumps(c10.probe(CompleteSet())))
'''


def subprocess_probe(seeds):
    outs = {}
    for sd in seeds:
        env = dict(os.environ, PYTHONHASHSEED=str(sd), PYTHONPATH=C.VERIF + ":" + os.path.join(C.REPO, "src"))
        p = subprocess.run([sys.executable, "-W", "ignore", "-c", SUB.replace("__VERIF__", C.VERIF)], env=env, capture_output=True, text=True, timeout=600)
        outs[sd] = p.stdout.strip().split("\n")[-1] if p.returncode == 0 else "crash:" + p.stderr[-200:]
    return outs


def subclass_relations_probe():
    """F10b: a subclass of an already-used type must see its own relations"""
    import visions
    from visions.relations import IdentityRelation
    V = visions.types
    _ = V.Integer.relations            # an earlier call that touched the parent
    class MyInt(V.Integer):            # noqa
        @staticmethod
        def get_relations():
            return [IdentityRelation(V.Float)]
    try:
        rel = [r.related_type.__name__ for r in MyInt.relations]
    except Exception as e:  # noqa
        return f"raise {type(e).__name__}"
    return None if rel == ["Float"] else f"subclass of Integer with get_relations -> [IdentityRelation(Float)] reports relations to {rel} (its parent's, cached through the MRO)"


def replay(path):
    r = json.load(open(path))
    if "call" not in r and "recipe" not in r:
        print("replay names a broken obligation, no input to re-run:", [o["name"] for o in r.get("broken_obligations", [])])
        return 1
    f = history_check(random.Random(r.get("seed", 0)), 3, 40)
    print("replay:", [x["what"] for x in f][:3] if f else "property holds on re-run histories")
    return 1 if f else 0


def run(args):
    if args.replay:
        return replay(args.replay)
    run = C.Run(PROP, args.tier, args.seed)
    rnd = random.Random(args.seed)
    info = C.std_coq_phase(run, ["effects", "engine"], TARGETS, PROP_FILE)
    deep = args.tier == "thorough" or bool(run.failed_obligations())
    kn = oracle.load_known(PROP)
    fails = history_check(rnd, 60 if deep else 8, 60 if deep else 25)
    outs = subprocess_probe(list(range(1, 17)) if deep else [1, 2, 3, 4])
    vals = list(outs.values())
    if len(set(vals)) > 1:
        a, b = [k for k in outs if outs[k] == vals[0]][0], [k for k in outs if outs[k] != vals[0]][0]
        pa, pb = json.loads(outs[a]) if not outs[a].startswith("crash") else outs[a], json.loads(outs[b]) if not outs[b].startswith("crash") else outs[b]
        k = next((i for i, (x, y) in enumerate(zip(pa, pb)) if x != y), 0) if isinstance(pa, list) and isinstance(pb, list) else 0
        fails.append({"what": f"probe {(PROBES + FRAME_PROBES)[k]} differs between fresh processes with PYTHONHASHSEED={a} and {b}: {str(pa[k])[:80]} vs {str(pb[k])[:80]}",
                      "class": "hashseed-dependent", "recipe": (PROBES + FRAME_PROBES)[k], "seeds": [a, b]})
    run.cov["evaluations"] = (60 if deep else 8) * (60 if deep else 25) + len(outs)
    run.cov["distinct_nontrivial"] = (60 if deep else 8)
    run.cov["property_oracle_cases_on_impl"] = run.cov["evaluations"]
    new, known_hits = [], {}
    for f in fails:
        e = oracle.classify(PROP, f, kn)
        if e is None:
            new.append(f)
        else:
            known_hits.setdefault(e["id"], []).append(f)
    run.cov["known_finding_hits"] = {k: len(v) for k, v in known_hits.items()}
    # inventory from the translator
    try:
        _, inv = gen_effects.generate(C.REPO)
        run.cov["effect_inventory"] = {"functions_writing_global_cells": [f"{r}:{f}" for r, f, _ in inv["programs"]], "mutable_default_arguments": inv["mutable_defaults"]}
    except Exception as e:  # noqa
        run.cov["effect_inventory"] = {"error": str(e)}
    sub = subclass_relations_probe()
    if sub and not any(e["id"] == "F10b" for e in kn):
        new.append({"what": sub, "class": "subclass-relations", "call": "class MyInt(visions.Integer) after Integer.relations was evaluated"})
    for e in kn:
        if e["id"] != "F10b" or sub:
            run.known(f"{e['id']}: {e['what']}")
    seen = set()
    for f in new:
        if f["class"] in seen or len(seen) >= 3:
            continue
        seen.add(f["class"])
        run.violation(dict(f, broken_obligations=run.failed_obligations()))
    if not new and run.failed_obligations():
        rep = {"broken_obligations": run.failed_obligations(), "searched": "random API histories with global-state snapshots under a redirected stderr, probes before/after, fresh processes with different PYTHONHASHSEED: no failing history"}
        if info["gen"].get("effects", {}).get("changed_vs_golden"):
            rep["model_diff_vs_golden"] = C.golden_diff("Effects_gen.v")
        run.violation(rep, no_input=True)
    run.cov["rule"] = ("random histories of API calls (construct typesets, + and -, create_type, in / detect / infer / cast on Series and DataFrames) with a snapshot of sys.stderr/stdout, warning filters, "
                       "numpy error state, pandas options, cwd, dispatch registrations and mutable default dicts after every call, executed under a redirected sys.stderr; 15 probes before/after; "
                       "fresh subprocesses with different PYTHONHASHSEED")
    run.cov["samples"] = [{"probe": PROBES[1]}, {"hashseeds": list(outs)[:4]}]
    run.cov["trusted_base"] += [
        "vfw/gen_effects.py: syntactic extraction of the global-effect skeleton of every function of src/visions that writes a process-global cell (regenerated this run); the cell list is the one in the property",
        "coq/theory/EffectsTheory.v: semantics of the effect language (try/finally, catch_warnings, opaque code that may raise)",
        "partial: effects inside third-party libraries, real hash-seed / address dependence and the dispatch registries are only observable dynamically",
    ]
    return run.finish("proof")
