"""C15 - refinement: a smaller typeset yields the projection of the larger one's answer."""
import json
import random
import warnings

from . import common as C
from . import oracle, streams

PROP = "C15"
PROP_FILE = "props/C15.v"
TARGETS = ["props/C15.vo"]


def check_pair(tsA, tsB, namesA, x, label):
    fails = []
    try:
        pB = tsB.detect(x)[1]
        pA = tsA.detect(x)[1]
        iB = tsB.infer(x)[1]
        iA = tsA.infer(x)[1]
    except Exception:  # noqa  (totality: C09)
        return fails
    nB, nA = [t.__name__ for t in pB], [t.__name__ for t in pA]
    inside = [n for n in nB if n in namesA]
    want = []
    for n in nB:
        if n in namesA:
            want.append(n)
        else:
            break
    if nA != want:
        fails.append({"what": f"detect path under A is {nA}; B's detection path {nB} restricted to A's types gives {want} (A = {label[0]}, B = {label[1]})",
                      "class": "detect-projection", "A": sorted(namesA), "B": label[1], "pathA": nA, "pathB": nB})
    inA, inB = [t.__name__ for t in iA], [t.__name__ for t in iB]
    if inB[:len(inA)] != inA:
        fails.append({"what": f"infer path under A {inA} is not a prefix of the infer path under B {inB}: infer_B is not reached from infer_A along B's relations",
                      "class": "infer-prefix", "A": sorted(namesA), "B": label[1], "pathA": inA, "pathB": inB})
    elif len(inB) > len(inA) and inB[len(inA)] in namesA:
        fails.append({"what": f"infer under A stops at {inA[-1]} although B continues to {inB[len(inA)]}, a type A has", "class": "infer-stops-early",
                      "A": sorted(namesA), "B": label[1], "pathA": inA, "pathB": inB})
    return fails


def oracle_fn(ctx, item, s):
    fails = []
    for (la, lb, tsA, tsB, namesA) in ctx["pairs"]:
        fails += check_pair(tsA, tsB, namesA, s, (la, lb))
    return fails


def build_alg(A, added):
    """A built by the constructor, B = A + T1 + T2 ... by the typeset algebra (A is the left operand and is used afterwards)"""
    import visions
    tsA = streams.typeset_from_names(A)
    tsB = tsA
    with warnings.catch_warnings():
        warnings.simplefilter("ignore")
        for t in added:
            tsB = tsB + getattr(visions.types, t)
    return tsA, tsB


def build_algsub(B, removed):
    """B built by the constructor, A = B - T1 - T2 ... by the typeset algebra"""
    import visions
    tsB = streams.typeset_from_names(B)
    tsA = tsB
    with warnings.catch_warnings():
        warnings.simplefilter("ignore")
        for t in removed:
            tsA = tsA - getattr(visions.types, t)
    return tsA, tsB


def alg_pairs(rnd, n):
    par = streams.identity_parent()
    out = []
    for k in range(n):
        B = streams.random_closed_subset(rnd, par) if k else sorted({t.__name__ for t in streams.shipped_typesets()["CompleteSet"].types})
        A = streams.random_closed_subset(rnd, par, universe=B) if k else sorted({t.__name__ for t in streams.shipped_typesets()["StandardSet"].types})
        extra = [t for t in B if t not in A]
        if len(A) < 2 or not extra:
            continue
        # add parents before children so that every intermediate typeset is parent-closed
        depth = lambda t: 0 if par.get(t) is None else 1 + depth(par[t])  # noqa
        extra.sort(key=depth)
        tsA, tsB = build_alg(A, extra)
        out.append(("alg:" + ",".join(A), "alg:" + ",".join(A) + "|+|" + ",".join(extra), tsA, tsB, set(A)))
        tsA2, tsB2 = build_algsub(B, extra[::-1])
        out.append(("algsub:" + ",".join(A), "algsub:" + ",".join(B) + "|-|" + ",".join(extra[::-1]), tsA2, tsB2, set(A)))
    return out


def make_pairs(rnd, n):
    par = streams.identity_parent()
    sh = streams.shipped_typesets()
    names = {k: {t.__name__ for t in v.types} for k, v in sh.items()}
    pairs = [("StandardSet", "GeometrySet", sh["StandardSet"], sh["GeometrySet"], names["StandardSet"]),
             ("GeometrySet", "CompleteSet", sh["GeometrySet"], sh["CompleteSet"], names["GeometrySet"]),
             ("StandardSet", "CompleteSet", sh["StandardSet"], sh["CompleteSet"], names["StandardSet"])]
    for _ in range(n):
        B = streams.random_closed_subset(rnd, par)
        A = streams.random_closed_subset(rnd, par, universe=B)
        if len(A) < 2 or A == B:
            continue
        pairs.append(("sub:" + ",".join(A), "sub:" + ",".join(B), streams.typeset_from_names(A), streams.typeset_from_names(B), set(A)))
    # the complete typeset without one leaf (sub-tree): what `CompleteSet() - T` users build
    allnames = sorted(names["CompleteSet"])
    leafs = [["URL"], ["Path", "File", "Image"], ["Date"], ["Count"]] + ([["UUID"], ["IPAddress"], ["EmailAddress"], ["Geometry"], ["Time"], ["Ordinal"], ["Image"], ["File", "Image"]] if n > 20 else [])
    minus = []
    for rem in leafs:
        A = [t for t in allnames if t not in rem]
        minus.append(("sub:" + ",".join(A), "CompleteSet", streams.typeset_from_names(A), sh["CompleteSet"], set(A)))
    return pairs[:3] + minus + alg_pairs(rnd, max(2, n // 3)) + pairs[3:]


def replay(path):
    r = json.load(open(path))
    if "recipe" not in r:
        print("replay names a broken obligation, no input to re-run:", [o["name"] for o in r.get("broken_obligations", [])])
        return 1
    s = streams.materialise({"recipe": r["recipe"]})
    B = r["B"]
    if B.startswith("alg:"):
        a, add = B[4:].split("|+|")
        tsA, tsB = build_alg(a.split(","), add.split(","))
    elif B.startswith("algsub:"):
        b, rem = B[7:].split("|-|")
        tsA, tsB = build_algsub(b.split(","), rem.split(","))
    else:
        tsB = streams.typeset_from_names(B[4:].split(",")) if B.startswith("sub:") else streams.shipped_typesets()[B]
        tsA = streams.typeset_from_names(r["A"])
    with warnings.catch_warnings():
        warnings.simplefilter("ignore")
        f = check_pair(tsA, tsB, set(r["A"]), s, ("A", B))
    print("replay:", [x["what"] for x in f] if f else "property holds on this input")
    return 1 if f else 0


def run(args):
    if args.replay:
        return replay(args.replay)
    run = C.Run(PROP, args.tier, args.seed)
    rnd = random.Random(args.seed)
    info = C.std_coq_phase(run, ["engine"], TARGETS, PROP_FILE)
    deep = args.tier == "thorough" or bool(run.failed_obligations())
    items = streams.all_streams(rnd, "quick", n_fam=6000 if deep else 800, n_mixed=1500 if deep else 250)
    ctx = {"pairs": make_pairs(rnd, 60 if deep else 8)}
    new, seen_known, kn = oracle.run_oracle(run, PROP, items, oracle_fn, ctx)
    nviol = oracle.report(run, PROP, new, seen_known, kn, replay_known=lambda e: bool(replay_entry(e)))
    if not nviol and run.failed_obligations():
        run.violation({"broken_obligations": run.failed_obligations(),
                       "searched": f"{run.cov.get('property_oracle_cases_on_impl')} sequences x {len(ctx['pairs'])} typeset pairs on the implementation: no failing input"}, no_input=True)
    run.cov["rule"] = ("all shared streams x pairs A <= B (Standard<=Geometry<=Complete and random parent-closed pairs); detect path of A = B's detection path cut where it leaves A; "
                       "infer path of A a prefix of B's; distinct_nontrivial = distinct (family, pool, dtype, nulls) cells")
    run.cov["samples"] = [items[3]["recipe"], items[-1]["recipe"]]
    run.cov["pairs"] = [(p[0][:60], p[1][:60]) for p in ctx["pairs"][:6]]
    run.cov["trusted_base"] += [
        "theorem is about the reference walk (the generated engine equals it: props/C12.v); that a sub-typeset's graph is the induced subgraph is C14's subject",
        "hypothesis: exclusivity along the walk (C02); inputs in a recorded C02 overlap class are excluded by the same classifiers",
    ]
    return run.finish("proof")


def replay_entry(e):
    r = e.get("replay", {})
    if "recipe" not in r:
        return True
    s = streams.materialise({"recipe": r["recipe"]})
    B = r["B"]
    if B.startswith("alg:"):
        a, add = B[4:].split("|+|")
        tsA, tsB = build_alg(a.split(","), add.split(","))
    elif B.startswith("algsub:"):
        b, rem = B[7:].split("|-|")
        tsA, tsB = build_algsub(b.split(","), rem.split(","))
    else:
        tsB = streams.typeset_from_names(B[4:].split(",")) if B.startswith("sub:") else streams.shipped_typesets()[B]
        tsA = streams.typeset_from_names(r["A"])
    return check_pair(tsA, tsB, set(r["A"]), s, ("A", B))
