"""C11 - a type is a property of the bag of values."""
import itertools
import json
import random
import warnings

import numpy as np
import pandas as pd

from . import common as C
from . import oracle, streams

PROP = "C11"
PROP_FILE = "props/C11.v"
TARGETS = ["props/C11.vo"]


def answers(ts, types, x):
    """(detect_type, infer_type, tuple of `in T`) with exceptions folded in"""
    def safe(f):
        try:
            return f()
        except Exception as e:  # noqa
            return "raise:" + type(e).__name__
    d = safe(lambda: ts.detect_type(x).__name__)
    i = safe(lambda: ts.infer_type(x).__name__)
    m = tuple(safe(lambda t=t: bool(x in t)) for t in types)
    return d, i, m


def variants(s, rnd):
    """(label, transformed series) - reorderings, relabelling, renaming, repetition.  A transformation
    that pandas refuses, or that changes the dtype (Sparse[object] under iloc / concat), is not a
    rearrangement of the same sequence and is skipped."""
    n = len(s)
    cands = []
    if 2 <= n <= 4:
        for p in itertools.permutations(range(n)):
            if list(p) != list(range(n)):
                cands.append((f"rows permuted {list(p)}", lambda p=p: s.iloc[list(p)]))
    elif n > 4:
        for _ in range(3):
            p = list(range(n))
            rnd.shuffle(p)
            cands.append((f"rows permuted {p[:8]}..", lambda p=p: s.iloc[p]))
        cands.append(("rows reversed", lambda: s.iloc[::-1]))
    if n:
        cands.append(("index relabelled with strings", lambda: s.set_axis([f"r{i}" for i in range(n)])))
        cands.append(("index relabelled with one repeated label", lambda: s.set_axis([7] * n)))
        cands.append(("index reset", lambda: s.reset_index(drop=True)))
        cands.append(("renamed", lambda: s.rename("other name")))
        cands.append(("repeated twice", lambda: pd.concat([s, s])))
        cands.append(("repeated three times", lambda: pd.concat([s, s, s], ignore_index=True)))
    out = []
    for label, mk in cands:
        try:
            v = mk()
        except Exception:  # noqa
            continue
        if v.dtype == s.dtype and isinstance(v, pd.Series):
            out.append((label, v))
    return out


def describe(d, i, m, names):
    return {"detect_type": d, "infer_type": i, "contained_in": [n for n, b in zip(names, m) if b is True]}


def check_pandas(ctx, s, rnd):
    fails = []
    ts, types, names = ctx["ts"], ctx["types"], ctx["names"]
    base = answers(ts, types, s)
    for label, v in variants(s, rnd):
        a = answers(ts, types, v)
        if a != base:
            what = []
            if a[2] != base[2]:
                diff = [n for n, x, y in zip(names, base[2], a[2]) if x != y]
                what.append(f"membership in {diff} changes")
            if a[0] != base[0]:
                what.append(f"detect_type {base[0]} -> {a[0]}")
            if a[1] != base[1]:
                what.append(f"infer_type {base[1]} -> {a[1]}")
            kind = "membership" if a[2] != base[2] else ("detect" if a[0] != base[0] else "infer")
            diff_types = [n for n, x, y in zip(names, base[2], a[2]) if x != y]
            fails.append({"what": f"{label}: " + "; ".join(what), "class": f"{kind}:{','.join(diff_types) or base[1] + '->' + str(a[1])}", "variant": label,
                          "kind": kind, "types": diff_types, "before": describe(*base, names), "after": describe(*a, names), "backend": "pandas"})
            break
    return fails


def check_seq(ctx, s, rnd, backend):
    """numpy arrays (StandardSet) and Python lists: permutation and repetition"""
    fails = []
    ts = ctx["std"]
    types, names = ctx["std_types"], ctx["std_names"]
    try:
        x = s.to_numpy() if backend == "numpy" else list(s)
    except Exception:  # noqa
        return fails
    if backend == "numpy" and not (isinstance(x, np.ndarray) and x.ndim == 1):
        return fails
    n = len(x)
    if n < 2 or n > 6:
        return fails
    base = answers(ts, types, x)
    perms = list(itertools.permutations(range(n))) if n <= 4 else [tuple(reversed(range(n)))]
    for p in perms[1:]:
        v = x[list(p)] if backend == "numpy" else [x[i] for i in p]
        a = answers(ts, types, v)
        if a != base:
            diff = [nm for nm, u, w in zip(names, base[2], a[2]) if u != w]
            kind = "membership" if a[2] != base[2] else ("detect" if a[0] != base[0] else "infer")
            fails.append({"what": f"{backend}: rows permuted {list(p)}: membership diff {diff}, detect {base[0]} -> {a[0]}, infer {base[1]} -> {a[1]}",
                          "class": f"{backend}:{kind}:{','.join(diff) or str(base[1]) + '->' + str(a[1])}", "variant": f"perm {list(p)}", "kind": kind, "types": diff, "backend": backend,
                          "before": describe(*base, names), "after": describe(*a, names)})
            break
    return fails


def oracle_fn(ctx, item, s):
    rnd = ctx["rnd"]
    fails = check_pandas(ctx, s, rnd)
    if item["family"] in ("bx", "special", "mixed", "family", "cross"):
        fails += check_seq(ctx, s, rnd, "numpy")
        fails += check_seq(ctx, s, rnd, "list")
    return fails


def make_ctx(rnd):
    import visions
    sh = streams.shipped_typesets()
    names = sorted(t.__name__ for t in sh["CompleteSet"].types)
    std_names = sorted(t.__name__ for t in sh["StandardSet"].types)
    return {"ts": sh["CompleteSet"], "names": names, "types": [getattr(visions.types, n) for n in names], "std": sh["StandardSet"],
            "std_names": std_names, "std_types": [getattr(visions.types, n) for n in std_names], "rnd": rnd}


def hetero_stream(rnd, n):
    """heterogeneous columns: the rows that matter for prefix-based predicates"""
    reps = streams.KIND_REPS
    out = []
    for _ in range(n):
        k = rnd.randint(2, 4)
        vals = [rnd.choice(reps) for _ in range(k)]
        out.append({"recipe": streams.series_recipe(vals, rnd.choice(["None", "object"])), "family": "hetero", "pool": "hetero", "dtype": "object", "nulls": "?",
                    "null": None, "len": k, "index": "None"})
    # six or more strings plus one odd value (prefix of five)
    for odd in ["b'x'", "1", "None", "1.5", "pd.NA", "datetime.date(2020, 1, 1)"]:
        for pos in (0, 3, 6):
            vals = ["'a'", "'b'", "'c'", "'d'", "'e'", "'f'"]
            vals.insert(pos, odd)
            for dt in ("None", "object"):
                out.append({"recipe": streams.series_recipe(vals, dt), "family": "hetero", "pool": "str+odd", "dtype": dt, "nulls": "?", "null": None, "len": 7, "index": "None"})
    for a, b in [("'2020-01-01'", "'01/02/2020'"), ("'1'", "'a'"), ("'1.5'", "'2'"), ("'True'", "'yes'"), ("'POINT (1 2)'", "'x'")]:
        out.append({"recipe": streams.series_recipe([a, b]), "family": "hetero", "pool": "strpair", "dtype": "None", "nulls": "?", "null": None, "len": 2, "index": "None"})
    return out


def replay(path):
    r = json.load(open(path))
    if "recipe" not in r:
        print("replay names a broken obligation, no input to re-run:", [o["name"] for o in r.get("broken_obligations", [])])
        return 1
    f = replay_entry({"replay": r})
    print("replay:", [x["what"] for x in f] if f else "property holds on this input")
    return 1 if f else 0


def replay_entry(e):
    r = e.get("replay", {})
    if "recipe" not in r:
        return [True]
    rnd = random.Random(0)
    ctx = make_ctx(rnd)
    s = streams.materialise({"recipe": r["recipe"]})
    with warnings.catch_warnings():
        warnings.simplefilter("ignore")
        fs = check_pandas(ctx, s, rnd) + check_seq(ctx, s, rnd, "numpy") + check_seq(ctx, s, rnd, "list")
    if e.get("classifier"):
        from . import known
        fs = [f for f in fs if getattr(known, e["classifier"])(dict(f, recipe=r["recipe"]))]
    return fs


def run(args):
    if args.replay:
        return replay(args.replay)
    run = C.Run(PROP, args.tier, args.seed)
    rnd = random.Random(args.seed)
    info = C.std_coq_phase(run, ["shipped", "pandas"], TARGETS, PROP_FILE)
    deep = args.tier == "thorough" or bool(run.failed_obligations())
    items = (streams.bank_stream() + streams.special_stream() + streams.file_stream() + hetero_stream(rnd, 1500 if deep else 250)
             + streams.bx_stream(2, rnd, limit=6000 if deep else 900) + streams.family_stream(rnd, 3000 if deep else 400)
             + streams.mixed_stream(rnd, 1500 if deep else 200))
    ctx = make_ctx(rnd)
    new, seen_known, kn = oracle.run_oracle(run, PROP, items, oracle_fn, ctx)
    nviol = oracle.report(run, PROP, new, seen_known, kn, replay_known=lambda e: bool(replay_entry(e)))
    if not nviol and run.failed_obligations():
        rep = {"broken_obligations": run.failed_obligations(),
               "searched": f"{run.cov.get('property_oracle_cases_on_impl')} sequences x (all row permutations for n <= 4, relabel, rename, 2- and 3-fold repetition) on pandas / numpy / list: no new failing input"}
        if info["gen"].get("pandas", {}).get("changed_vs_golden"):
            rep["model_diff_vs_golden"] = C.golden_diff("PandasContains_gen.v")
        run.violation(rep, no_input=True)
    run.cov["rule"] = ("repo bank, corner list, heterogeneous object columns (2-4 mixed kinds; six strings plus one odd value at positions 0/3/6), bounded-exhaustive dtype x kinds, family grid, mixed; "
                       "each compared with all its row permutations (n <= 4; samples above), string / repeated index labels, reset index, rename, 2x and 3x repetition; numpy arrays and lists permuted")
    run.cov["samples"] = [items[120]["recipe"], items[-1]["recipe"]]
    run.cov["trusted_base"] += [
        "translators vfw/gen_pandas.py + vfw/gen_shipped.py (regenerated this run); abstraction lib/Values.v (no index, no name: ignoring them is checked dynamically here)",
        "theorem covers `seq in T` for the 18 prefix-free types; detect_type / infer_type invariance and the 6 prefix-testing types are decided on the implementation only (relations contain whole-column parsers such as pd.to_datetime)",
    ]
    return run.finish("proof")
