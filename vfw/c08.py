"""C08 - a DataFrame is typed as independent columns; functional API equals the methods."""
import json
import random
import warnings

import pandas as pd

from . import common as C
from . import oracle, streams

PROP = "C08"
PROP_FILE = "props/C08.v"
TARGETS = ["props/C08.vo"]

LABELS = ["'a'", "'b'", "'col c'", "0", "1", "(1, 2)", "('x', 'y')", "''", "-5", "'a.b'", "2.5"]
ROW_INDEX = ["None", "rev", "dup", "str"]


def frame_stream(rnd, n, rows_choices=(0, 1, 2, 3, 5)):
    out = []
    for _ in range(n):
        rows = rnd.choice(rows_choices)
        ncols = rnd.randint(0, 4)
        labs = rnd.sample(LABELS, ncols)
        # True == 1 and 1 == 1.0 as dict keys: avoid colliding labels
        labs = [l for i, l in enumerate(labs) if not any(eval(l) == eval(m) for m in labs[:i])]
        cols = []
        for lab in labs:
            fam, pool, dtypes = rnd.choice(streams.ENCODINGS)
            dtype = rnd.choice(dtypes)
            vals = [rnd.choice(streams.POOLS[pool]) for _ in range(rows)]
            if rows and rnd.random() < 0.3 and streams.null_ok(dtype, None):
                vals[rnd.randrange(rows)] = rnd.choice(streams.NULLS)
            cols.append((lab, streams.series_recipe(vals, dtype)))
        ri = rnd.choice(ROW_INDEX)
        idx = {"None": "", "rev": f".set_axis({list(range(rows - 1, -1, -1))})", "dup": f".set_axis({[i // 2 for i in range(rows)]})",
               "str": f".set_axis({['r%d' % i for i in range(rows)]})"}[ri]
        recipe = "pd.DataFrame({" + ", ".join(f"{l}: {r}" for l, r in cols) + "})" + idx
        out.append({"recipe": recipe, "family": "frame", "pool": f"{ncols}cols", "dtype": ri, "nulls": rows, "null": None, "len": rows, "index": ri})
    return out


def long_frame_stream(rnd, n):
    out = []
    for it in streams.long_stream(rnd, n):
        inner = it["recipe"]
        out.append({"recipe": "pd.DataFrame({'x': " + inner + ", 'y': " + inner + ".astype(object)})", "family": "frame-long", "pool": it["pool"],
                    "dtype": "None", "nulls": it["nulls"], "null": None, "len": it["len"], "index": "None"})
    return out


def same(a, b):
    try:
        if a.dtype != b.dtype or not a.index.equals(b.index):
            return False
        if a.equals(b):
            return True
        return all((x is y) or (x == y) or (x != x and y != y) for x, y in zip(list(a), list(b)))
    except Exception:  # noqa
        return False


def oracle_fn(ctx, item, df):
    import visions.functional as vf
    fails = []
    for name, ts in ctx["typesets"].items():
        def F(what, cls):
            fails.append({"what": what, "class": cls, "typeset": name})
        try:
            dt, it_, cd, ci = ts.detect_type(df), ts.infer_type(df), ts.cast_to_detected(df), ts.cast_to_inferred(df)
        except Exception as e:  # noqa
            # judged against the columns: if every column alone works, the frame must too
            try:
                for c in df.columns:
                    ts.infer(df[c])
                    ts.detect(df[c])
            except Exception:  # noqa
                continue
            F(f"frame call raised {type(e).__name__}: {str(e)[:80]} although every column alone is typed without error", f"frame-raises:{type(e).__name__}")
            continue
        if list(dt.keys()) != list(df.columns) or list(it_.keys()) != list(df.columns):
            F(f"type dict keys {list(dt.keys())} are not the column labels in order {list(df.columns)}", "keys")
            continue
        if list(ci.columns) != list(df.columns) or list(cd.columns) != list(df.columns):
            F(f"cast frame columns {list(ci.columns)} are not the original columns {list(df.columns)}", "cast-columns")
        if len(df.columns) and (not ci.index.equals(df.index) or not cd.index.equals(df.index)):
            F(f"cast frame index {list(ci.index)[:6]} is not the original index {list(df.index)[:6]}", "cast-index")
        for c in df.columns:
            col = df[c]
            try:
                sdt, sit, scd, sci = ts.detect_type(col), ts.infer_type(col), ts.cast_to_detected(col), ts.cast_to_inferred(col)
            except Exception:  # noqa
                continue
            if dt[c] is not sdt:
                F(f"detect_type(df)[{c!r}] = {dt[c]} but detect_type(df[{c!r}]) = {sdt}", "detect-differs")
            if it_[c] is not sit:
                F(f"infer_type(df)[{c!r}] = {it_[c]} but infer_type(df[{c!r}]) = {sit}", "infer-differs")
            if list(ci.columns) == list(df.columns) and ci.index.equals(df.index) and not same(ci[c], sci):
                F(f"cast_to_inferred(df)[{c!r}] differs from cast_to_inferred(df[{c!r}]): {list(ci[c])[:4]} ({ci[c].dtype}) vs {list(sci)[:4]} ({sci.dtype})", f"cast-differs:{sit}")
            if list(cd.columns) == list(df.columns) and cd.index.equals(df.index) and not same(cd[c], scd):
                F(f"cast_to_detected(df)[{c!r}] differs from the column's", "castdet-differs")
        # independence of other columns: any sub-frame gives the restriction
        if len(df.columns) >= 2:
            sub = list(df.columns)[1:][::-1]
            try:
                st = ts.infer_type(df[sub])
                if any(st[c] is not it_[c] for c in sub) or list(st.keys()) != sub:
                    F(f"infer_type on columns {sub} gives {st}, on the whole frame {it_}", "subset-differs")
            except Exception:  # noqa
                pass
        # history: the same frame object typed, edited in place (dtypes unchanged), typed again: the answer is that of its CURRENT cells
        if len(df) and len(df.columns) and df.columns.is_unique:
            try:
                dfm = df.copy()
                ts.infer_type(dfm), ts.detect_type(dfm)
                d0 = dfm.dtypes.copy()
                for c in dfm.columns:
                    if dfm[c].dtype == object:
                        dfm[c] = pd.Series(["x y"] * len(dfm), index=dfm.index, dtype=object)
                    elif dfm[c].dtype.kind == "f":
                        dfm[c] = 0.5
                if dfm.dtypes.equals(d0):
                    it2, dt2 = ts.infer_type(dfm), ts.detect_type(dfm)
                    for c in dfm.columns:
                        if it2[c] is not ts.infer_type(dfm[c]) or dt2[c] is not ts.detect_type(dfm[c]):
                            F(f"after editing the cells of the same frame object in place, infer_type/detect_type(df)[{c!r}] = {it2[c]}/{dt2[c]} "
                              f"but the column now holds {list(dfm[c])[:3]} typed {ts.infer_type(dfm[c])}", "stale-after-inplace-edit")
                            break
            except Exception:  # noqa
                pass
        # functional wrappers
        try:
            if vf.detect_type(df, ts) != dt or vf.infer_type(df, ts) != it_:
                F("functional.detect_type / infer_type differ from the typeset methods", "functional-types")
            if not vf.cast_to_inferred(df, ts).equals(ci) or not vf.cast_to_detected(df, ts).equals(cd):
                F("functional.cast_to_* differ from the typeset methods", "functional-casts")
            cmp_ = vf.compare_detect_inference_frame(df, ts)
            want = {(c, dt[c], it_[c]) for c in df.columns}
            if set(cmp_) != want or len(cmp_) != len(want):
                F(f"compare_detect_inference_frame returned {cmp_}, methods give {want}", "compare")
        except Exception as e:  # noqa
            F(f"functional wrapper raised {type(e).__name__}: {str(e)[:80]}", f"functional-raises:{type(e).__name__}")
        if ctx.get("report") and len(df.columns) and all(isinstance(c, str) for c in df.columns):
            try:
                rep = vf.type_inference_report_frame(df, ts)
                for c in df.columns:
                    if str(c) not in rep or str(dt[c]) not in rep or str(it_[c]) not in rep:
                        F(f"type_inference_report_frame does not mention column {c!r} with its types {dt[c]} / {it_[c]}", "report-content")
                n_changed = sum(1 for c in df.columns if dt[c] is not it_[c])
                if f"In total {n_changed} out of {len(df.columns)}" not in rep:
                    F(f"type_inference_report_frame summary line wrong: expected {n_changed} of {len(df.columns)} changed; report: {rep[-80:]!r}", "report-summary")
            except Exception as e:  # noqa
                F(f"type_inference_report_frame raised {type(e).__name__}: {str(e)[:80]}", f"report-raises:{type(e).__name__}")
    return fails


def replay(path):
    r = json.load(open(path))
    if "recipe" not in r:
        print("replay names a broken obligation, no input to re-run:", [o["name"] for o in r.get("broken_obligations", [])])
        return 1
    df = streams.build(r["recipe"])
    ctx = {"typesets": {k: v for k, v in streams.shipped_typesets().items() if k == r.get("typeset", "CompleteSet")}, "report": True}
    with warnings.catch_warnings():
        warnings.simplefilter("ignore")
        f = oracle_fn(ctx, {"recipe": r["recipe"]}, df)
    print("replay:", [x["what"] for x in f] if f else "property holds on this input")
    return 1 if f else 0


def replay_entry(e):
    r = e.get("replay", {})
    if "recipe" not in r:
        return True
    df = streams.build(r["recipe"])
    ctx = {"typesets": {k: v for k, v in streams.shipped_typesets().items() if k == r.get("typeset", "CompleteSet")}, "report": True}
    return any(known_match(e, f) for f in oracle_fn(ctx, {"recipe": r["recipe"]}, df))


def known_match(e, f):
    from . import known
    return getattr(known, e["classifier"])(dict(f, recipe=e["replay"]["recipe"]))


def run(args):
    if args.replay:
        return replay(args.replay)
    run = C.Run(PROP, args.tier, args.seed)
    rnd = random.Random(args.seed)
    info = C.std_coq_phase(run, ["engine"], TARGETS, PROP_FILE)
    broken = bool(run.failed_obligations())
    n = 500 if args.tier == "quick" and not broken else 6000
    # the long frames first: a search cut by its budget has then seen them (sampling thresholds only show at >= 1000 rows)
    items = long_frame_stream(rnd, 12 if args.tier == "quick" and not broken else 150) + frame_stream(rnd, n)
    tss = streams.shipped_typesets()
    ctx = {"typesets": {"CompleteSet": tss["CompleteSet"], "StandardSet": tss["StandardSet"]}, "report": True}
    new, seen_known, kn = oracle.run_oracle(run, PROP, items, oracle_fn, ctx)
    nviol = oracle.report(run, PROP, new, seen_known, kn, replay_known=replay_entry)
    if not nviol and run.failed_obligations():
        rep = {"broken_obligations": run.failed_obligations(),
               "searched": f"{run.cov.get('property_oracle_cases_on_impl')} DataFrames x 2 typesets on the implementation (frame vs per-column results, sub-frames, functional wrappers): no failing input"}
        if info["gen"].get("engine", {}).get("changed_vs_golden"):
            rep["model_diff_vs_golden"] = C.golden_diff("Engine_gen.v")
        run.violation(rep, no_input=True)
    run.cov["rule"] = ("random DataFrames: 0..4 columns drawn from the family x encoding grid, hashable labels (str, int, float, bool, tuple, ''), "
                       "row index default / reversed / duplicated / string, 0..5 rows, plus >= 1000-row frames with contaminants; "
                       "distinct_nontrivial = distinct (number of columns, row index shape, rows)")
    run.cov["samples"] = [items[1]["recipe"], items[len(items) // 2]["recipe"]]
    run.cov["trusted_base"] += [
        "translator vfw/py2coq.py + vfw/gen_engine.py (engine regenerated this run)",
        "frame_of_dict (pd.DataFrame(dict of Series)) is an uninterpreted function of the model: that it re-assembles equally indexed columns unchanged is pandas behaviour, exercised by this check's oracle (cast frame vs per-column casts)",
        "Python-side oracle vfw/c08.py",
    ]
    return run.finish("proof")
