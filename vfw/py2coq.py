"""py2coq: a small, fail-closed, syntax-directed translator from the Python subset that
visions' engine is written in ("VPy") to monadic Gallina over coq/lib/PyBase.v.

The rules are deliberately few and local (DESIGN.md 4.1):

  * a function body becomes a term of type [res R]; `return e` becomes [ret e'];
  * a *threaded* variable (``self``, ``path``, ``state`` ... declared per function in the
    module driver) is a mutable Python object: every mutation form the driver knows is
    translated to a rebinding of that variable and the function returns the final value of
    every threaded variable next to its result (``ret (e, self)``);
  * statements are compiled in continuation-passing style, so an ``if`` duplicates the code
    that follows it and an early ``return`` simply drops the continuation;
  * ``for`` becomes PyBase.for_each over a list with the tuple of variables assigned in the
    loop body as loop-carried state; ``return`` / ``break`` inside the loop become
    LReturn / LBreak;
  * ``try/except (E..)`` becomes PyBase.try_catch;
  * expressions are put in A-normal form: every call that may raise is bound with
    ``x <- call ;;`` in Python evaluation order; ``and`` / ``or`` keep their short circuit.

Calls, attribute reads and mutating statements are only accepted if the module driver's
primitive table has an entry for them; anything else raises TransError (the function is then
reported as untranslated and the check falls back to the committed golden model plus
correspondence, DESIGN.md 4.4).  The translator does not optimise and does not guess.
"""
from __future__ import annotations

import ast
from dataclasses import dataclass, field
from typing import Callable, Dict, List, Optional, Tuple


class TransError(Exception):
    pass


def fail(node, why):
    line = getattr(node, "lineno", "?")
    raise TransError(f"line {line}: {why}: {ast.dump(node)[:200] if isinstance(node, ast.AST) else node}")


@dataclass
class Prim:
    """How to emit a library primitive.  `emit(args)` returns the Gallina text; `monadic` says
    whether that text has type `res _`; `ty` is the type tag of the result (or None)."""
    emit: Callable[..., str]
    monadic: bool = False
    ty: Optional[str] = None
    rebinds: Optional[str] = None   # the call returns (value, new receiver): rebind this Coq name


@dataclass
class FnCfg:
    name: str                       # Coq name of the definition
    params: List[Tuple[str, Optional[str], Optional[str]]]  # (python name, coq type or None, type tag)
    threaded: List[str] = field(default_factory=list)        # threaded mutable variables (returned with the result)
    ret_threaded: bool = True
    fuel: bool = False              # add a fuel argument, recursion through it
    self_record: Optional[str] = None
    defaults: Dict[str, str] = field(default_factory=dict)   # python `x is None` defaults handled by driver
    unbound_defaults: Dict[str, str] = field(default_factory=dict)
    ret_type: Optional[str] = None
    closure: List[Tuple[str, Optional[str], Optional[str]]] = field(default_factory=list)  # captured variables, bound before params
    ret_tag: Optional[str] = None   # type tag of the python-level result
    ret_unwrap_opt: bool = False
    none_params: List[str] = field(default_factory=list)     # params that are option-typed (None default)


class Translator:
    def __init__(self, module_cfg):
        self.m = module_cfg          # object with tables: methods, funcs, attrs, mutators, fields
        self.n = 0

    # -------------------------------------------------------------- helpers
    def fresh(self, base="t"):
        self.n += 1
        return f"{base}_{self.n}"

    @staticmethod
    def wrap(pre, body):
        out = ""
        for pat, term in pre:
            out += f"{pat} <- {term} ;;\n"
        return out + body

    # -------------------------------------------------------------- expressions
    def expr(self, e, env, pre) -> Tuple[str, Optional[str]]:
        """Returns (pure Gallina term, type tag).  Monadic sub-computations are appended to
        `pre` as (pattern, term) in evaluation order."""
        m = self.m
        if isinstance(e, ast.Name):
            if e.id in env:
                return env[e.id]
            if e.id in m.globals_:
                return m.globals_[e.id]
            fail(e, "unknown name")
        if isinstance(e, ast.Constant):
            if e.value is None:
                return ("None", "none")
            if e.value is True:
                return ("true", "bool")
            if e.value is False:
                return ("false", "bool")
            if isinstance(e.value, int):
                return (f"({e.value})%Z", "int")
            if isinstance(e.value, str):
                return m.string_const(e.value)
            fail(e, "constant kind")
        if isinstance(e, ast.JoinedStr):
            return ("tt", "msg")     # messages are not modelled
        if isinstance(e, ast.Tuple):
            parts = [self.expr(x, env, pre) for x in e.elts]
            return ("(" + ", ".join(p[0] for p in parts) + ")", "tuple:" + ",".join(str(p[1]) for p in parts))
        if isinstance(e, ast.List):
            parts = [self.expr(x, env, pre) for x in e.elts]
            return ("[" + "; ".join(p[0] for p in parts) + "]", "list")
        if isinstance(e, ast.Attribute):
            base, bty = self.expr(e.value, env, pre)
            key = (bty, e.attr)
            if key in m.attrs:
                p = m.attrs[key]
                return self._apply(p, [base], pre)
            fail(e, f"attribute {e.attr} of type tag {bty} not in primitive table")
        if isinstance(e, ast.Subscript):
            sp = m.special_subscript(e, env, self, pre)
            if sp is not None:
                return sp
            base, bty = self.expr(e.value, env, pre)
            if isinstance(e.slice, ast.Slice):
                lo = self.expr(e.slice.lower, env, pre)[0] if e.slice.lower is not None else None
                hi = self.expr(e.slice.upper, env, pre)[0] if e.slice.upper is not None else None
                if e.slice.step is not None:
                    fail(e, "slice step")
                key = (bty, "__slice__")
                if key in m.methods:
                    return self._apply(m.methods[key], [base, lo, hi], pre)
                fail(e, f"slice of {bty}")
            idx, ity = self.expr(e.slice, env, pre)
            key = (bty, "__getitem__")
            if key in m.methods:
                return self._apply(m.methods[key], [base, idx], pre)
            fail(e, f"subscript of type tag {bty}")
        if isinstance(e, ast.UnaryOp) and isinstance(e.op, ast.USub) and isinstance(e.operand, ast.Constant) and isinstance(e.operand.value, int):
            return (f"(-{e.operand.value})%Z", "int")
        if isinstance(e, ast.UnaryOp) and isinstance(e.op, ast.Not):
            t, ty = self.expr(e.operand, env, pre)
            return (f"(negb {m.truthy(t, ty)})", "bool")
        if isinstance(e, ast.BoolOp):
            return self._boolop(e, env, pre)
        if isinstance(e, ast.Compare):
            if len(e.ops) != 1:
                fail(e, "chained comparison")
            l, lty = self.expr(e.left, env, pre)
            op = e.ops[0]
            # `x is None` / `x is not None` on option-typed values
            if isinstance(op, (ast.Is, ast.IsNot)) and isinstance(e.comparators[0], ast.Constant) and e.comparators[0].value is None:
                t = f"(match {l} with None => true | Some _ => false end)"
                if isinstance(op, ast.IsNot):
                    t = f"(negb {t})"
                return (t, "bool")
            r, rty = self.expr(e.comparators[0], env, pre)
            opname = type(op).__name__
            key = (lty, rty, opname)
            if key in m.compares:
                return self._apply(m.compares[key], [l, r], pre)
            key = (rty, "__contains__")
            if isinstance(op, (ast.In, ast.NotIn)) and key in m.methods:
                t, ty = self._apply(m.methods[key], [r, l], pre)
                if isinstance(op, ast.NotIn):
                    t = f"(negb {t})"
                return (t, ty)
            fail(e, f"comparison {opname} on tags {lty},{rty}")
        if isinstance(e, ast.BinOp):
            l, lty = self.expr(e.left, env, pre)
            r, rty = self.expr(e.right, env, pre)
            key = (lty, rty, type(e.op).__name__)
            if key in m.binops:
                return self._apply(m.binops[key], [l, r], pre)
            fail(e, f"binop {key}")
        if isinstance(e, ast.Call):
            return self._call(e, env, pre)
        if isinstance(e, (ast.ListComp, ast.GeneratorExp, ast.DictComp, ast.SetComp)):
            return self._comp(e, env, pre)
        if isinstance(e, ast.Dict):
            return m.dict_literal(e, env, self, pre)
        if isinstance(e, ast.Set):
            parts = [self.expr(x, env, pre) for x in e.elts]
            return m.set_literal([p[0] for p in parts])
        if isinstance(e, ast.IfExp):
            c, _ = self.expr(e.test, env, pre)
            pa, pb = [], []
            a, aty = self.expr(e.body, env, pa)
            b, bty = self.expr(e.orelse, env, pb)
            if pa or pb:
                v = self.fresh("ife")
                pre.append((v, f"(if {c} then ({self.wrap(pa, 'ret ' + a)}) else ({self.wrap(pb, 'ret ' + b)}))"))
                return (v, aty)
            return (f"(if {c} then {a} else {b})", aty)
        fail(e, "expression form outside VPy")

    def _comp(self, e, env, pre, reducer=None):
        """[elt for x in it if c] -> filter + map_res; {k: v for ...} -> assoc list."""
        m = self.m
        if len(e.generators) != 1 or e.generators[0].is_async:
            fail(e, "comprehension with several generators")
        g = e.generators[0]
        it, ity = self.expr_iter(g.iter, env, pre)
        elem_ty = ity.split(":", 1)[1] if ity and ":" in ity else None
        env2 = dict(env)
        if isinstance(g.target, ast.Name):
            nm = m.coq_name(g.target.id)
            env2[g.target.id] = (nm, elem_ty)
            pat = nm
        elif isinstance(g.target, ast.Tuple) and all(isinstance(x, ast.Name) for x in g.target.elts):
            tys = elem_ty.split(":", 1)[1].split(",") if elem_ty and elem_ty.startswith("tuple:") else [None] * len(g.target.elts)
            names = []
            for x, ty in zip(g.target.elts, tys):
                nm = m.coq_name(x.id) if x.id != "_" else "_"
                names.append(nm)
                if x.id != "_":
                    env2[x.id] = (nm, None if ty == "None" else ty)
            pat = "'(" + ", ".join(names) + ")"
        else:
            fail(e, "comprehension target")
        for c in g.ifs:
            cp = []
            ct, _ = self.expr(c, env2, cp)
            if cp:
                fail(e, "monadic comprehension filter")
            it = f"(filter (fun {pat} => {ct}) {it})"
        ep = []
        if isinstance(e, ast.DictComp):
            k, kty = self.expr(e.key, env2, ep)
            v, vty = self.expr(e.value, env2, ep)
            elt, rty = f"({k}, {v})", f"dict:{vty}"
        else:
            elt, ety = self.expr(e.elt, env2, ep)
            rty = f"list:{ety}" if ety else "list"
            if isinstance(e, ast.SetComp):
                rty = "set"
        if reducer:
            body = self.wrap(ep, f"ret {elt}")
            v = self.fresh("v")
            pre.append((v, f"({reducer} (fun {pat} => {body}) {it})"))
            return (v, "bool")
        wrapd = (lambda t: m.dictcomp_wrap(t)) if isinstance(e, ast.DictComp) else (lambda t: t)
        if ep:
            body = self.wrap(ep, f"ret {elt}")
            v = self.fresh("v")
            pre.append((v, f"(map_res (fun {pat} => {body}) {it})"))
            return (wrapd(v), rty)
        return (wrapd(f"(map (fun {pat} => {elt}) {it})"), rty)

    def _boolop(self, e, env, pre):
        is_and = isinstance(e.op, ast.And)
        # left-to-right with short circuit; operands must be bool-tagged
        first, _ = self.expr(e.values[0], env, pre)
        acc = first
        for v in e.values[1:]:
            sub = []
            t, _ = self.expr(v, env, sub)
            if sub:
                name = self.fresh("sc")
                inner = self.wrap(sub, f"ret {t}")
                if is_and:
                    pre.append((name, f"(if {acc} then ({inner}) else ret false)"))
                else:
                    pre.append((name, f"(if {acc} then ret true else ({inner}))"))
                acc = name
            else:
                acc = f"(andb {acc} {t})" if is_and else f"(orb {acc} {t})"
        return (acc, "bool")

    def _apply(self, p: Prim, args, pre):
        t = p.emit(*args)
        if p.monadic:
            v = self.fresh("v")
            if p.rebinds:
                pre.append((f"'({v}, {p.rebinds})", t))
            else:
                pre.append((v, t))
            return (v, p.ty)
        return (t, p.ty)

    def _call(self, e, env, pre):
        m = self.m
        f = e.func
        sp = m.special_call(e, env, self, pre)
        if sp is not None:
            return sp
        if e.keywords and not m.allow_keywords(e):
            fail(e, "keyword arguments")
        if isinstance(f, ast.Attribute) and isinstance(f.value, ast.Name) and f.value.id in m.module_aliases:
            dotted = f"{f.value.id}.{f.attr}"
            if dotted in m.funcs:
                args = [self._arg(a, env, pre) for a in e.args]
                kw = {k.arg: self.expr(k.value, env, pre)[0] for k in e.keywords}
                p = m.funcs[dotted]
                if kw:
                    p = Prim(lambda *a, _p=p, _kw=kw: _p.emit(*a, **_kw), p.monadic, p.ty, p.rebinds)
                return self._apply(p, args, pre)
            fail(e, f"library function {dotted} not in primitive table")
        if isinstance(f, ast.Name) and f.id in m.user_funcs:
            return self.user_call(m.user_funcs[f.id], e.args, e.keywords, env, pre, e)
        if isinstance(f, ast.Attribute) and (f.attr in m.user_methods):
            base, bty = self.expr(f.value, env, pre)
            if (bty, f.attr) in m.user_methods_by_tag:
                cfg = m.user_methods_by_tag[(bty, f.attr)]
                return self.user_call(cfg, e.args, e.keywords, env, pre, e, receiver=(f.value, base))
        # method call  obj.meth(args)
        if isinstance(f, ast.Attribute):
            base, bty = self.expr(f.value, env, pre)
            args = [self._arg(a, env, pre) for a in e.args]
            key = (bty, f.attr)
            if key in m.methods:
                kw = {k.arg: self.expr(k.value, env, pre)[0] for k in e.keywords}
                return self._apply(m.methods[key], [base] + args, pre) if not kw else \
                    self._apply(Prim(lambda *a, _p=m.methods[key], _kw=kw: _p.emit(*a, **_kw), m.methods[key].monadic, m.methods[key].ty), [base] + args, pre)
            fail(e, f"method {f.attr} on type tag {bty} not in primitive table")
        if isinstance(f, ast.Name) and f.id in ("all", "any") and len(e.args) == 1 and isinstance(e.args[0], (ast.GeneratorExp, ast.ListComp)):
            return self._comp(e.args[0], env, pre, reducer="py_all" if f.id == "all" else "py_any")
        if isinstance(f, ast.Name):
            args = [self._arg(a, env, pre) for a in e.args]
            if f.id in env and env[f.id][1] and env[f.id][1].startswith("fun"):
                # call of a function-typed local (monadic by convention)
                v = self.fresh("v")
                pre.append((v, f"({env[f.id][0]} {' '.join(args)})"))
                rty = env[f.id][1].split(":", 1)[1] if ":" in env[f.id][1] else None
                return (v, rty)
            if f.id in m.funcs:
                kw = {k.arg: self.expr(k.value, env, pre)[0] for k in e.keywords}
                p = m.funcs[f.id]
                if kw:
                    p = Prim(lambda *a, _p=p, _kw=kw: _p.emit(*a, **_kw), p.monadic, p.ty)
                return self._apply(p, args, pre)
            fail(e, f"call of unknown function {f.id}")
        fail(e, "call form")

    def user_call(self, cfg, args, keywords, env, pre, node, receiver=None):
        """Call of a translated visions function/method.  Threaded parameters are rebound in the
        caller (the callee returns their final value next to its result)."""
        m = self.m
        params = list(cfg.params)
        actual = {}
        pos = list(args)
        if receiver is not None:
            actual[params[0][0]] = receiver     # (ast lvalue, term)
            params_rest = params[1:]
        else:
            params_rest = params
        if len(pos) > len(params_rest):
            fail(node, "too many positional arguments")
        for (pn, _, _), a in zip(params_rest, pos):
            actual[pn] = (a, None)
        for k in keywords:
            if k.arg not in [p[0] for p in params_rest] or k.arg in actual:
                fail(node, f"keyword {k.arg}")
            actual[k.arg] = (k.value, None)
        terms = []
        rebound = {}
        for (pn, cty, tag) in params:
            if pn not in actual:
                if pn in cfg.none_params:
                    terms.append("None")
                    continue
                if pn in cfg.defaults:
                    terms.append(cfg.defaults[pn])
                    continue
                fail(node, f"missing argument {pn}")
            a, t = actual[pn]
            if t is None:
                t = self.expr(a, env, pre)[0]
            if pn in cfg.none_params:
                t = f"(Some {t})"
            terms.append(t)
            if pn in cfg.threaded and cfg.ret_threaded:
                rebound[pn] = a
        ambient = [x for x in cfg.threaded if x not in [p[0] for p in params]]
        for x in ambient:
            if x not in env:
                fail(node, f"ambient threaded variable {x} not in scope")
            terms.append(env[x][0])
        fuel = "fuel " if cfg.fuel else ""
        call = f"({cfg.name} {fuel}{' '.join(terms)})"
        v = self.fresh("v")
        if cfg.ret_threaded and cfg.threaded:
            pats = []
            for x in cfg.threaded:
                if x in rebound and isinstance(rebound[x], ast.Name) and rebound[x].id in env:
                    pats.append(env[rebound[x].id][0])
                elif x in ambient:
                    pats.append(env[x][0])
                elif x in rebound and isinstance(rebound[x], ast.Attribute):
                    pats.append("_")   # mutation of a field reached through the receiver is returned inside it
                else:
                    pats.append("_")
            pre.append((f"'({v}, {', '.join(pats)})", call))
        else:
            pre.append((v, call))
        return (v, cfg.ret_tag)

    def _arg(self, a, env, pre):
        if isinstance(a, ast.Starred):
            # *args forwarding: args is modelled as ONE value
            return self.expr(a.value, env, pre)[0]
        return self.expr(a, env, pre)[0]

    # -------------------------------------------------------------- statements
    def assigned(self, stmts) -> List[str]:
        """Names (re)bound in a statement list, in first-occurrence order (threaded vars that are
        mutated count as rebound)."""
        out = []

        def add(n):
            if n not in out:
                out.append(n)

        for s in stmts:
            for node in ast.walk(s):
                if isinstance(node, ast.Assign):
                    for t in node.targets:
                        for x in ast.walk(t):
                            if isinstance(x, ast.Name) and isinstance(x.ctx, ast.Store):
                                add(x.id)
                        r = self._root(t)
                        if r:
                            add(r)
                elif isinstance(node, (ast.AugAssign, ast.AnnAssign)):
                    r = self._root(node.target)
                    if r:
                        add(r)
                elif isinstance(node, ast.Delete):
                    for t in node.targets:
                        r = self._root(t)
                        if r:
                            add(r)
                elif isinstance(node, ast.Expr) and isinstance(node.value, ast.Call):
                    for r in self.m.mutated_roots(node.value, self):
                        add(r)
                elif isinstance(node, ast.For):
                    for x in ast.walk(node.target):
                        if isinstance(x, ast.Name):
                            add(x.id)
                elif isinstance(node, ast.Call):
                    for r in self.m.mutated_roots(node, self):
                        add(r)
        return out

    @staticmethod
    def _root(t):
        while isinstance(t, (ast.Attribute, ast.Subscript)):
            t = t.value
        return t.id if isinstance(t, ast.Name) else None

    def store(self, target, value_term, value_ty, env, body_k):
        """Emit `target = value` then the continuation.  Returns Gallina text."""
        m = self.m
        if isinstance(target, ast.Name):
            env2 = dict(env)
            nm = m.coq_name(target.id)
            if value_ty in ("dict?", "list") and target.id in m.var_tags:
                value_ty = m.var_tags[target.id]
            env2[target.id] = (nm, value_ty)
            return f"let {nm} := {value_term} in\n" + body_k(env2)
        if isinstance(target, ast.Tuple):
            env2 = dict(env)
            later = []

            def pat_of(t, ty):
                if isinstance(t, ast.Name):
                    if t.id == "_":
                        return "_"
                    nm = m.coq_name(t.id)
                    env2[t.id] = (nm, None if ty in ("None", None) else ty)
                    return nm
                if isinstance(t, ast.Tuple):
                    tys = split_tuple_tag(ty, len(t.elts))
                    return "(" + ", ".join(pat_of(x, y) for x, y in zip(t.elts, tys)) + ")"
                if isinstance(t, ast.Attribute):
                    tmp = self.fresh("tmp")
                    later.append((t, tmp, ty))
                    return tmp
                fail(target, "tuple target element")
            pat = pat_of(target, value_ty)

            def cont(e3, i=0):
                if i == len(later):
                    return body_k(e3)
                t, tmp, ty = later[i]
                return self.store(t, tmp, ty, e3, lambda e4: cont(e4, i + 1))
            return f"let '{pat} := {value_term} in\n" + cont(env2)
        if isinstance(target, ast.Attribute) and isinstance(target.value, ast.Name):
            obj = target.value.id
            oterm, oty = env[obj]
            key = (oty, target.attr)
            if key in m.setters:
                env2 = dict(env)
                nm = m.coq_name(obj)
                env2[obj] = (nm, oty)
                return f"let {nm} := {m.setters[key](oterm, value_term)} in\n" + body_k(env2)
            fail(target, f"store to attribute {target.attr} of tag {oty}")
        if isinstance(target, ast.Subscript):
            # container[k] = v  where container is an lvalue
            pre = []
            cont, cty = self.expr(target.value, env, pre)
            idx, _ = self.expr(target.slice, env, pre)
            key = (cty, "__setitem__")
            if key not in m.methods:
                fail(target, f"item store on tag {cty}")
            new, nty = self._apply(m.methods[key], [cont, idx, value_term], pre)
            return self.wrap(pre, self.store_back(target.value, new, cty, env, body_k))
        fail(target, "assignment target")

    def store_back(self, lv, new_term, ty, env, body_k):
        """Write a new value of a mutated container back into the lvalue it was read from."""
        if isinstance(lv, ast.Name):
            return self.store(lv, new_term, ty, env, body_k)
        if isinstance(lv, ast.Attribute) and isinstance(lv.value, ast.Name):
            return self.store(lv, new_term, ty, env, body_k)
        fail(lv, "mutation of a non-lvalue (aliased object)")

    def block(self, stmts, env, fn: FnCfg, k, in_loop=None):
        """Compile statements; `k(env)` produces the code for what follows the block."""
        if not stmts:
            return k(env)
        s, rest = stmts[0], stmts[1:]
        nxt = lambda env2: self.block(rest, env2, fn, k, in_loop)
        m = self.m

        if isinstance(s, ast.Expr) and isinstance(s.value, ast.Constant) and isinstance(s.value.value, str):
            return nxt(env)                       # docstring
        if isinstance(s, ast.Pass):
            return nxt(env)
        if isinstance(s, (ast.Import, ast.ImportFrom)):
            return nxt(env)
        if isinstance(s, ast.Return):
            return self.ret(s.value, env, fn, in_loop)
        if isinstance(s, ast.Raise):
            return f"Raise {m.exn_of(s.exc)}"
        if isinstance(s, ast.Assert):
            pre = []
            c, _ = self.expr(s.test, env, pre)
            return self.wrap(pre, f"if {c} then (\n{nxt(env)}) else Raise AssertionError")
        if isinstance(s, ast.Assign):
            if len(s.targets) != 1:
                fail(s, "multiple targets")
            special = m.special_assign(s, env, self, fn, nxt)
            if special is not None:
                return special
            pre = []
            v, ty = self.expr(s.value, env, pre)
            return self.wrap(pre, self.store(s.targets[0], v, ty, env, nxt))
        if isinstance(s, ast.AugAssign):
            pre = []
            l, lty = self.expr(s.target, env, pre)
            r, rty = self.expr(s.value, env, pre)
            key = (lty, rty, type(s.op).__name__)
            if key not in m.binops:
                fail(s, f"augmented assignment {key}")
            v, ty = self._apply(m.binops[key], [l, r], pre)
            return self.wrap(pre, self.store(s.target, v, ty, env, nxt))
        if isinstance(s, ast.AnnAssign):
            if s.value is None:
                return nxt(env)
            pre = []
            v, ty = self.expr(s.value, env, pre)
            return self.wrap(pre, self.store(s.target, v, ty, env, nxt))
        if isinstance(s, ast.Delete):
            if len(s.targets) != 1 or not isinstance(s.targets[0], ast.Subscript):
                fail(s, "del form")
            t = s.targets[0]
            pre = []
            cont, cty = self.expr(t.value, env, pre)
            idx, _ = self.expr(t.slice, env, pre)
            key = (cty, "__delitem__")
            if key not in m.methods:
                fail(s, f"del on tag {cty}")
            new, _ = self._apply(m.methods[key], [cont, idx], pre)
            return self.wrap(pre, self.store_back(t.value, new, cty, env, nxt))
        if isinstance(s, ast.Expr) and isinstance(s.value, ast.Call):
            return self.call_stmt(s.value, env, fn, nxt)
        if isinstance(s, ast.If):
            special = m.special_if(s, env, self, fn, nxt, in_loop)
            if special is not None:
                return special
            # idiom:  if x is None: x = E      (x an option-typed parameter)
            t = s.test
            if (isinstance(t, ast.Compare) and len(t.ops) == 1 and isinstance(t.ops[0], ast.Is)
                    and isinstance(t.left, ast.Name) and isinstance(t.comparators[0], ast.Constant)
                    and t.comparators[0].value is None and not s.orelse and len(s.body) == 1
                    and isinstance(s.body[0], ast.Assign) and len(s.body[0].targets) == 1
                    and isinstance(s.body[0].targets[0], ast.Name) and s.body[0].targets[0].id == t.left.id
                    and env.get(t.left.id, (None, ""))[1] and str(env[t.left.id][1]).startswith("opt:")):
                x = t.left.id
                pre = []
                dv, dty = self.expr(s.body[0].value, env, pre)
                if pre:
                    fail(s, "monadic default value")
                dv = m.coerce_default(dv, dty, env[x][1][4:])
                nm = m.coq_name(x)
                env2 = dict(env)
                env2[x] = (nm, env[x][1][4:])
                return f"let {nm} := match {env[x][0]} with None => {dv} | Some x_ => x_ end in\n" + nxt(env2)
            pre = []
            c, cty = self.expr(s.test, env, pre)
            c = m.truthy(c, cty)
            # continuation duplication: both branches continue with `rest`
            a = self.block(s.body + rest, env, fn, k, in_loop)
            b = self.block(s.orelse + rest, env, fn, k, in_loop)
            return self.wrap(pre, f"if {c} then (\n{a}\n) else (\n{b}\n)")
        if isinstance(s, ast.For):
            return self.for_stmt(s, env, fn, nxt, in_loop)
        if isinstance(s, ast.Try):
            return self.try_stmt(s, rest, env, fn, k, in_loop)
        if isinstance(s, ast.Break):
            if in_loop is None:
                fail(s, "break outside loop")
            return f"ret (LBreak {in_loop['pack'](env)})"
        if isinstance(s, ast.FunctionDef):
            return m.nested_def(s, env, self, fn, nxt)
        fail(s, "statement form outside VPy")

    def ret(self, value, env, fn: FnCfg, in_loop):
        pre = []
        vty = None
        if value is None:
            v = "tt"
        else:
            v, vty = self.expr(value, env, pre)
        if vty and str(vty).startswith("opt:") and fn.ret_unwrap_opt:
            u = self.fresh("u")
            pre.append((u, f"(match {v} with Some x_ => ret x_ | None => Raise OtherExn end)"))
            v = u
        thr = [env[t][0] for t in fn.threaded] if fn.ret_threaded else []
        tup = "(" + ", ".join([v] + thr) + ")" if thr else v
        if in_loop is not None:
            return self.wrap(pre, f"ret (LReturn {tup})")
        return self.wrap(pre, f"ret {tup}")

    def call_stmt(self, call, env, fn, nxt):
        """Expression statement: a mutating method call on an lvalue, or a call whose result is
        dropped."""
        m = self.m
        f = call.func
        special = m.special_call_stmt(call, env, self, fn, nxt)
        if special is not None:
            return special
        if isinstance(f, ast.Attribute) and not (isinstance(f.value, ast.Name) and f.value.id in m.module_aliases):
            pre = []
            recv, rty = self.expr(f.value, env, pre)
            key = (rty, f.attr)
            if key in m.mutators:
                args = [self._arg(a, env, pre) for a in call.args]
                kw = {k.arg: self.expr(k.value, env, pre)[0] for k in call.keywords}
                p = m.mutators[key]
                if kw:
                    p = Prim(lambda *a, _p=p, _kw=kw: _p.emit(*a, **_kw), p.monadic, p.ty, p.rebinds)
                new, _ = self._apply(p, [recv] + args, pre)
                return self.wrap(pre, self.store_back(f.value, new, rty, env, nxt))
        pre = []
        self.expr(call, env, pre)
        return self.wrap(pre, nxt(env))

    def for_stmt(self, s, env, fn, nxt, outer_loop):
        if s.orelse:
            fail(s, "for-else")
        m = self.m
        pre = []
        it, ity = self.expr_iter(s.iter, env, pre)
        carried = [v for v in self.assigned(s.body) if v in env]
        # loop variables used after the loop (python leaks them): carried with a driver default
        tnames = [x.id for x in ast.walk(s.target) if isinstance(x, ast.Name)]
        leaked = [v for v in tnames if v in fn.unbound_defaults]
        cnames = carried + leaked
        env0 = dict(env)
        for v in leaked:
            env0[v] = tuple(fn.unbound_defaults[v])
        pack = lambda e: "(" + ", ".join([e[v][0] for v in cnames] + ["tt"]) + ")"
        pat_names = [m.coq_name(v) for v in cnames]
        pat = "'(" + ", ".join(pat_names + ["_"]) + ")"
        env_in = dict(env)
        for v, nm in zip(cnames, pat_names):
            env_in[v] = (nm, env0[v][1])
        # bind the loop target
        tgt = s.target
        xname = self.fresh("x")
        elem_ty = ity.split(":", 1)[1] if ity and ":" in ity else None
        loop_info = {"pack": pack}

        def body_k(e2):
            return f"ret (LContinue {pack(e2)})"

        body = self.store(tgt, xname, elem_ty, env_in,
                          lambda e2: self.block(s.body, e2, fn, body_k, loop_info))
        r = self.fresh("r")
        env_after = dict(env)
        for v, nm in zip(cnames, pat_names):
            env_after[v] = (nm, env0[v][1])
        after = nxt(env_after)
        retk = "ret (LReturn rr)" if outer_loop is not None else "ret rr"
        if not self._has_return(s.body):
            retk = "Raise OtherExn (* unreachable: no return in this loop *)"
        fe = "for_each" if self._has_return(s.body) else "for_each (R:=unit)"
        code = (f"{r} <- {fe} {it} {pack(env0)} (fun {xname} {pat} =>\n{body}) ;;\n"
                f"match {r} with\n| LoopReturned rr => {retk}\n| LoopDone {pat[1:]} =>\n{after}\nend")
        return self.wrap(pre, code)

    def expr_iter(self, e, env, pre):
        """Iterable expression -> Gallina list."""
        t, ty = self.expr(e, env, pre)
        key = (ty, "__iter__")
        if key in self.m.methods:
            return self._apply(self.m.methods[key], [t], pre)
        if ty and (ty == "list" or ty.startswith("list:")):
            return (t, ty)
        if ty in self.m.iter_tags:
            return (t, "list:" + self.m.iter_tags[ty])
        fail(e, f"iteration over type tag {ty}")

    def try_stmt(self, s, rest, env, fn, k, in_loop):
        if s.orelse:
            fail(s, "try-else")
        if s.finalbody:
            sp = self.m.special_try_finally(s, rest, env, self, fn, k, in_loop)
            if sp is not None:
                return sp
            fail(s, "try/finally form")
        if len(s.handlers) != 1:
            fail(s, "several handlers")
        h = s.handlers[0]
        excs = self.m.exn_list(h.type)
        # both body and handler must end by return or by assigning the same variables; we
        # compile each with the rest of the block as continuation (duplication)
        if in_loop is not None:
            fail(s, "try inside loop")
        # join through assigned variables
        assigned = [v for v in self.assigned(s.body + h.body)]
        joined = [v for v in assigned]
        pack = lambda e: "(" + ", ".join([e[v][0] for v in joined] + ["tt"]) + ")"
        # A try body that returns is compiled as a value-producing computation
        if self._always_returns(s.body) and self._always_returns(h.body):
            a = self.block(s.body, env, fn, lambda e: "Raise OtherExn", None)
            b = self.block(h.body, env, fn, lambda e: "Raise OtherExn", None)
            return f"try_catch (\n{a}\n) [{'; '.join(excs)}] (\n{b}\n)"
        # otherwise both sides fall through having assigned `joined`
        for v in joined:
            if v not in env:
                env = dict(env)
        a = self.block(s.body, env, fn, lambda e: f"ret {pack(e)}", None)
        b = self.block(h.body, env, fn, lambda e: f"ret {pack(e)}", None)
        if "LReturn" in a or self._has_return(s.body) or self._has_return(h.body):
            fail(s, "try body mixing return and fall-through")
        names = [self.m.coq_name(v) for v in joined]
        env2 = dict(env)
        for v, nm in zip(joined, names):
            env2[v] = (nm, env.get(v, (None, None))[1] or self.m.var_tags.get(v))
        t = self.fresh("tr")
        pat = "'(" + ", ".join(names + ["_"]) + ")"
        return (f"{t} <- try_catch (\n{a}\n) [{'; '.join(excs)}] (\n{b}\n) ;;\nlet {pat} := {t} in\n"
                + self.block(rest, env2, fn, k, in_loop))

    @staticmethod
    def _has_return(stmts):
        return any(isinstance(n, ast.Return) for s in stmts for n in ast.walk(s))

    def _always_returns(self, stmts):
        if not stmts:
            return False
        last = stmts[-1]
        if isinstance(last, (ast.Return, ast.Raise)):
            return True
        if isinstance(last, ast.If):
            return self._always_returns(last.body) and self._always_returns(last.orelse)
        return False

    # -------------------------------------------------------------- functions
    def function(self, fdef: ast.FunctionDef, fn: FnCfg) -> str:
        m = self.m
        env = {}
        binders = []
        if fn.fuel:
            binders.append("(fuel : nat)")
        for pyname, cty, tag in fn.closure + fn.params:
            nm = m.coq_name(pyname)
            env[pyname] = (nm, tag)
            binders.append(f"({nm} : {cty})" if cty else nm)
        for x in fn.threaded:
            if x not in [p[0] for p in fn.closure + fn.params]:
                env[x] = (x, m.ambient[x][1])
                binders.append(f"({x} : {m.ambient[x][0]})")
        # check the python signature agrees with the driver's view (fail closed on drift)
        pyparams = [a.arg for a in fdef.args.args]
        if fdef.args.vararg:
            pyparams.append("*" + fdef.args.vararg.arg)
        want = [p[0] for p in fn.params]
        if [p.lstrip("*") for p in pyparams] != want:
            raise TransError(f"{fdef.name}: signature {pyparams} differs from driver view {want}")

        def k_end(e):
            # falling off the end returns None
            thr = [e[t][0] for t in fn.threaded] if fn.ret_threaded else []
            return "ret " + ("(" + ", ".join(["tt"] + thr) + ")" if thr else "tt")

        body = m.body_prefix + self.block(fdef.body, env, fn, k_end)
        rt = f" : {fn.ret_type}" if fn.ret_type else ""
        if fn.fuel and getattr(fn, "fuel_passthrough", False):
            return f"Definition {fn.name} {' '.join(binders)}{rt} :=\n{body}.\n"
        if fn.fuel:
            return (f"Fixpoint {fn.name} {' '.join(binders)} {{struct fuel}}{rt} :=\n"
                    f"match fuel with\n| O => Raise OutOfFuel\n| S fuel =>\n{body}\nend.\n")
        return f"Definition {fn.name} {' '.join(binders)}{rt} :=\n{body}.\n"


def split_tuple_tag(ty, n):
    """'tuple:a,b,tuple:(c,d)' is not supported; nested tuple tags use ';' inside brackets."""
    if not ty or not ty.startswith("tuple:"):
        return [None] * n
    body = ty[len("tuple:"):]
    parts, depth, cur = [], 0, ""
    for ch in body:
        if ch == "<":
            depth += 1
        if ch == ">":
            depth -= 1
        if ch == "," and depth == 0:
            parts.append(cur)
            cur = ""
        else:
            cur += ch
    parts.append(cur)
    parts = [p[1:-1] if p.startswith("<") and p.endswith(">") else p for p in parts]
    return parts if len(parts) == n else [None] * n


def find_def(tree, name, cls=None):
    """Locate a FunctionDef by name (optionally inside class `cls`)."""
    scope = tree.body
    if cls:
        for n in tree.body:
            if isinstance(n, ast.ClassDef) and n.name == cls:
                scope = n.body
                break
        else:
            raise TransError(f"class {cls} not found")
    for n in scope:
        if isinstance(n, ast.FunctionDef) and n.name == name:
            return n
    raise TransError(f"function {name} not found" + (f" in {cls}" if cls else ""))


class ModuleCfg:
    """Base module driver: empty primitive tables; subclasses fill them in."""
    def __init__(self):
        self.methods: Dict[Tuple[str, str], Prim] = {}
        self.mutators: Dict[Tuple[str, str], Prim] = {}
        self.attrs: Dict[Tuple[str, str], Prim] = {}
        self.funcs: Dict[str, Prim] = {}
        self.setters: Dict[Tuple[str, str], Callable[[str, str], str]] = {}
        self.compares: Dict[Tuple[str, str, str], Prim] = {}
        self.binops: Dict[Tuple[str, str, str], Prim] = {}
        self.globals_: Dict[str, Tuple[str, str]] = {}
        self.var_tags: Dict[str, str] = {}
        self.module_aliases = set()
        self.body_prefix = ""
        self.iter_tags = {}
        self.ambient = {"warns": ("list warning", "warns")}
        self.user_funcs: Dict[str, FnCfg] = {}
        self.user_methods = set()
        self.user_methods_by_tag: Dict[Tuple[str, str], FnCfg] = {}

    def special_call(self, e, env, tr, pre):
        return None

    def special_subscript(self, e, env, tr, pre):
        return None

    def coerce_default(self, term, tag, want):
        return term

    def dictcomp_wrap(self, term):
        raise TransError("dict comprehension not modelled by this driver")

    def truthy(self, term, tag):
        """python truthiness of a non-bool value used as a condition"""
        if tag in (None, "bool"):
            return term
        if tag and (tag == "list" or tag.startswith("list:") or tag in ("set", "path", "dict") or tag.startswith("dict:")):
            return f"(negb (match {term} with [] => true | _ => false end))"
        raise TransError(f"truthiness of type tag {tag}")

    def coq_name(self, py):
        reserved = {"ret", "bind", "type", "end", "in", "at", "as", "return", "match", "with", "let", "fun", "forall", "exists", "if", "then", "else", "fix", "Type", "Set", "Prop"}
        return py + "_" if py in reserved or py.endswith("_") else py

    def dict_literal(self, e, env, tr, pre):
        raise TransError("dict literal not modelled by this driver")

    def set_literal(self, terms):
        raise TransError("set literal not modelled by this driver")

    def string_const(self, s):
        raise TransError(f"string constant {s!r} not modelled")

    def allow_keywords(self, call):
        return False

    def exn_of(self, node):
        names = {"KeyError", "IndexError", "ValueError", "TypeError", "AttributeError", "StopIteration",
                 "NotImplementedError", "AssertionError", "OverflowError"}
        n = node
        if isinstance(n, ast.Call):
            n = n.func
        if isinstance(n, ast.Name) and n.id in names:
            return n.id
        if isinstance(n, ast.Name) and n.id == "err":
            return "OtherExn"
        raise TransError(f"raise of unmodelled exception {ast.dump(node)[:80]}")

    def exn_list(self, node):
        if node is None:
            raise TransError("bare except")
        elts = node.elts if isinstance(node, ast.Tuple) else [node]
        return [self.exn_of(x) for x in elts]

    def mutated_roots(self, call, tr):
        f = call.func
        out = []
        if isinstance(f, ast.Attribute):
            for (ty, name) in self.mutators:
                if f.attr == name:
                    r = Translator._root(f.value)
                    if r:
                        out.append(r)
        cfg = None
        recv = None
        if isinstance(f, ast.Name) and f.id in self.user_funcs:
            cfg = self.user_funcs[f.id]
        elif isinstance(f, ast.Attribute) and f.attr in self.user_methods:
            cands = [c for (t, n), c in self.user_methods_by_tag.items() if n == f.attr]
            cfg = cands[0] if cands else None
            recv = f.value
        if cfg is not None and cfg.ret_threaded:
            params = [p[0] for p in cfg.params]
            if recv is not None:
                if params[0] in cfg.threaded:
                    r = Translator._root(recv)
                    if r:
                        out.append(r)
                params = params[1:]
            for pn, a in list(zip(params, call.args)) + [(k.arg, k.value) for k in call.keywords]:
                if pn in cfg.threaded and isinstance(a, ast.Name):
                    out.append(a.id)
            out += [x for x in cfg.threaded if x not in [p[0] for p in cfg.params]]
        return out

    def special_assign(self, s, env, tr, fn, nxt):
        return None

    def special_if(self, s, env, tr, fn, nxt, in_loop):
        return None

    def special_call_stmt(self, call, env, tr, fn, nxt):
        return None

    def special_try_finally(self, s, rest, env, tr, fn, k, in_loop):
        return None

    def nested_def(self, s, env, tr, fn, nxt):
        raise TransError(f"nested def {s.name} not supported by this driver")
