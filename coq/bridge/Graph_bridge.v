(* Bridge: the GENERATED build_graph / check_isolates / find_root_node / VisionsTypeset.__init__ as
   pure folds over the declared relations. *)
From Coq Require Import List Bool ZArith Lia.
Import ListNotations.
From V Require Import PyBase NxModel Engine_gen.
Open Scope py_scope.

Lemma for_each_pure {X V} (f : V -> X -> V) (body : X -> V -> res (loop_step unit V)) l :
  (forall x a, body x a = ret (LContinue (f a x))) ->
  forall a, for_each l a body = Ok (LoopDone (fold_left f l a)).
Proof.
  intro H. induction l as [|x l IH]; intro a; [reflexivity|]. simpl. rewrite H. cbn [ret]. apply IH.
Qed.

Lemma fold_tt3 {W G N X} (f : W * G * N -> X -> W * G * N) l : forall a,
  fold_left (fun (acc : W * G * N * unit) x =>
               let '(w0, g0, ne0, _) := acc in let '(w1, g1, ne1) := f (w0, g0, ne0) x in (w1, g1, ne1, tt)) l (a, tt)
  = (fold_left f l a, tt).
Proof.
  induction l as [|x l IH]; intros [[w g] n]; [reflexivity|]. cbn [fold_left].
  destruct (f (w, g, n) x) as [[w1 g1] n1]. apply IH.
Qed.

Section GraphBridge.
  Context {T D St L F : Type} (X : ctx T D St L F).
  Notation relation := (relation T D St).
  Notation graph := (graph T D St).

  Definition style_of (r : relation) : style := if inferential r then Dashed else Solid.
  Notation bg_state := (list (warning T) * graph * list (T * T))%type.

  (* what one declared relation does to the graph under construction *)
  Definition bg_step (nodes : list T) (acc : bg_state) (r : relation) : bg_state :=
    let '(w, g, ne) := acc in
    if negb (memb (T_eqb X) (related_type r) nodes)
    then (w ++ [Warn 3 [related_type r; type_ r; related_type r]], g, ne)
    else let g' := g_add_edge (T_eqb X) g (related_type r) (type_ r) (mkEA r (style_of r)) in
         if negb (inferential r) then (w, g', ne ++ [(related_type r, type_ r)]) else (w, g', ne).

  Definition bg_loops (nodes : list T) (w : list (warning T)) : bg_state :=
    fold_left (fun acc node => fold_left (bg_step nodes) (relations X node) acc) nodes
              (w, g_add_nodes_from (T_eqb X) g_empty nodes, []).

  Theorem build_graph_eq nodes w :
    build_graph X nodes w =
    (let '(w1, g1, ne) := bg_loops nodes w in
     '(_, g2, w2) <- check_graph_constraints X g1 w1 ;;
     ret ((g2, g_edge_subgraph (T_eqb X) g2 ne), w2)).
  Proof.
    unfold build_graph, bg_loops. cbn zeta.
    rewrite (for_each_pure (fun (acc : list (warning T) * graph * list (T * T) * unit) node =>
               let '(w0, g0, ne0, _) := acc in
               let '(w1, g1, ne1) := (fun a n => fold_left (bg_step nodes) (relations X n) a) (w0, g0, ne0) node in (w1, g1, ne1, tt))).
    - cbn [bind ret]. rewrite (fold_tt3 (fun a n => fold_left (bg_step nodes) (relations X n) a)).
      assert (H : forall t : list (warning T) * graph * list (T * T),
                 match (t, tt) with (w1, g1, ne1, _) =>
                   '(_, g2, w2) <- check_graph_constraints X g1 w1 ;; ret ((g2, g_edge_subgraph (T_eqb X) g2 ne1), w2) end
                 = (let '(w1, g1, ne1) := t in '(_, g2, w2) <- check_graph_constraints X g1 w1 ;; ret ((g2, g_edge_subgraph (T_eqb X) g2 ne1), w2))).
      { intros [[w1 g1] ne1]. destruct (check_graph_constraints X g1 w1) as [[[u g2] w2]|e]; reflexivity. }
      apply H.
    - intros node [[[w0 g0] ne0] []].
      rewrite (for_each_pure (fun (acc : list (warning T) * graph * list (T * T) * unit) r =>
                 let '(w1, g1, ne1, _) := acc in let '(a, b, c) := bg_step nodes (w1, g1, ne1) r in (a, b, c, tt))).
      + cbn [bind ret]. rewrite (fold_tt3 (bg_step nodes)). cbv beta.
        assert (H : forall t : list (warning T) * graph * list (T * T),
                   (let '(a, b, c) := t in ret (LContinue (R:=unit) (a, b, c, tt))) = ret (LContinue (let '(a, b, c) := t in (a, b, c, tt))))
          by (intros [[? ?] ?]; reflexivity).
        apply H.
      + intros r [[[w1 g1] ne1] []]. unfold bg_step, style_of.
        destruct (negb (memb (T_eqb X) (related_type r) nodes)); [reflexivity|].
        destruct (inferential r); reflexivity.
  Qed.
End GraphBridge.
