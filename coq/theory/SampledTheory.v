(* C18: what a returned (data, path) pair of the sampled traversal is guaranteed to be. *)
From Coq Require Import List Bool ZArith Lia.
Import ListNotations.
From V Require Import PyBase NxModel WalkSpec Engine_gen Engine_bridge Sampled_bridge EngineTheory.
Open Scope py_scope.

Section SampledTheory.
  Context {T D St L F : Type} (X : ctx T D St L F).
  Variable g : graph T D St.

  (* [follows from d hops dout]: walking from [from] along [hops], every relation accepted the
     data as it was at that point (under the state the engine had then) and [dout] is the result
     of applying exactly these transformers, in this order. *)
  Inductive follows : T -> D -> list T -> D -> Prop :=
  | fol_nil t d : follows t d [] d
  | fol_cons from to ea d st st1 d' st2 hops dout :
      g_edge (T_eqb X) g from to = Ok ea ->
      relationship (ea_relationship ea) d st = Ok (true, st1) ->
      transformer (ea_relationship ea) d st1 = Ok (d', st2) ->
      follows to d' hops dout ->
      follows from d (to :: hops) dout.

  Lemma replay_follows todo : forall from d st done d' p st' fin,
    replay X g from d st todo done = Ok (d', p, st', fin) ->
    exists hops, p = done ++ hops /\ follows from d hops d' /\ (exists rest, todo = hops ++ rest).
  Proof.
    induction todo as [|to todo IH]; intros from d st done d' p st' fin H; cbn [replay] in H.
    - inversion H; subst. exists []. rewrite app_nil_r. repeat split; [constructor | exists []; reflexivity].
    - destruct (g_edge (T_eqb X) g from to) as [ea|e] eqn:GE; cbn [bind ret] in H; [|discriminate].
      destruct (relationship (ea_relationship ea) d st) as [[b st1]|e] eqn:RG; cbn [bind ret] in H; [|discriminate].
      destruct b; cbn [negb] in H.
      + destruct (transformer (ea_relationship ea) d st1) as [[d1 st2]|e] eqn:TR; cbn [bind ret] in H; [|discriminate].
        apply IH in H. destruct H as [hops [-> [Hf [rest ->]]]].
        exists (to :: hops). repeat split.
        * rewrite <- app_assoc. reflexivity.
        * econstructor; eauto.
        * exists rest. reflexivity.
      + inversion H; subst. exists []. rewrite app_nil_r. repeat split; [constructor | exists (to :: todo); reflexivity].
  Qed.

  Lemma walks_follows t d st path out :
    walks (succ_of X g) t d st path out ->
    exists hops, snd (fst out) = path ++ t :: hops /\ follows t d hops (fst (fst out)).
  Proof.
    induction 1 as [t d st path es st1 Sc R | t d st path es pre e post st1 st2 d' st3 out Sc E R G Tr W IH].
    - exists []. split; [reflexivity | constructor].
    - unfold succ_of in Sc. destruct (g_successors (T_eqb X) g t) as [ns|x]; cbn [bind ret] in Sc; [|discriminate].
      inversion Sc as [Ees]. rewrite <- Ees in E. clear Sc Ees.
      apply map_eq_app in E. destruct E as [ns1 [ns2 [-> [<- E2]]]].
      apply map_eq_cons in E2. destruct E2 as [v [ns3 [-> [<- <-]]]].
      unfold edge_of in G, Tr, IH; cbn [e_guard e_trans e_dst] in G, Tr, IH.
      destruct (g_edge (T_eqb X) g t v) as [ea|x] eqn:GE; cbn [bind ret] in G, Tr; [|discriminate].
      destruct IH as [hops [Hp Hf]]. exists (v :: hops). split.
      + rewrite Hp, <- app_assoc. reflexivity.
      + econstructor; eauto.
  Qed.

  Lemma py_index_0 (t : T) l : py_index (t :: l) 0 = Ok t.
  Proof.
    unfold py_index. cbn [length]. rewrite Nat2Z.inj_succ.
    destruct (Z.ltb_spec 0 0); [lia|].
    destruct (Z.ltb_spec 0 0); [lia|]. destruct (Z.leb_spec (Z.succ (Z.of_nat (length l))) 0); [lia|]. reflexivity.
  Qed.

  Lemma py_slice_tail (t : T) l : py_slice (t :: l) (Some 1%Z) None = l.
  Proof.
    unfold py_slice, py_clip. cbn [length]. rewrite Nat2Z.inj_succ.
    destruct (Z.ltb_spec 1 0); [lia|]. destruct (Z.ltb_spec 1 0); [lia|].
    destruct (Z.ltb_spec (Z.succ (Z.of_nat (length l))) 1).
    - assert (length l = 0)%nat by lia. destruct l; [reflexivity | simpl in *; lia].
    - replace (Z.to_nat (Z.succ (Z.of_nat (length l)) - 1)) with (length l) by lia.
      change (Z.to_nat 1) with 1%nat. cbn [skipn]. apply firstn_all.
  Qed.

  Lemma py_len_1 (t : T) l : Z.eqb (py_len (t :: l)) 1 = true -> l = [].
  Proof.
    unfold py_len. cbn [length]. rewrite Nat2Z.inj_succ. intro H. apply Z.eqb_eq in H.
    destruct l; [reflexivity | simpl in H; lia].
  Qed.

  (* Soundness of the sampled traversal, for EVERY sampler (seq_sample is an arbitrary function
     of the context, so every random draw is covered), sample size and series. *)
  Theorem sampled_sound fuel t d k ost dout p st' :
    sampled_spec X fuel t d g k ost = Ok (dout, p, st') ->
    exists hops, p = t :: hops /\ follows t d hops dout.
  Proof.
    unfold sampled_spec.
    set (st := match ost with Some s => s | None => empty_state X tt end).
    destruct (orb (Z.ltb (seq_len X d) 1000) (Z.gtb k (seq_len X d))).
    - intro H. apply walk_walks in H. apply walks_follows in H. exact H.
    - destruct (walk (succ_of X g) fuel t (seq_sample X d k) st []) as [[[a path] st1]|e] eqn:W; cbn [bind ret]; [|discriminate].
      apply walk_walks in W. apply walks_follows in W. destruct W as [hs [Hp _]]. cbn [fst snd app] in Hp. subst path.
      destruct (Z.eqb (py_len (t :: hs)) 1) eqn:L1.
      + intro H; inversion H; subst. apply py_len_1 in L1. subst hs. exists []. split; [reflexivity | constructor].
      + rewrite py_index_0, py_slice_tail. cbn [bind ret].
        destruct (replay X g t d st1 hs [t]) as [[[[d' p'] st''] fin]|e] eqn:R; cbn [bind ret]; [|discriminate].
        intro H; inversion H; subst. apply replay_follows in R. destruct R as [hops [-> [Hf _]]].
        exists hops. split; [reflexivity | exact Hf].
  Qed.

  (* below 1000 rows, or when the sample would be larger than the data, it IS full traversal *)
  Theorem sampled_small_is_full fuel t d k ost :
    orb (Z.ltb (seq_len X d) 1000) (Z.gtb k (seq_len X d)) = true ->
    sampled_spec X fuel t d g k ost =
    walk (succ_of X g) fuel t d (match ost with Some s => s | None => empty_state X tt end) [].
  Proof. unfold sampled_spec. intros ->. reflexivity. Qed.

  (* if every transformer lands in its target type, the returned data belongs to the last type *)
  Variable cont : T -> D -> bool.
  Hypothesis lands : forall from to ea d st st1 d' st2,
    g_edge (T_eqb X) g from to = Ok ea ->
    relationship (ea_relationship ea) d st = Ok (true, st1) ->
    transformer (ea_relationship ea) d st1 = Ok (d', st2) -> cont to d' = true.

  Lemma follows_lands from d hops dout :
    follows from d hops dout -> cont from d = true -> cont (last hops from) dout = true.
  Proof.
    induction 1 as [t d | from to ea d st st1 d' st2 hops dout GE RG TR Hf IH]; intro Hc; [exact Hc|].
    specialize (IH (lands _ _ _ _ _ _ _ _ GE RG TR)).
    rewrite last_cons. exact IH.
  Qed.
End SampledTheory.
