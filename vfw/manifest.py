"""Writes /verif/MANIFEST.json from the table below (run: /venv/bin/python -m vfw.manifest)."""
import json
import os

V = os.path.dirname(os.path.dirname(os.path.abspath(__file__)))
PROPS = [json.loads(l)["id"] for l in open(os.path.join(V, "properties.jsonl"))]

TB_COMMON = ("Trusted: Coq 8.16.1 kernel (vm_compute, no native_compute), no axioms (Print Assumptions: closed under the global "
             "context), the translator vfw/py2coq.py + module drivers, the hand-written library models in coq/lib (each checked "
             "against the installed library on every run), extraction via ExtrOcamlBasic only + conv.ml/driver_*.ml, the Python harness. ")

CHECKS = {
    "C20": dict(
        text=("Machine-checked proof (Coq) about the model of utils/cache.py that is REGENERATED from the source by the translator on every "
              "run: for every key type, capacity >= 1, wrapped function and EVERY call history (induction, no bound) the generated closure is "
              "transparent, bounded, keeps exactly the cap most recently used keys in LRU order and consults the wrapped function only at "
              "misses. The tie is checked two ways: re-translation + bridge lemma gen = spec, and differential runs of the extracted model "
              "against the real lru_cache on all histories over 4 keys up to length 6 (quick) / 8 (thorough) for capacities 1..3 plus random long ones."),
        ref="DESIGN.md section 6 (C20)",
        note=TB_COMMON + "Hypotheses of the theorem: hash_func total and not conflating calls with different results, max_length >= 1, wrapped function returns. Not modelled: mutable_pseudo_hash, cache state after an exception, threads.",
        technique="Coq proof by induction over call histories (refinement to an abstract LRU) on a model translated from source each run; bridge lemma + extracted-model differential test as the tie",
    ),
}


def main():
    checks = []
    for pid in PROPS:
        if pid not in CHECKS:
            continue
        c = CHECKS[pid]
        checks.append({
            "property_id": pid,
            "quick_cmd": f"bin/check {pid} --tier quick",
            "thorough_cmd": f"bin/check {pid} --tier thorough",
            "evidence_file": f"/verif/evidence/{pid}.json",
            "replay_cmd_template": f"bin/check {pid} --replay {{path}}",
            "engine": "coq-translate-correspond",
            "level_claimed": {"category": c.get("category", "proof"), "text": c["text"], "design_ref": c["ref"]},
            "level_note": c["note"],
            "technique": c["technique"],
        })
    m = {
        "version": 1,
        "setup_cmd": "cd /verif && bin/setup",
        "hooks": {
            "guard": "VISIONS_VERIF",
            "enable": "no hooks are needed: every observation point is reachable from outside (DESIGN.md 4.6); checks import /repo/src through PYTHONPATH",
            "baseline_off_cmd": "cd /repo && /venv/bin/python -m pytest -ra -q -p no:cacheprovider --timeout=900 --continue-on-collection-errors",
            "source_commits": [],
            "add_only": True,
        },
        "engines": [{
            "name": "coq-translate-correspond", "path": "/verif/vfw",
            "serves_properties": sorted(CHECKS),
            "kind_free_text": "Python-ast -> Gallina translator (vfw/py2coq.py + gen_*.py), Coq development in /verif/coq (gen regenerated per run, bridge/theory/props proofs), extracted OCaml runners for differential correspondence against the implementation, Python-side property oracles for counter-example search",
        }],
        "checks": checks,
        "notes": "bin/check <id> --tier quick|thorough; --replay <file> re-runs a recorded failing input against the current /repo.",
        "not_applicable": [{"property_id": p, "reason": "check not built yet (build in progress, DESIGN.md section 10)"} for p in PROPS if p not in CHECKS],
    }
    json.dump(m, open(os.path.join(V, "MANIFEST.json"), "w"), indent=1)


if __name__ == "__main__":
    main()
