(* PythonDetect: C01 end to end in the model for the Python-list backend.  The engine (generated from typeset.py), the
   constructor theorem (GraphWF), the relation table (generated from types/*.py) and the Python-list membership predicates
   (generated from backends/python/types/*.py) composed: for EVERY abstract list, EVERY closed set of shipped types in ANY
   supply order, and ANY guards/transformers on the inference relations, detect returns the list itself with a path from
   Generic along identity relations on which every type's generated contains_op holds, ending in a type none of whose
   identity children in the typeset contains the list. *)
From Coq Require Import List Bool ZArith Lia Permutation Arith.
Import ListNotations.
From V Require Import PyBase NxModel NxFacts Values Engine_gen Shipped_gen ShippedFacts PyValues PythonContains_gen
     Graph_bridge GraphWF AlgebraTheory ShippedGraph DetectWF.
Open Scope py_scope.

Definition pcont (t : ty) (d : pseq) : bool := python_contains t d.

Section PythonDetect.
  (* set iteration order; guards and transformers of inference (and explicitly guarded) relations: arbitrary *)
  Variable si : list ty -> list ty.
  Hypothesis Hsi : forall l, NoDup l -> Permutation (si l) l.
  Variable oguard : ty -> ty -> pseq -> unit -> res (bool * unit).
  Variable otrans : ty -> ty -> pseq -> unit -> res (pseq * unit).

  Definition prel (t : ty) (d : ty * bool * bool * bool) : relation ty pseq unit :=
    let '(r, inf, er, et) := d in
    mkRel r t inf
      (if orb inf er then oguard r t else fun s st => Ok (pcont t s, st))      (* default guard: the declaring type's contains_op *)
      (if orb inf et then otrans r t else fun s st => Ok (s, st)).             (* default transformer: identity *)

  Definition python_ctx : ctx ty pseq unit unit unit :=
    mkCtx ty_eqb (fun _ _ => true) (fun t => map (prel t) (declared t)) (fun t s st => Ok (pcont t s, st))
          (fun t => ty_eqb t tGeneric) tGeneric si (fun _ => tt) (fun s => Z.of_nat (length s)) (fun d _ => d)
          (fun _ => []) (fun _ _ => Raise KeyError) (fun _ => tt) (fun l => l)
          (fun _ _ => Raise KeyError) (fun t => Z.of_nat (ty_name t)) (fun _ _ => 0%Z).

  Lemma prel_related t d : related_type (prel t d) = related d.
  Proof. destruct d as [[[r i] a] b]. reflexivity. Qed.
  Lemma prel_inferential t d : inferential (prel t d) = negb (is_identity d).
  Proof. destruct d as [[[r i] a] b]. simpl. destruct i; reflexivity. Qed.
  Lemma prel_type t d : type_ (prel t d) = t.
  Proof. destruct d as [[[r i] a] b]. reflexivity. Qed.

  Lemma python_table_ok : table_ok python_ctx rk.
  Proof.
    apply (any_table_ok python_ctx prel); try reflexivity; try exact Hsi.
    - exact prel_related. - exact prel_inferential. - exact prel_type.
  Qed.

  Lemma python_closed S : In tGeneric S -> parent_closed S = true -> closed python_ctx S.
  Proof.
    apply (any_closed python_ctx prel); try reflexivity.
    - exact prel_related. - exact prel_inferential.
  Qed.

  (* T5 of the table: no shipped identity relation passes an explicit relationship or transformer *)
  Lemma python_identity_defaults t r : In r (relations python_ctx t) -> inferential r = false ->
    (forall d st, relationship r d st = Ok (pcont t d, st)) /\ (forall d st, transformer r d st = Ok (d, st)).
  Proof.
    simpl. intros Hr Hinf. apply in_map_iff in Hr. destruct Hr as [[[[rt i] er] et] [E Hd]]. subst r. simpl in Hinf. subst i.
    destruct shipped_table_facts as [_ [_ [_ [_ [H5 _]]]]]. unfold T5_identity_defaults in H5. rewrite forallb_forall in H5.
    specialize (H5 t (all_types_complete t)). rewrite forallb_forall in H5. specialize (H5 _ Hd). simpl in H5.
    apply andb_true_iff in H5. destruct H5 as [A B]. apply negb_true_iff in A. apply negb_true_iff in B. subst er et.
    simpl. split; reflexivity.
  Qed.

  Theorem python_detect_sound types w fuel (d : pseq) :
    In tGeneric types -> parent_closed types = true ->
    exists ts w', VT_init python_ctx (VT_blank python_ctx) types w = Ok (tt, ts, w') /\
      forall out ts', VT_detect python_ctx fuel ts d = Ok (out, ts') ->
      exists rest,
        out = (d, tGeneric :: rest, tt) /\
        Forall (fun v => python_contains v d = true) rest /\
        parent_chain python_ctx tGeneric rest /\ Forall (fun v => In v types) rest /\
        (forall v, In v types -> identity_parent_of python_ctx (last rest tGeneric) v -> python_contains v d = false).
  Proof.
    intros HG Hpc.
    destruct (detect_sound_for_constructed_typesets python_ctx rk python_table_ok pcont python_identity_defaults types w fuel d (python_closed types HG Hpc))
      as [ts [w' [E K]]].
    exists ts, w'. split; [exact E|]. intros out ts' Hd. destruct (K out ts' Hd) as [rest [A [B [C0 [D0 E0]]]]].
    exists rest. split; [exact A|]. split.
    - exact B.
    - split; [exact C0|]. split; [exact D0|]. exact E0.
  Qed.
End PythonDetect.
