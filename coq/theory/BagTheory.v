(* C11: the pandas membership predicates as functions of the BAG of values.
   [s ~ s'] : same dtype facts, values a permutation of each other (reordering the rows; index labels
   and the series name are not part of the abstract series at all - the predicates never look at
   them, which the correspondence checks on relabelled and renamed series).
   [rep s]  : the sequence repeated (k-fold self-concatenation, here k = 2, iterate for more). *)
From Coq Require Import List Bool ZArith Lia Permutation.
Import ListNotations.
From V Require Import PyBase Values Shipped_gen PandasContains_gen ContainsTheory.
Open Scope py_scope.

Definition bag_eq (s s' : series) : Prop := s_dtype s = s_dtype s' /\ Permutation (s_vals s) (s_vals s').
Definition rep (s : series) : series := mkS (s_dtype s) (s_vals s ++ s_vals s).

Lemma forallb_perm {A} (p : A -> bool) l l' : Permutation l l' -> forallb p l = forallb p l'.
Proof.
  induction 1; simpl; auto.
  - rewrite IHPermutation. reflexivity.
  - destruct (p x), (p y); reflexivity.
  - congruence.
Qed.

Lemma existsb_perm {A} (p : A -> bool) l l' : Permutation l l' -> existsb p l = existsb p l'.
Proof.
  induction 1; simpl; auto.
  - rewrite IHPermutation. reflexivity.
  - destruct (p x), (p y); reflexivity.
  - congruence.
Qed.

Lemma filter_perm {A} (p : A -> bool) l l' : Permutation l l' -> Permutation (filter p l) (filter p l').
Proof.
  induction 1; simpl.
  - constructor.
  - destruct (p x); [constructor|]; assumption.
  - destruct (p x), (p y); try apply perm_swap; try apply Permutation_refl.
  - eapply Permutation_trans; eauto.
Qed.

Lemma perm_nil_iff {A} (l l' : list A) : Permutation l l' -> (match l with [] => true | _ => false end) = (match l' with [] => true | _ => false end).
Proof.
  intro P. destruct l, l'; try reflexivity.
  - apply Permutation_nil in P. discriminate.
  - apply Permutation_sym, Permutation_nil in P. discriminate.
Qed.

Lemma norm_bag s s' : bag_eq s s' -> bag_eq (norm s) (norm s').
Proof.
  intros [Hd Hp]. unfold norm, s_hasnans. rewrite (existsb_perm _ _ _ Hp).
  destruct (existsb is_null (s_vals s')); [|split; assumption].
  unfold s_dropna. split; simpl; [exact Hd | apply filter_perm; exact Hp].
Qed.

Lemma empty_bag s s' : bag_eq s s' -> s_empty s = s_empty s'.
Proof. intros [_ Hp]. unfold s_empty. apply perm_nil_iff. exact Hp. Qed.

(* a predicate body that only depends on the bag *)
Definition bag_fun (f : series -> unit -> res bool) : Prop := forall s s', bag_eq s s' -> f s tt = f s' tt.

Lemma std_bag f : bag_fun f -> forall s s', bag_eq s s' -> std f s = std f s'.
Proof.
  intros Hf s s' H. unfold std. pose proof (norm_bag _ _ H) as Hn.
  rewrite (empty_bag _ _ Hn). destruct (s_empty (norm s')); [reflexivity | apply Hf; exact Hn].
Qed.

Lemma plain_bag f : bag_fun f -> forall s s', bag_eq s s' ->
  (if s_empty s then Ok false else f s tt) = (if s_empty s' then Ok false else f s' tt).
Proof. intros Hf s s' H. rewrite (empty_bag _ _ H). destruct (s_empty s'); [reflexivity | apply Hf; exact H]. Qed.

Ltac dtype_only := intros s s' [Hd Hp]; cbv beta delta [
  boolean_contains_body categorical_contains_body complex_contains_body count_contains_body datetime_contains_body
  float_contains_body integer_contains_body numeric_contains_op_body object_contains_body ordinal_contains_body
  sparse_contains_body time_delta_contains_body s_cat_ordered]; rewrite Hd; reflexivity.

Lemma bag_boolean : bag_fun boolean_contains_body. Proof. dtype_only. Qed.
Lemma bag_categorical : bag_fun categorical_contains_body. Proof. dtype_only. Qed.
Lemma bag_complex : bag_fun complex_contains_body. Proof. dtype_only. Qed.
Lemma bag_count : bag_fun count_contains_body. Proof. dtype_only. Qed.
Lemma bag_datetime : bag_fun datetime_contains_body. Proof. dtype_only. Qed.
Lemma bag_float : bag_fun float_contains_body. Proof. dtype_only. Qed.
Lemma bag_integer : bag_fun integer_contains_body. Proof. dtype_only. Qed.
Lemma bag_numeric : bag_fun numeric_contains_op_body. Proof. dtype_only. Qed.
Lemma bag_object : bag_fun object_contains_body. Proof. dtype_only. Qed.
Lemma bag_ordinal : bag_fun ordinal_contains_body. Proof. dtype_only. Qed.
Lemma bag_sparse : bag_fun sparse_contains_body. Proof. dtype_only. Qed.
Lemma bag_timedelta : bag_fun time_delta_contains_body. Proof. dtype_only. Qed.

Ltac all_values body := intros s s' [Hd Hp]; unfold body; rewrite !bind_ret_eta, !py_all_pure;
  rewrite (forallb_perm _ _ _ Hp); reflexivity.

Lemma bag_file : bag_fun file_contains_body. Proof. all_values file_contains_body. Qed.
Lemma bag_image : bag_fun image_contains_body. Proof. all_values image_contains_body. Qed.
Lemma bag_path : bag_fun path_contains_body. Proof. all_values path_contains_body. Qed.
Lemma bag_geometry : bag_fun geometry_contains_body. Proof. all_values geometry_contains_body. Qed.
Lemma bag_ip : bag_fun ip_address_contains_body. Proof. all_values ip_address_contains_body. Qed.

(* the eighteen shipped types whose membership does not inspect a prefix of the rows *)
Definition prefix_free (t : ty) : bool :=
  match t with
  | tDate | tTime | tURL | tUUID | tEmailAddress | tString => false
  | _ => true
  end.

Theorem contains_is_a_function_of_the_bag t s s' :
  prefix_free t = true -> bag_eq s s' -> pandas_contains t s = pandas_contains t s'.
Proof.
  intros Ht H. destruct t; try discriminate; cbv beta iota delta [pandas_contains]; try reflexivity.
  - unfold pandas_Boolean_contains. rewrite !not_sparse_id, !hn_ne_std. apply std_bag; [exact bag_boolean | exact H].
  - unfold pandas_Categorical_contains. rewrite !not_sparse_id, !ne_plain. apply plain_bag; [exact bag_categorical | exact H].
  - unfold pandas_Complex_contains. rewrite !not_sparse_id, !ne_plain. apply plain_bag; [exact bag_complex | exact H].
  - unfold pandas_Count_contains. rewrite !not_sparse_id, !ne_plain. apply plain_bag; [exact bag_count | exact H].
  - unfold pandas_DateTime_contains. rewrite !not_sparse_id, !hn_ne_std. apply std_bag; [exact bag_datetime | exact H].
  - unfold pandas_File_contains. rewrite !ne_hn_std. apply std_bag; [exact bag_file | exact H].
  - unfold pandas_Float_contains. rewrite !not_sparse_id, !hn_ne_std. apply std_bag; [exact bag_float | exact H].
  - unfold pandas_Geometry_contains. rewrite !ne_hn_std. apply std_bag; [exact bag_geometry | exact H].
  - unfold pandas_IPAddress_contains. rewrite !ne_hn_std. apply std_bag; [exact bag_ip | exact H].
  - unfold pandas_Image_contains. rewrite !ne_hn_std. apply std_bag; [exact bag_image | exact H].
  - unfold pandas_Integer_contains. rewrite !not_sparse_id, !ne_plain. apply plain_bag; [exact bag_integer | exact H].
  - unfold pandas_Numeric_contains. rewrite !not_sparse_id, !ne_plain. apply plain_bag; [exact bag_numeric | exact H].
  - unfold pandas_Object_contains. rewrite !not_sparse_id, !hn_ne_std. apply std_bag; [exact bag_object | exact H].
  - unfold pandas_Ordinal_contains. rewrite !ne_plain. apply plain_bag; [exact bag_ordinal | exact H].
  - unfold pandas_Path_contains. rewrite !ne_hn_std. apply std_bag; [exact bag_path | exact H].
  - unfold pandas_Sparse_contains. apply bag_sparse. exact H.
  - unfold pandas_TimeDelta_contains. rewrite !not_sparse_id, !ne_plain. apply plain_bag; [exact bag_timedelta | exact H].
Qed.

(* ---- repetition: the same theorem for k-fold self-concatenation (k = 2; iterate) *)
Lemma forallb_rep {A} (p : A -> bool) l : forallb p (l ++ l) = forallb p l.
Proof. rewrite forallb_app. destruct (forallb p l); reflexivity. Qed.
Lemma existsb_rep {A} (p : A -> bool) l : existsb p (l ++ l) = existsb p l.
Proof. rewrite existsb_app. destruct (existsb p l); reflexivity. Qed.

Definition rep_fun (f : series -> unit -> res bool) : Prop := forall s, f (rep s) tt = f s tt.

Lemma norm_rep s : norm (rep s) = rep (norm s).
Proof.
  unfold norm, rep, s_hasnans, s_dropna. simpl. rewrite existsb_rep.
  destruct (existsb is_null (s_vals s)); [|reflexivity]. simpl. rewrite filter_app. reflexivity.
Qed.
Lemma empty_rep s : s_empty (rep s) = s_empty s.
Proof. unfold s_empty, rep. simpl. destruct (s_vals s); reflexivity. Qed.

Lemma std_rep f : rep_fun f -> forall s, std f (rep s) = std f s.
Proof. intros Hf s. unfold std. rewrite norm_rep, empty_rep. destruct (s_empty (norm s)); [reflexivity | apply Hf]. Qed.
Lemma plain_rep f : rep_fun f -> forall s,
  (if s_empty (rep s) then Ok false else f (rep s) tt) = (if s_empty s then Ok false else f s tt).
Proof. intros Hf s. rewrite empty_rep. destruct (s_empty s); [reflexivity | apply Hf]. Qed.

Ltac dtype_only_rep := let x := fresh "x" in intro x; reflexivity.
Ltac all_values_rep body := let x := fresh "x" in intro x; unfold body, rep; cbn [s_vals]; rewrite !bind_ret_eta, !py_all_pure, forallb_rep; reflexivity.

Theorem contains_invariant_under_repetition t s :
  prefix_free t = true -> pandas_contains t (rep s) = pandas_contains t s.
Proof.
  intros Ht. destruct t; try discriminate; cbv beta iota delta [pandas_contains]; try reflexivity.
  - unfold pandas_Boolean_contains. rewrite !not_sparse_id, !hn_ne_std. apply std_rep. dtype_only_rep.
  - unfold pandas_Categorical_contains. rewrite !not_sparse_id, !ne_plain. apply plain_rep. dtype_only_rep.
  - unfold pandas_Complex_contains. rewrite !not_sparse_id, !ne_plain. apply plain_rep. dtype_only_rep.
  - unfold pandas_Count_contains. rewrite !not_sparse_id, !ne_plain. apply plain_rep. dtype_only_rep.
  - unfold pandas_DateTime_contains. rewrite !not_sparse_id, !hn_ne_std. apply std_rep. dtype_only_rep.
  - unfold pandas_File_contains. rewrite !ne_hn_std. apply std_rep. all_values_rep file_contains_body.
  - unfold pandas_Float_contains. rewrite !not_sparse_id, !hn_ne_std. apply std_rep. dtype_only_rep.
  - unfold pandas_Geometry_contains. rewrite !ne_hn_std. apply std_rep. all_values_rep geometry_contains_body.
  - unfold pandas_IPAddress_contains. rewrite !ne_hn_std. apply std_rep. all_values_rep ip_address_contains_body.
  - unfold pandas_Image_contains. rewrite !ne_hn_std. apply std_rep. all_values_rep image_contains_body.
  - unfold pandas_Integer_contains. rewrite !not_sparse_id, !ne_plain. apply plain_rep. dtype_only_rep.
  - unfold pandas_Numeric_contains. rewrite !not_sparse_id, !ne_plain. apply plain_rep. dtype_only_rep.
  - unfold pandas_Object_contains. rewrite !not_sparse_id, !hn_ne_std. apply std_rep. dtype_only_rep.
  - unfold pandas_Ordinal_contains. rewrite !ne_plain. apply plain_rep. dtype_only_rep.
  - unfold pandas_Path_contains. rewrite !ne_hn_std. apply std_rep. all_values_rep path_contains_body.
  - unfold pandas_TimeDelta_contains. rewrite !not_sparse_id, !ne_plain. apply plain_rep. dtype_only_rep.
Qed.
