(* C09 / C07 at the level of the regenerated pandas membership predicates: they never raise, and an
   empty sequence belongs to no type but Generic (and Sparse, which no shipped typeset contains). *)
From Coq Require Import List Bool ZArith Lia.
Import ListNotations.
From V Require Import PyBase Values Shipped_gen PandasContains_gen ContainsTheory.
Open Scope py_scope.

(* a categorical dtype has the .cat accessor (measured on every abstracted series) *)
Definition cat_ok (d : dfacts) : bool :=
  implb (is_categorical d) (match cat_ordered d with Some _ => true | None => false end).

Definition total (r : res bool) : Prop := exists b, r = Ok b.

Lemma std_total f s : (forall s', total (f s' tt)) -> total (std f s).
Proof. intro H. unfold std. destruct (s_empty (norm s)); [exists false; reflexivity | apply H]. Qed.
Lemma plain_total f s : (forall s', total (f s' tt)) -> total (if s_empty s then Ok false else f s tt).
Proof. intro H. destruct (s_empty s); [exists false; reflexivity | apply H]. Qed.

Lemma py_all_pure_total {A} (p : A -> bool) l : total (v <- py_all (fun x => ret (p x)) l ;; ret v).
Proof. rewrite bind_ret_eta, py_all_pure. eexists; reflexivity. Qed.

Lemma py_all_ext {A} (f g : A -> res bool) l : (forall x, f x = g x) -> py_all f l = py_all g l.
Proof. intro H. induction l as [|x l IH]; [reflexivity|]. simpl. rewrite H, IH. reflexivity. Qed.

Lemma cia_total s (m : value -> cls -> bool) c attrs n :
  total (contains_instance_attrs s (fun x k => ret (m x k)) c attrs n).
Proof.
  unfold contains_instance_attrs.
  rewrite (py_all_ext _ (fun x => ret (m x c))) by (intro x; reflexivity).
  rewrite py_all_pure. cbn [bind]. destruct (negb _); [eexists; reflexivity|].
  rewrite (py_all_ext _ (fun x => ret (forallb (fun a => v_hasattr x a) attrs))).
  - rewrite py_all_pure. cbn. eexists; reflexivity.
  - intro x. rewrite bind_ret_eta, py_all_pure. reflexivity.
Qed.

Theorem contains_never_raises t s : cat_ok (s_dtype s) = true -> total (pandas_contains t s).
Proof.
  intro Hc. destruct t; cbv beta iota delta [pandas_contains]; try (eexists; reflexivity).
  - unfold pandas_Boolean_contains. rewrite not_sparse_id, hn_ne_std. apply std_total. intro; eexists; reflexivity.
  - unfold pandas_Categorical_contains. rewrite not_sparse_id, ne_plain. apply plain_total. intro; eexists; reflexivity.
  - unfold pandas_Complex_contains. rewrite not_sparse_id, ne_plain. apply plain_total. intro; eexists; reflexivity.
  - unfold pandas_Count_contains. rewrite not_sparse_id, ne_plain. apply plain_total. intro; eexists; reflexivity.
  - unfold pandas_Date_contains. rewrite hn_ne_std. apply std_total. intro s'. unfold date_contains_body, class_name_attrs. rewrite bind_ret_eta. apply cia_total.
  - unfold pandas_DateTime_contains. rewrite not_sparse_id, hn_ne_std. apply std_total. intro; eexists; reflexivity.
  - unfold pandas_EmailAddress_contains. rewrite ne_hn_std. apply std_total. intro s'. unfold email_address_contains_body, isinstance_attrs. rewrite bind_ret_eta. apply cia_total.
  - unfold pandas_File_contains. rewrite ne_hn_std. apply std_total. intro s'. apply py_all_pure_total.
  - unfold pandas_Float_contains. rewrite not_sparse_id, hn_ne_std. apply std_total. intro; eexists; reflexivity.
  - unfold pandas_Geometry_contains. rewrite ne_hn_std. apply std_total. intro s'. apply py_all_pure_total.
  - unfold pandas_IPAddress_contains. rewrite ne_hn_std. apply std_total. intro s'. apply py_all_pure_total.
  - unfold pandas_Image_contains. rewrite ne_hn_std. apply std_total. intro s'. apply py_all_pure_total.
  - unfold pandas_Integer_contains. rewrite not_sparse_id, ne_plain. apply plain_total. intro; eexists; reflexivity.
  - unfold pandas_Numeric_contains. rewrite not_sparse_id, ne_plain. apply plain_total. intro; eexists; reflexivity.
  - unfold pandas_Object_contains. rewrite not_sparse_id, hn_ne_std. apply std_total. intro s'. unfold object_contains_body.
    destruct (is_object (s_dtype s')); eexists; reflexivity.
  - unfold pandas_Ordinal_contains. rewrite ne_plain. destruct (s_empty s); [eexists; reflexivity|].
    unfold ordinal_contains_body, s_cat_ordered, cat_ok in *. rewrite bind_ret_eta.
    destruct (is_categorical (s_dtype s)); [|eexists; reflexivity]. simpl in Hc.
    destruct (cat_ordered (s_dtype s)); [eexists; reflexivity | discriminate].
  - unfold pandas_Path_contains. rewrite ne_hn_std. apply std_total. intro s'. apply py_all_pure_total.
  - unfold pandas_String_contains. rewrite not_sparse_id, hn_ne_std. apply std_total. intro s'. unfold string_contains_body.
    destruct (is_categorical (s_dtype s')); [eexists; reflexivity|].
    destruct (is_object (s_dtype s')); cbn [negb]; [|eexists; reflexivity].
    rewrite bind_ret_eta. unfold _is_string, series_handle_nulls. rewrite !bind_ret_eta.
    assert (Hb : forall x, total (is_string_body x tt)).
    { intro x. unfold is_string_body. rewrite py_all_pure. cbn [bind]. destruct (negb _); [eexists; reflexivity|].
      rewrite bind_ret_eta. unfold str_roundtrip_all. destruct (dtype_is_sparse _); [eexists; reflexivity|].
      destruct (existsb _ _); eexists; reflexivity. }
    destruct (s_hasnans s'); [destruct (s_empty (s_dropna s')); [eexists; reflexivity | apply Hb] | apply Hb].
  - unfold pandas_Time_contains. rewrite hn_ne_std. apply std_total. intro s'. unfold time_contains_body, class_name_attrs. rewrite bind_ret_eta. apply cia_total.
  - unfold pandas_TimeDelta_contains. rewrite not_sparse_id, ne_plain. apply plain_total. intro; eexists; reflexivity.
  - unfold pandas_URL_contains. rewrite hn_ne_std. apply std_total. intro s'. unfold url_contains_body, isinstance_attrs. rewrite bind_ret_eta. apply cia_total.
  - unfold pandas_UUID_contains. rewrite ne_hn_std. apply std_total. intro s'. unfold uuid_contains_body, isinstance_attrs. rewrite bind_ret_eta. apply cia_total.
Qed.

(* an empty column belongs to Generic only (Sparse has no emptiness test and is in no shipped typeset) *)
Theorem empty_is_only_generic t s :
  s_vals s = [] -> t <> tGeneric -> t <> tSparse -> pandas_contains t s = Ok false.
Proof.
  intros He Hg Hs. assert (E : s_empty s = true) by (unfold s_empty; rewrite He; reflexivity).
  assert (En : s_empty (norm s) = true) by (apply norm_empty_of_empty; exact E).
  destruct t; try contradiction; cbv beta iota delta [pandas_contains];
    unfold pandas_Boolean_contains, pandas_Categorical_contains, pandas_Complex_contains, pandas_Count_contains, pandas_Date_contains,
      pandas_DateTime_contains, pandas_EmailAddress_contains, pandas_File_contains, pandas_Float_contains, pandas_Geometry_contains,
      pandas_IPAddress_contains, pandas_Image_contains, pandas_Integer_contains, pandas_Numeric_contains, pandas_Object_contains,
      pandas_Ordinal_contains, pandas_Path_contains, pandas_String_contains, pandas_Time_contains, pandas_TimeDelta_contains,
      pandas_URL_contains, pandas_UUID_contains;
    rewrite ?not_sparse_id, ?hn_ne_std, ?ne_hn_std, ?ne_plain; unfold std; rewrite ?En, ?E; reflexivity.
Qed.

(* width- and nullability-agnostic recognition: the dtype-family predicate decides, for ANY dtype with
   that answer (any width, numpy or nullable) and any placement of missing values *)
Theorem integer_dtypes_are_Integer s : is_integer (s_dtype s) = true -> s_empty s = false -> In_type tInteger s.
Proof.
  intros Hi He. unfold In_type, pandas_contains, pandas_Integer_contains. rewrite not_sparse_id, ne_plain, He.
  unfold integer_contains_body. rewrite Hi. reflexivity.
Qed.
Theorem float_dtypes_are_Float s : is_float (s_dtype s) = true -> s_empty (norm s) = false -> In_type tFloat s.
Proof.
  intros Hi He. unfold In_type, pandas_contains, pandas_Float_contains. rewrite not_sparse_id, hn_ne_std. unfold std. rewrite He.
  unfold float_contains_body. rewrite norm_dtype, Hi. reflexivity.
Qed.
Theorem bool_dtypes_are_Boolean s :
  is_bool (s_dtype s) = true -> is_categorical (s_dtype s) = false -> s_empty (norm s) = false -> In_type tBoolean s.
Proof.
  intros Hi Hc He. unfold In_type, pandas_contains, pandas_Boolean_contains. rewrite not_sparse_id, hn_ne_std. unfold std. rewrite He.
  unfold boolean_contains_body. rewrite norm_dtype, Hi, Hc. reflexivity.
Qed.
Theorem datetime_dtypes_are_DateTime s : is_datetime64_any (s_dtype s) = true -> s_empty (norm s) = false -> In_type tDateTime s.
Proof.
  intros Hi He. unfold In_type, pandas_contains, pandas_DateTime_contains. rewrite not_sparse_id, hn_ne_std. unfold std. rewrite He.
  unfold datetime_contains_body. rewrite norm_dtype, Hi. reflexivity.
Qed.
