"""Writes /verif/MANIFEST.json from the table below (run: /venv/bin/python -m vfw.manifest)."""
import json
import os

V = os.path.dirname(os.path.dirname(os.path.abspath(__file__)))
PROPS = [json.loads(l)["id"] for l in open(os.path.join(V, "properties.jsonl"))]

TB_COMMON = ("Trusted: Coq 8.16.1 kernel (vm_compute, no native_compute), no axioms (Print Assumptions: closed under the global "
             "context), the translator vfw/py2coq.py + module drivers, the hand-written library models in coq/lib (each checked "
             "against the installed library on every run), extraction via ExtrOcamlBasic only + conv.ml/driver_*.ml, the Python harness. ")

CHECKS = {
    "C20": dict(
        text=("Machine-checked proof (Coq) about the model of utils/cache.py that is REGENERATED from the source by the translator on every "
              "run: for every key type, capacity >= 1, wrapped function and EVERY call history (induction, no bound) the generated closure is "
              "transparent, bounded, keeps exactly the cap most recently used keys in LRU order and consults the wrapped function only at "
              "misses. The tie is checked two ways: re-translation + bridge lemma gen = spec, and differential runs of the extracted model "
              "against the real lru_cache on all histories over 4 keys up to length 6 (quick) / 8 (thorough) for capacities 1..3 plus random long ones; the implementation is also run with wrapped functions returning None / 0 / '' / False (calls = reference misses) and with ONE mutable argument edited in place between calls."),
        ref="DESIGN.md section 3 (C20)",
        note=TB_COMMON + "Hypotheses of the theorem: hash_func total and not conflating calls with different results, max_length >= 1, wrapped function returns. Not modelled: mutable_pseudo_hash, cache state after an exception, threads.",
        technique="Coq proof by induction over call histories (refinement to an abstract LRU) on a model translated from source each run; bridge lemma + extracted-model differential test as the tie",
    ),
    "C12": dict(
        text=("Coq proof that the engine REGENERATED from typeset.py / relations.py / pandas/traversal.py / functional.py on every run (detect, infer, "
              "detect_type, infer_type, cast_*, DataFrame traversal) equals the reference walk of spec/WalkSpec.v for every type system, graph, data, "
              "guard/transformer behaviour (incl. raising and state-writing ones) - fresh state per call and per column, threaded through every guard "
              "and transformer - and that this functional walk coincides with the fuel-free relational reference semantics. Tie: re-translation + "
              "bridge lemmas, and differential runs of the generated engine (vm_compute) against real visions on hundreds of random user-defined type "
              "systems (class-based and create_type, per-class dispatch) over all inputs of their universes, incl. systems with cyclical relations (walks that revisit a type, RecursionError = out of fuel) and identity relations carrying their own transformer; an order-aware oracle predicts the exact state log from the real successor order."),
        ref="DESIGN.md section 3 (C12)",
        note=TB_COMMON + "Hand models validated by the correspondence: networkx DiGraph subset (NxModel.v), attr.evolve defaults of VisionsBaseTypeMeta.relations and multimethod dispatch (RunnerEngine.v). set iteration order is read from the interpreter. Fuel bounds recursion in the model.",
        technique="Coq proof (bridge: generated engine = reference walk; walk <-> relational semantics) on a model translated from source each run; random-type-system differential test as tie",
    ),
    "C01": dict(
        text=("Coq theorems in three layers. (1) Parametric in the type system, graph, successor order, data and state: if every identity edge is guarded by the child's "
              "contains_op (a function of the sequence alone) with the identity transformer, then what the GENERATED detect returns is the input itself with "
              "a path from the root along graph edges through types that all contain the sequence, ending in a type none of whose successors contains it. "
              "(2) No hypothesis on the graph (theory/DetectWF.v, on top of C14's constructor theorem): for any relation table with the table facts whose identity relations use the "
              "default guard and transformer, and any closed list of types, the generated constructor builds the typeset and detect's path runs from Generic along declared identity "
              "relations inside the typeset, every type on it contains the input, and no identity child of the last type that is in the typeset contains it. "
              "(3) End to end for the pandas backend (theory/PandasDetect.v): engine generated from typeset.py + relation table generated from types/*.py + membership predicates "
              "generated from backends/pandas/types/*.py, composed - for every abstract pandas series, every parent-closed list of shipped types in any order, any guards on the inference "
              "relations; the table fact 'identity relations carry no explicit guard/transformer' is decided by computation on the regenerated table. "
              "(4) The same composition for the Python-list backend (theory/PythonDetect.v) with the membership predicates generated from backends/python/types/*.py, for every abstract list. "
              "The conclusion is additionally exercised on the implementation for shipped typesets and random parent-closed sub-typesets on pandas / list / numpy inputs and frames, "
              "also after interleaved inference calls."),
        ref="DESIGN.md section 3 (C01)",
        note=TB_COMMON + "Layer 3 is about abstract series (dtype-predicate answers + value kinds, measured tables - see C16); numpy and list backends have no model (oracle only). Objects with adversarial __eq__/__class__ are outside the model.",
        technique="Coq proof: induction on reference walks, lifted to the generated detect by the bridge, composed with the constructor well-formedness theorem and the generated pandas membership predicates; Python-side soundness oracle for counter-example search",
    ),
    "C08": dict(
        text=("Coq proof about the GENERATED _traverse_graph_dataframe / VisionsTypeset.* / functional.*: for every frame with unique labels, type system and graph, "
              "the data, path and state components are label-for-label and in column order the results of an independent fresh traversal of each column; the "
              "functional wrappers equal the methods. pd.DataFrame(dict) is an uninterpreted re-assembly function; that it keeps equally-indexed columns is checked "
              "on the implementation by an oracle comparing frame results with per-column results (types, casts incl. dtype and index, sub-frames, comparison and report functions; >= 1000-row frames; the same frame object edited in place and typed again)."),
        ref="DESIGN.md section 3 (C08)",
        note=TB_COMMON + "pd.DataFrame(dict of Series), df.columns and df[col] are uninterpreted functions of the model (frame_of_dict, frame_columns, frame_getitem). Column labels are compared with a decidable equality assumed correct.",
        technique="Coq proof (bridge + list induction) that the generated DataFrame traversal is a map of independent per-column walks; DataFrame-vs-columns oracle on the implementation",
    ),
    "C18": dict(
        text=("Coq proof about the GENERATED traverse_graph_with_sampled_series for EVERY sampler (series.sample is an arbitrary function), sample size, graph and series: "
              "the returned path starts at the entry type, every relation on it accepted the full data as it was at that point and the returned data is the full data after "
              "exactly those transformers; hence it belongs to the last type when transformers land in their targets; below 1000 rows or with a sample larger than the data it "
              "equals full traversal. (The unchanged tree violated this - off-by-one after break, shared default state - repaired by two fix: commits.)"),
        ref="DESIGN.md section 3 (C18)",
        note=TB_COMMON + "series.shape[0] and series.sample are uninterpreted; membership of the result in the last type additionally needs C03 (transformers land in target).",
        technique="Coq proof (bridge to a replay spec + induction over the re-validated path) for an arbitrary sampler; oracle on >= 1000-row contaminated series for counter-example search",
    ),
    "C14": dict(
        text=("Coq theorem about the GENERATED VisionsTypeset.__init__/build_graph/check_isolates/check_cycles/find_root_node (theory/GraphWF.v, 121 Qed in the cone): for EVERY relation table "
              "with the table facts, EVERY list of types that contains Generic and is parent-closed, in EVERY supply order and EVERY iteration order of Python's set, construction does not raise, "
              "root = Generic, nodes = the given types, edges = exactly the relations declared on included types whose source is included (each carrying its relation object, dashed iff "
              "inferential), the identity graph is the solid part: no edge into Generic, exactly one parent for every other type, every type reachable from Generic; a rank strictly increases "
              "along every edge and the model's cycle check (Kahn) finds nothing; the only warnings are one per relation whose source is absent. The table facts (one identity parent, rank, "
              "one relation per (source,type), nesting of StandardSet/GeometrySet/CompleteSet) are decided by computation on the table REGENERATED from types/*.py on every run, and the "
              "theorem is instantiated with it (theory/ShippedGraph.v), so it covers all 1,180,800 parent-closed subsets x all orders at once. The generated loops are tied to their fold form "
              "by bridge/Graph_bridge.v. The same extracted constructor is compared with real visions on parent-closed subsets (all of them in the thorough tier, two supply orders each) "
              "for root, ordered nodes/edges, styles, types and warnings; an independent well-formedness oracle judges the implementation."),
        ref="DESIGN.md section 3 (C14)",
        note=TB_COMMON + "networkx is a hand model (coq/lib/NxModel.v: insertion-ordered node and adjacency dicts, add_edge, isolates, first topological source, edge_subgraph, Kahn for simple_cycles) validated by this correspondence; the node ORDER of the edge_subgraph view is not modelled (hash order in networkx; visions never depends on it). Python's set iteration order is an arbitrary permutation in the theorem and is read back from the interpreter in the correspondence.",
        technique="Coq proof by loop invariant over the generated constructor (all tables with the table facts, all parent-closed subsets, all orders) + computation on the regenerated shipped table + exhaustive differential enumeration against real visions",
        category="proof",
    ),
    "C13": dict(
        text=("Coq theorems about the GENERATED __add__/__sub__/__iadd__/__isub__/replace/_get_other_type and Type.__add__ (theory/AlgebraTheory.v on top of C14's well-formedness theorem): "
              "for EVERY relation table with the table facts and EVERY operands, whenever the resulting set of types is closed (contains Generic and every identity parent - the property's "
              "'parent-closed results'), the operation does not raise, the result's types are exactly the union / difference / substitution, its root is Generic and it is a well-formed "
              "typeset determined by that SET alone (same edges, styles and identity graph whatever the operands' order or history) - hence + is commutative, associative and idempotent, "
              "a - t + t restores the types; replace of an absent type raises KeyError; the in-place forms equal the pure ones; Type + Type builds {Generic, T, U}. The table facts are "
              "decided by computation on the table regenerated from types/*.py. Operations are pure functions of immutable operands in the model; that the implementation leaves its "
              "operands untouched is checked by snapshots. On the implementation: every (typeset, type) single step, typeset-typeset steps, all 26x26 Type + Type and random law instances "
              "are checked for result sets, untouched operands, warnings for dropped relations, root; generated algebra vs real results."),
        ref="DESIGN.md section 3 (C13)",
        note=TB_COMMON + "Operand non-mutation is by translation discipline (the translator rejects a store into an operand) + snapshots on the implementation; class objects ('all type classes untouched') are outside the model and are snapshot-checked only. The expression-depth quantifier (depth <= 4) is covered by the theorems compositionally (each step's result is again a typeset whose types are a set) and sampled on the implementation.",
        technique="Coq proof (set laws for the generated algebra via the constructor well-formedness theorem, all tables with the table facts) + exhaustive single-step oracle and differential test on the implementation",
    ),
    "C19": dict(
        text=("Coq proof about the GENERATED output_graph code: what is handed to pydot is a fresh graph whose nodes are the typeset graph's nodes re-inserted sorted by name and whose "
              "edges are its edges re-inserted sorted by (source, target) name with their own style; the method exports base_graph iff base_only; two graphs with the same node set and the same "
              "styled edge set export identically (sort is permutation-invariant for injective keys, proved). pydot/graphviz is an uninterpreted "
              "function of that ordered input. On the implementation: exports are parsed back and compared with the typeset's graphs, bytes compared across all supply orders for small "
              "typesets and sampled orders for larger ones; the DOT text handed to graphviz is compared, in order, with the generated model's."),
        ref="DESIGN.md section 3 (C19)",
        note=TB_COMMON + "Byte-identity across supply orders is a theorem without premises on the graphs for typesets built by the generated constructor (C19_constructed_typesets_export_identically: two closed lists holding the same types build typesets whose exports, full or base_only, are the same call of pydot; theory/ExportWF.v derives the permutation and NoDup premises from C14's well-formedness theorem) and, for arbitrary graphs, under permutation premises (C19_export_independent_of_supply_order: theory/SortTheory.v proves that the stable insertion sort used by the generated code is a function of the multiset when keys are injective; type names are distinct by computation on the regenerated table; C14_supply_order_is_irrelevant gives the permutation premises) under the assumption that pydot/graphviz is a deterministic function of the ordered node and edge lists it is handed - that function is not modelled, it is exercised by the byte comparison on the implementation.",
        technique="Coq proof (generated export = sorted copy; sorted copy is permutation-invariant) + parse-back oracle and byte comparison across supply orders",
    ),
    "C17": dict(
        text=("Coq proof over the Spark contains_ops and registration list REGENERATED from backends/spark/types/*.py, the generated engine and Spark traversal and the generated "
              "relation table: for EVERY Spark SQL type expression (induction-free case analysis over the type language incl. arbitrarily nested array/map/struct), column name and "
              "nullable flag, StandardSet, StandardSet+Date and CompleteSet type a column by the documented map (nearest included ancestor otherwise), from the schema alone - rows are "
              "not an input of the model; the frame handed back is the input frame. The pyspark class hierarchy is measured from the installed library. A local Spark session compares the "
              "model with the implementation for every constructor x typeset and checks rows/nullability/position/name independence and the job counter, and a fresh process importing visions before pyspark."),
        ref="DESIGN.md section 3 (C17)",
        note=TB_COMMON + "Measured (not verified): isinstance table of pyspark DataType classes. Hand model: relations/dispatch for Spark frames (props/C17.v spark_relations). Partial: 'no Spark job' is only observable dynamically (status tracker). Known finding F17b (dotted column names).",
        technique="Coq proof by case analysis over a Spark type language on generated contains_ops + engine; Spark-session differential test and property oracle",
    ),
    "C15": dict(
        text=("Coq proof in two layers. (1) For the reference walk (which the generated engine is proved to compute): if B's walk is exclusive (exactly the followed relation accepts at every "
              "node, guards leave the state alone) and A's successor lists are B's filtered to A's types, then A's walk follows B's path exactly while it stays in A and stops where B "
              "leaves A - detect_A is the deepest type of B's detection path in A, infer_A's path is a prefix of infer_B's. (2) That hypothesis is DERIVED (theory/GraphRefine.v, from C14's "
              "well-formedness theorem): for every relation table with the table facts and every two closed lists of types A <= B, in any supply and set-iteration orders, the generated "
              "constructor builds both typesets and their ACTUAL graphs refine - relation graphs (infer) and, when A has at least two types, identity graphs (detect) - because A's "
              "successor lists are B's filtered to A's types up to order and up to extensional equality of the stored relations (a simulation lemma for exclusive walks covers both). "
              "The shipped table satisfies the hypotheses by computation. On the implementation the same statement is checked for Standard<=Geometry<=Complete, random parent-closed "
              "pairs and pairs built by the typeset algebra (B = A + T..., A = B - T...) on all shared streams; inputs in recorded C02 overlap classes are excluded by the same classifiers."),
        ref="DESIGN.md section 3 (C15)",
        note=TB_COMMON + "Exclusivity of the shipped relations along a walk (the hypothesis [xwalks]) is a property of the guards (C02) and is decided on the implementation, not in Coq.",
        technique="Coq proof: refinement theorem by induction over exclusive walks + induced-subgraph link derived from the constructor's well-formedness theorem; typeset-pair oracle on the implementation",
    ),
    "C02": dict(
        text=("Coq proof for the reference walk: under exclusivity along the walk (exactly one outgoing relation accepts, guards do not touch the state) every permutation of the successor "
              "enumeration - the model of set/graph insertion order - yields the same data, path and state; a two-successor counterexample shows the hypothesis is needed. For typesets built "
              "by the GENERATED constructor the premise is a theorem (theory/GraphRefine.v on C14's well-formedness theorem): any two closed lists holding the same types, in any supply and "
              "set-iteration orders, build typesets whose actual relation graphs and identity graphs have the same exclusive walks (successor lists equal up to order and extensional "
              "equality of the stored relations). Exclusivity of "
              "the shipped relations is decided on the implementation: every successor's is_relation is evaluated at every node of every admissible branch for all shared streams plus "
              "cross-parser string columns, and CompleteSet is rebuilt under permuted supply orders. Five inherent overlaps at String are recorded as known findings with narrow classifiers."),
        ref="DESIGN.md section 3 (C02)",
        note=TB_COMMON + "Exclusivity of sibling predicates over ALL sequences is not a Coq theorem here (string parsers are oracles; the identity layer is modelled under C16); it is established by evaluation of the real guards. Known findings F02a-e, F02o.",
        technique="Coq proof (order independence of exclusive walks under successor permutation, derived for the generated constructor's graphs) + exhaustive-per-node guard evaluation and permuted-order rebuilds on the implementation",
    ),
    "C16": dict(
        text=("Coq proofs, one per identity edge of the regenerated relation table (coverage of all edges is itself a computed theorem), over the pandas contains_ops and decorators "
              "REGENERATED from source: for ALL abstract series - any tuple of answers of the pandas.api.types predicates (a superset of pandas dtypes), any list of value kinds "
              "with flags, any length - child membership implies parent membership; the side conditions are exactly the recorded findings, each refuted with a computed witness "
              "(categorical series of dates in Date not Object; existing relative path in File not Path). The model is validated against `series in T` for all 24 types on thousands "
              "of abstracted series per run incl. every dtype x up to two value kinds; the numpy backend is judged by the oracle only; file-system histories (create / remove / replace files, a symbolic link, a directory) are run between membership tests of Path / File / Image."),
        ref="DESIGN.md section 3 (C16)",
        note=TB_COMMON + "Measured, not verified: per-kind isinstance/class-name/hasattr facts, astype(str) round trip, 'unsigned implies integer' for dtype facts. Abstraction in lib/Values.v (no adversarial objects). Known findings F16b, F16c; F16a repaired.",
        technique="Coq proof per identity edge over an abstract series universe on predicates translated from source; extracted-model differential test over a bounded-exhaustive dtype x kind grid",
    ),
    "C11": dict(
        text=("Coq proof over the regenerated pandas contains_ops: for the 18 shipped types whose predicate does not inspect a prefix of the rows, `seq in T` is identical for every "
              "permutation of the rows and for repetition of the sequence, for all dtypes, values and lengths; the six prefix-testing types are refuted with computed witnesses "
              "(recorded findings). Index labels and name are not part of the abstract series. detect_type / infer_type / membership invariance under all row permutations (n <= 4), "
              "relabelling, renaming and k-fold repetition is checked on the implementation for pandas, numpy and list inputs. Python-list backend: the 22 Sequence contains_ops and their "
              "decorators are regenerated from source (vfw/gen_python.py) and `list in T` is proved, for all 24 types, to be a function of the SET of elements (hence of any row order and any "
              "k-fold repetition); the extracted predicates are compared with the implementation on all lists of length <= 2 over 51 elements of every value kind, runs plus one odd value, "
              "and random lists, and the same pure lists are permuted / repeated on the implementation."),
        ref="DESIGN.md section 3 (C11)",
        note=TB_COMMON + "Transfer to detect_type/infer_type is not proved (whole-column parsers such as pd.to_datetime are oracles); it is checked dynamically. Known findings F11a, F11b, F11np, F11list.",
        technique="Coq proof (permutation / repetition invariance of translated pandas and Python-list predicates via Permutation / same-elements lemmas) + extracted-model correspondence + exhaustive small-permutation oracle on the implementation",
    ),
    "C03": dict(
        text=("Coq composition theorems over the reference walk (which the generated infer is proved to compute): if every relation that is taken lands in its target type and the root "
              "contains the input, the cast data is contained in the last type of the returned path; the cast data is exactly the guarded composition of the path's transformers. The "
              "per-relation obligation (each shipped coercion lands inside its target, detect(cast) = infer_type) is decided on the implementation for every relation of every shipped "
              "typeset over the shared streams on pandas, numpy and list inputs. Several genuine defects were repaired (all-NaN complex, URL/Complex/Float/Boolean casts on missing values)."),
        ref="DESIGN.md section 3 (C03)",
        note=TB_COMMON + "The shipped transformers/guards themselves are not modelled in Coq (pandas astype / parsers are third-party): their 'lands in target' facts come from the oracle. Known findings for the numpy and list backends.",
        technique="Coq proof (induction over the guarded walk: lands-in-target composes) + per-relation oracle on the implementation",
    ),
    "C04": dict(
        text=("Coq theorems over the reference walk: where a traversal stopped every later traversal arriving with the same data stops too (guards ignore the state), and a traversal that only "
              "takes identity-transformer relations returns its input; with C03 this gives infer(cast x) = infer x and cast(cast x) = cast x. The remaining per-relation facts are decided on the "
              "implementation: re-inference and re-cast of the cast data for all streams, typesets and backends."),
        ref="DESIGN.md section 3 (C04)",
        note=TB_COMMON + "That shipped guards are false on already-coerced data (L4) is an oracle fact, not a Coq theorem.",
        technique="Coq proof (stability of the stop condition; identity paths return their input) + re-inference oracle",
    ),
    "C05": dict(
        text=("Coq proof over the GENERATED engine: identity_transform returns its argument; a traversal taking only identity-transformer relations - every detect, and every infer without an "
              "inference edge - returns the very data it was given (for contains-guarded graphs detect's data component is the input and the state is untouched). Non-mutation: model values are "
              "immutable, the translator rejects stores into arguments; on the implementation deep snapshots (values, dtype, index, name, element identities) are compared around every public "
              "call and around every relation, accepted or rejected, for pandas, numpy, list and DataFrame inputs, and object identity of no-op casts is checked with `is` (also for an equal twin processed next, for non-contiguous numpy views and for frames with non-string labels)."),
        ref="DESIGN.md section 3 (C05)",
        note=TB_COMMON + "Object identity and in-place mutation inside third-party libraries are runtime behaviour the model cannot exhibit: partial, covered by the dynamic snapshots.",
        technique="Coq proof (no-op traversals return their input) + translator effect discipline + snapshot/identity oracle",
    ),
    "C06": dict(
        text=("Coq proof about the GENERATED infer: the returned data is the input pushed through exactly the transformers of the returned path, in order, each only after its guard accepted the "
              "data as it was at that point; DataFrames are per-column (C08). Shape/index/name/null-position preservation and element-wise exact decoding of each shipped relation, and that "
              "guards test the exact round trip, are checked on the implementation position by position against independent decoders for every pandas stream input (two genuine defects repaired: "
              "Geometry cast dropped index/name, URL cast mangled missing values)."),
        ref="DESIGN.md section 3 (C06)",
        note=TB_COMMON + "Element-level decoding facts of astype/parsers are oracle facts. numpy/list inputs are covered through C03/C04 oracles only.",
        technique="Coq proof (cast = guarded composition of the path) + position-wise decoder oracle",
    ),
    "C07": dict(
        text=("Coq proofs over the regenerated pandas predicates: an empty column belongs to no shipped type but Generic; any dtype for which the pandas family predicate answers True (any width, "
              "numpy or nullable, any placement of missing values) is recognised as Integer / Float / Boolean / DateTime. String- and object-encoded families pass through parser relations and are "
              "decided on the implementation over the family x encoding x sentinel x position x length x index grid. Python lists: the empty list is proved to be in no identity child of Generic "
              "that a shipped typeset includes (regenerated Sequence contains_ops). numpy arrays of every float / complex width and Python lists of floats (deterministic corners up to and beyond "
              "the int64 range): the cast values are compared with the original values on the implementation."),
        ref="DESIGN.md section 3 (C07)",
        note=TB_COMMON + "Known findings F07a (object-dtype numbers stay Object), F07b (string-encoded Path/UUID/IP/Email/Geometry with missing values stay String).",
        technique="Coq proof (emptiness and dtype-family lemmas on translated predicates) + encoding-grid oracle",
    ),
    "C09": dict(
        text=("Coq proof over the regenerated pandas membership predicates: for every abstract series they return a boolean and never raise; Generic contains everything. Totality of detect / "
              "infer / cast through the inference relations (third-party parsers) is decided on the implementation over all streams incl. adversarial strings and every dtype x value-kind "
              "combination, on pandas, numpy and list inputs (incl. pure Python lists of numpy scalars, huge ints, extreme floats); five genuine crashes were repaired. "
              "Python lists: Generic contains every list (regenerated Sequence contains_ops)."),
        ref="DESIGN.md section 3 (C09)",
        note=TB_COMMON + "Exceptions raised inside pandas/shapely/urllib for reasons outside the model are only reachable dynamically. Known findings F09c, F09list, F09np.",
        technique="Coq proof (totality of translated predicates by case analysis) + crash oracle over adversarial streams",
    ),
    "C10": dict(
        text=("Coq proof by computation over the global-effect skeleton of EVERY function of src/visions that writes a process-global cell (sys.stderr/stdout, warning filters, numpy error state, "
              "pandas options, cwd), extracted from the source on every run, under a small-step semantics in which opaque code may raise or not at every point: whatever raises, every cell "
              "holds afterwards what it held on entry (the pre-repair pattern - restoring sys.__stderr__ instead of the saved stream - is rejected by the same semantics). Independence from "
              "enumeration order is C02's theorem. History, other typesets, fresh processes and hash seeds are decided on the implementation: random API histories with a global snapshot "
              "after every call under a redirected stderr, probes before/after (series and string-labelled frames, order-sensitive), calls under -W error::<category>, a snapshot of every typeset of the history after every call, same values under another index on one typeset, subprocesses with different PYTHONHASHSEED."),
        ref="DESIGN.md section 3 (C10)",
        note=TB_COMMON + "Partial: effects inside third-party libraries, address/hash-seed dependence and dispatch registries are runtime behaviour only observable dynamically. The effect extractor is syntactic (a global write through an alias or setattr is outside it). Known finding F10b.",
        technique="Coq computation over extracted effect programs (all raise/no-raise oracles) + history/global-snapshot/subprocess oracle",
    ),
}


def main():
    checks = []
    for pid in PROPS:
        if pid not in CHECKS:
            continue
        c = CHECKS[pid]
        checks.append({
            "property_id": pid,
            "quick_cmd": f"bin/check {pid} --tier quick",
            "thorough_cmd": f"bin/check {pid} --tier thorough",
            "evidence_file": f"/verif/evidence/{pid}.json",
            "replay_cmd_template": f"bin/check {pid} --replay {{path}}",
            "engine": "coq-translate-correspond",
            "level_claimed": {"category": c.get("category", "proof"), "text": c["text"], "design_ref": c["ref"]},
            "level_note": c["note"],
            "technique": c["technique"],
        })
    m = {
        "version": 1,
        "setup_cmd": "cd /verif && bin/setup",
        "hooks": {
            "guard": "VISIONS_VERIF",
            "enable": "no hooks are needed: every observation point is reachable from outside (DESIGN.md section 6); checks import /repo/src through PYTHONPATH",
            "baseline_off_cmd": "cd /repo && /venv/bin/python -m pytest -ra -q -p no:cacheprovider --timeout=900 --continue-on-collection-errors",
            "source_commits": [],
            "add_only": True,
        },
        "engines": [{
            "name": "coq-translate-correspond", "path": "/verif/vfw",
            "serves_properties": sorted(CHECKS),
            "kind_free_text": "Python-ast -> Gallina translator (vfw/py2coq.py + gen_*.py), Coq development in /verif/coq (gen regenerated per run, bridge/theory/props proofs), extracted OCaml runners for differential correspondence against the implementation, Python-side property oracles for counter-example search",
        }],
        "checks": checks,
        "notes": "bin/check <id> --tier quick|thorough; --replay <file> re-runs a recorded failing input against the current /repo.",
        "not_applicable": [{"property_id": p, "reason": "check not built yet (build in progress, DESIGN.md section 10)"} for p in PROPS if p not in CHECKS],
    }
    json.dump(m, open(os.path.join(V, "MANIFEST.json"), "w"), indent=1)


if __name__ == "__main__":
    main()
