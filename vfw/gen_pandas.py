"""Driver: the pandas backend's membership predicates -> coq/gen/PandasContains_gen.v
   backends/pandas/series_utils.py (decorators, class_name_attrs / isinstance_attrs) and the
   contains_op of every module imported by backends/pandas/types/__init__.py.
   Facts about Python value classes (isinstance / __class__.__name__ / hasattr) are MEASURED on
   representative objects of every value kind."""
import ast

from .py2coq import FnCfg, ModuleCfg, Prim, TransError, Translator, fail, find_def

UTILS = "src/visions/backends/pandas/series_utils.py"
INIT = "src/visions/backends/pandas/types/__init__.py"

CLASSES = {   # source text of a class expression -> enum constructor
    "str": "c_str", "pathlib.Path": "c_Path", "Path": "c_Path", "pathlib.PurePath": "c_PurePath", "ParseResult": "c_ParseResult",
    "_BaseAddress": "c_BaseAddress", "uuid.UUID": "c_UUID", "FQDA": "c_FQDA", "BaseGeometry": "c_BaseGeometry", "date": "c_date", "time": "c_time",
}
KINDS = ["KNone", "KNaN", "KNA", "KNaT", "KBool", "KInt", "KFloat", "KComplex", "KStr", "KBytes", "KTimestamp", "KPyDatetime", "KDate", "KTime",
         "KTimedelta", "KPyTimedelta", "KPurePath", "KPath", "KUrl", "KIP", "KUUID", "KEmail", "KGeom", "KOther"]


def representatives():
    import datetime
    import ipaddress
    import pathlib
    import uuid
    from urllib.parse import urlparse

    import numpy as np
    import pandas as pd
    from shapely import wkt
    from visions.types.email_address import FQDA
    return {
        "KNone": [None], "KNaN": [float("nan"), np.float64("nan")], "KNA": [pd.NA], "KNaT": [pd.NaT],
        "KBool": [True, np.bool_(False)], "KInt": [1, np.int64(2)], "KFloat": [1.5, np.float64(2.5)],
        "KComplex": [1 + 2j, np.complex128(1j)], "KStr": ["a", ""], "KBytes": [b"a"],
        "KTimestamp": [pd.Timestamp("2020-01-01"), pd.Timestamp("2020-01-01", tz="UTC")], "KPyDatetime": [datetime.datetime(2020, 1, 1)],
        "KDate": [datetime.date(2020, 1, 1)], "KTime": [datetime.time(1, 2)], "KTimedelta": [pd.Timedelta(days=1)], "KPyTimedelta": [datetime.timedelta(1)],
        "KPurePath": [pathlib.PurePosixPath("/a"), pathlib.PureWindowsPath("C:\\a")], "KPath": [pathlib.Path("/tmp")],
        "KUrl": [urlparse("http://a.b/c")], "KIP": [ipaddress.ip_address("127.0.0.1"), ipaddress.ip_address("::1")], "KUUID": [uuid.uuid4()],
        "KEmail": [FQDA("a", "b.c")], "KGeom": [wkt.loads("POINT (1 2)")], "KOther": [(1, 2), [1], {"a": 1}, object()],
    }


def class_objects():
    import datetime
    import ipaddress
    import pathlib
    import uuid
    from urllib.parse import ParseResult

    from shapely.geometry.base import BaseGeometry
    from visions.types.email_address import FQDA
    return {"c_str": str, "c_Path": pathlib.Path, "c_PurePath": pathlib.PurePath, "c_ParseResult": ParseResult, "c_BaseAddress": ipaddress._BaseAddress,
            "c_UUID": uuid.UUID, "c_FQDA": FQDA, "c_BaseGeometry": BaseGeometry, "c_date": datetime.date, "c_time": datetime.time}


def measure(attrs):
    reps, cls = representatives(), class_objects()
    isinst, cname, hasat = {}, {}, {}
    for k in KINDS:
        for c, co in cls.items():
            vals = {isinstance(o, co) for o in reps[k]}
            if len(vals) != 1:
                raise TransError(f"kind {k} is not uniform for isinstance(_, {c})")
            isinst[(k, c)] = vals.pop()
            vals = {type(o).__name__ == co.__name__ for o in reps[k]}
            if len(vals) != 1:
                raise TransError(f"kind {k} is not uniform for class name {c}")
            cname[(k, c)] = vals.pop()
        for a in attrs:
            vals = {hasattr(o, a) for o in reps[k]}
            if len(vals) != 1:
                raise TransError(f"kind {k} is not uniform for hasattr(_, {a!r})")
            hasat[(k, a)] = vals.pop()
    return isinst, cname, hasat


def measure_roundtrip():
    """(series.astype(str).values == series.values).all() on ['a'] * 5 + [v], per value kind:
    'true' / 'false' / 'raise' (TypeError or ValueError, which _is_string catches)"""
    import warnings

    import pandas as pd
    reps = representatives()
    out = {}
    for k in KINDS:
        if k in ("KNone", "KNaN", "KNA", "KNaT"):
            out[k] = "true"           # never reaches the comparison: dropped by series_handle_nulls
            continue
        res = set()
        for v in reps[k]:
            s = pd.Series(["a"] * 5 + [v], dtype=object)
            try:
                with warnings.catch_warnings():
                    warnings.simplefilter("ignore")
                    res.add("true" if bool((s.astype(str).values == s.values).all()) else "false")
            except (TypeError, ValueError):
                res.add("raise")
        if len(res) != 1:
            raise TransError(f"kind {k} is not uniform for the astype(str) round trip: {res}")
        out[k] = res.pop()
    return out


class PandasCfg(ModuleCfg):
    def __init__(self):
        super().__init__()
        self.module_aliases = {"pdt", "pd", "pathlib", "uuid"}
        self.attrs_used = []
        self.iter_tags = {"series": "value"}
        A, M, F = self.attrs, self.methods, self.funcs
        A[("series", "hasnans")] = Prim(lambda s: f"(s_hasnans {s})", False, "bool")
        A[("series", "empty")] = Prim(lambda s: f"(s_empty {s})", False, "bool")
        A[("series", "values")] = Prim(lambda s: f"(s_vals {s})", False, "list:value")
        A[("series", "cat")] = Prim(lambda s: s, False, "cat")
        A[("cat", "ordered")] = Prim(lambda s: f"(s_cat_ordered {s})", True, "bool")
        M[("series", "dropna")] = Prim(lambda s: f"(s_dropna {s})", False, "series")
        M[("series", "head")] = Prim(lambda s, n: f"(s_head {s} {n})", False, "list:value")
        M[("series", "__iter__")] = Prim(lambda s: f"(s_vals {s})", False, "list:value")
        M[("list:value", "__slice__")] = Prim(lambda l, lo, hi: f"(py_slice {l} {'None' if lo is None else '(Some ' + lo + ')'} {'None' if hi is None else '(Some ' + hi + ')'})", False, "list:value")
        M[("value", "exists")] = Prim(lambda v: f"(v_exists {v})", False, "bool")
        M[("value", "is_absolute")] = Prim(lambda v: f"(v_abs {v})", False, "bool")
        F["path_is_image"] = Prim(lambda v: f"(v_image {v})", False, "bool")
        # visions.types.file.path_exists(p): p.exists() with OSError read as "does not exist" (shape checked in generate())
        F["path_exists"] = Prim(lambda v: f"(v_exists {v})", False, "bool")
        for py, fld in [("is_bool_dtype", "is_bool"), ("is_categorical_dtype", "is_categorical"), ("is_complex_dtype", "is_complex"),
                        ("is_unsigned_integer_dtype", "is_unsigned_integer"), ("is_datetime64_any_dtype", "is_datetime64_any"), ("is_float_dtype", "is_float"),
                        ("is_integer_dtype", "is_integer"), ("is_numeric_dtype", "is_numeric"), ("is_object_dtype", "is_object"), ("is_string_dtype", "is_string"),
                        ("is_timedelta64_dtype", "is_timedelta64"), ("is_sparse", "is_sparse")]:
            F["pdt." + py] = Prim(lambda s, _f=fld: f"({_f} (s_dtype {s}))", False, "bool")
        self.globals_["pandas_has_string_dtype_flag"] = ("true", "bool")

    def cls_of(self, node):
        txt = ast.unparse(node)
        if txt in CLASSES:
            return CLASSES[txt]
        raise TransError(f"class expression {txt} not in the class table")

    def string_const(self, s):
        if s not in self.attrs_used:
            self.attrs_used.append(s)
        return (f"a_{s}", "attr")

    def special_call(self, e, env, tr, pre):
        f = e.func
        txt = ast.unparse(e)
        if txt.replace(" ", "") == "(series.astype(str).values==series.values).all()":
            s, sty = tr.expr(ast.Name(id="series", ctx=ast.Load()), env, pre)
            v = tr.fresh("v")
            pre.append((v, f"(str_roundtrip_all {s})"))
            return (v, "bool")
        if isinstance(f, ast.Name) and f.id == "isinstance" and len(e.args) == 2:
            x, xty = tr.expr(e.args[0], env, pre)
            if xty == "series":
                if ast.unparse(e.args[1]) == "pd.SparseDtype":
                    return ("false", "bool")          # a Series is never an instance of a dtype class
                fail(e, "isinstance(series, ...)")
            if xty == "value":
                if isinstance(e.args[1], ast.Name) and env.get(e.args[1].id, (None, None))[1] == "cls":
                    return (f"(v_isinstance {x} {env[e.args[1].id][0]})", "bool")
                return (f"(v_isinstance {x} {self.cls_of(e.args[1])})", "bool")
            fail(e, f"isinstance on {xty}")
        if isinstance(f, ast.Name) and f.id == "issubclass" and len(e.args) == 2 and ast.unparse(e.args[0]).startswith("type("):
            x, xty = tr.expr(e.args[0].args[0], env, pre)
            return (f"(v_isinstance {x} {self.cls_of(e.args[1])})", "bool")
        if isinstance(f, ast.Name) and f.id == "hasattr" and len(e.args) == 2:
            x, _ = tr.expr(e.args[0], env, pre)
            a, _ = tr.expr(e.args[1], env, pre)
            return (f"(v_hasattr {x} {a})", "bool")
        # fn(series, *args, **kwargs) inside a decorator
        if isinstance(f, ast.Name) and env.get(f.id, (None, ""))[1] == "fun:bool" and f.id == "fn":
            s, _ = tr.expr(e.args[0], env, pre)
            v = tr.fresh("v")
            pre.append((v, f"(fn {s} state)"))
            return (v, "bool")
        if isinstance(f, ast.Name) and f.id == "is_method" and len(e.args) == 2:
            x, _ = tr.expr(e.args[0], env, pre)
            c, _ = tr.expr(e.args[1], env, pre)
            v = tr.fresh("v")
            pre.append((v, f"(is_method {x} {c})"))
            return (v, "bool")
        return None

    def special_subscript(self, e, env, tr, pre):
        return None


class PandasTranslator(Translator):
    def expr(self, e, env, pre):
        if isinstance(e, ast.Attribute) and ast.unparse(e) in CLASSES:
            return (CLASSES[ast.unparse(e)], "cls")
        if isinstance(e, ast.List) and e.elts and all(isinstance(x, ast.Constant) and isinstance(x.value, str) for x in e.elts):
            return ("[" + "; ".join(self.m.string_const(x.value)[0] for x in e.elts) + "]", "list:attr")
        return super().expr(e, env, pre)


def attr_lists(tree):
    out = []
    for n in ast.walk(tree):
        if isinstance(n, ast.Call) and isinstance(n.func, ast.Name) and n.func.id in ("class_name_attrs", "isinstance_attrs"):
            if len(n.args) >= 3 and isinstance(n.args[2], ast.List):
                out += [x.value for x in n.args[2].elts if isinstance(x, ast.Constant)]
    return out


PATH_EXISTS_SHAPE = "def path_exists(path: Any) -> bool:\n    try:\n        return path.exists()\n    except OSError:\n        return False"


def check_path_exists(repo):
    """the helper the File / Image membership tests call is the primitive [v_exists] only while it has exactly this body"""
    tree = ast.parse(open(f"{repo}/src/visions/types/file.py").read())
    fn = [n for n in tree.body if isinstance(n, ast.FunctionDef) and n.name == "path_exists"]
    if not fn:
        return          # the membership tests then call p.exists() directly (primitive ("value", "exists")) or the translator refuses
    f = fn[0]
    if f.body and isinstance(f.body[0], ast.Expr) and isinstance(f.body[0].value, ast.Constant):
        f.body = f.body[1:]          # docstring
    if ast.unparse(f) != PATH_EXISTS_SHAPE:
        raise TransError("visions/types/file.py: path_exists is not `try: return path.exists() / except OSError: return False`:\n" + ast.unparse(f))


def generate(repo):
    check_path_exists(repo)
    cfg = PandasCfg()
    tr = PandasTranslator(cfg)
    utils = ast.parse(open(f"{repo}/{UTILS}").read())
    init = ast.parse(open(f"{repo}/{INIT}").read())
    mods = []
    for n in init.body:
        if isinstance(n, ast.Import):
            mods += [a.name for a in n.names]
        elif not (isinstance(n, ast.Expr) and isinstance(n.value, ast.Constant)):
            raise TransError("pandas/types/__init__.py: statement outside `import ...`")
    trees = {m: ast.parse(open(f"{repo}/src/{m.replace('.', '/')}.py").read()) for m in mods}
    attrs = []
    for t in trees.values():
        for a in attr_lists(t):
            if a not in attrs:
                attrs.append(a)
    body = []
    translated = []
    # ---- series_utils.py
    S = ("series", "series", "series")
    ST = ("state", "unit", "state")
    for deco in ("series_handle_nulls", "series_not_sparse", "series_not_empty"):
        d = find_def(utils, deco)
        inner = [n for n in d.body if isinstance(n, ast.FunctionDef)]
        if [a.arg for a in d.args.args] != ["fn"] or len(inner) != 1 or ast.unparse(d.body[-1]) != "return inner":
            raise TransError(f"{deco}: decorator shape drift")
        i = inner[0]
        if [a.arg for a in i.args.args] != ["series"] or not i.args.vararg or not i.args.kwarg:
            raise TransError(f"{deco}.inner signature drift")
        import copy
        i2 = copy.deepcopy(i)
        i2.args.vararg = None
        i2.args.kwarg = None
        i2.args.args = i2.args.args + [ast.arg(arg="state")]
        fc = FnCfg(deco, [S, ST], [], ret_threaded=False, ret_type="res bool", closure=[("fn", "series -> unit -> res bool", "fun:bool")])
        body.append(tr.function(i2, fc))
        translated.append(f"{UTILS}:{deco}")
    cia = find_def(utils, "_contains_instance_attrs")
    fc = FnCfg("contains_instance_attrs", [S, ("is_method", "value -> cls -> res bool", "fun"), ("class_name", "cls", "cls"), ("attrs", "list attr", "list:attr"),
                                           ("sample_size", "Z", "int")], [], ret_threaded=False, ret_type="res bool")
    body.append(tr.function(cia, fc))
    cfg.user_funcs["_contains_instance_attrs"] = fc
    fc.ret_tag = "bool"
    translated.append(f"{UTILS}:_contains_instance_attrs")
    # class_name_attrs: nested func compares class names
    cna = find_def(utils, "class_name_attrs")
    inner = [n for n in cna.body if isinstance(n, ast.FunctionDef)]
    if len(inner) != 1 or ast.unparse(inner[0].body[-1]).replace(" ", "") != "returninstance.__class__.__name__==class_name.__name__":
        raise TransError("class_name_attrs.func drift")
    if ast.unparse(cna.body[-1]).replace(" ", "") != "return_contains_instance_attrs(series,func,class_name,attrs,sample_size)":
        raise TransError("class_name_attrs body drift")
    body.append("Definition class_name_attrs (series : series) (class_name : cls) (attrs : list attr) (sample_size : Z) : res bool :=\n"
                "contains_instance_attrs series (fun instance class_name => ret (v_cname_eq instance class_name)) class_name attrs sample_size.\n")
    ia = find_def(utils, "isinstance_attrs")
    if ast.unparse(ia.body[-1]).replace(" ", "") != "return_contains_instance_attrs(series,isinstance,class_name,attrs,sample_size)":
        raise TransError("isinstance_attrs body drift")
    body.append("Definition isinstance_attrs (series : series) (class_name : cls) (attrs : list attr) (sample_size : Z) : res bool :=\n"
                "contains_instance_attrs series (fun x c => ret (v_isinstance x c)) class_name attrs sample_size.\n")
    for nm, d in (("class_name_attrs", cna), ("isinstance_attrs", ia)):
        if [a.arg for a in d.args.args] != ["series", "class_name", "attrs", "sample_size"] or ast.unparse(d.args.defaults[0]) != "1":
            raise TransError(f"{nm} signature drift")
        translated.append(f"{UTILS}:{nm}")
    cfg.funcs["class_name_attrs"] = Prim(lambda s, c, a, n="(1)%Z": f"(class_name_attrs {s} {c} {a} {n})", True, "bool")
    cfg.funcs["isinstance_attrs"] = Prim(lambda s, c, a, n="(1)%Z": f"(isinstance_attrs {s} {c} {a} {n})", True, "bool")
    for txt, c in CLASSES.items():
        if "." not in txt:
            cfg.globals_[txt] = (c, "cls")
    # ---- types/*.py
    registered = {}
    for m, tree in trees.items():
        path = "src/" + m.replace(".", "/") + ".py"
        # helper predicates used by contains ops (string._is_string)
        for n in tree.body:
            if isinstance(n, ast.FunctionDef) and n.name == "_is_string":
                decos = [ast.unparse(d) for d in n.decorator_list]
                fcb = FnCfg("is_string_body", [S, ST], [], ret_threaded=False, ret_type="res bool")
                body.append(tr.function(n, fcb))
                wrapped = "is_string_body"
                for d in reversed(decos):
                    if d not in ("series_handle_nulls", "series_not_sparse", "series_not_empty"):
                        raise TransError(f"_is_string decorator {d}")
                    wrapped = f"({d} {wrapped})"
                body.append(f"Definition _is_string := {wrapped}.\n")
                cfg.funcs["_is_string"] = Prim(lambda s, st: f"(_is_string {s} {st})", True, "bool")
                translated.append(f"{path}:_is_string")
        for n in tree.body:
            if not isinstance(n, ast.FunctionDef):
                continue
            decos = [ast.unparse(d) for d in n.decorator_list]
            reg = [d for d in decos if d.endswith(".contains_op.register")]
            if not reg:
                continue
            if decos[0] != reg[0]:
                raise TransError(f"{path}: contains_op.register is not the outermost decorator of {n.name}")
            tname = reg[0].split(".")[0]
            ann = [ast.unparse(a.annotation) if a.annotation else None for a in n.args.args]
            if ann != ["pd.Series", "dict"]:
                raise TransError(f"{path}: {n.name} is not registered for (pd.Series, dict)")
            fcb = FnCfg(f"{n.name}_body", [(n.args.args[0].arg, "series", "series"), (n.args.args[1].arg, "unit", "state")], [], ret_threaded=False, ret_type="res bool")
            body.append(tr.function(n, fcb))
            wrapped = f"{n.name}_body"
            for d in reversed(decos[1:]):
                if d not in ("series_handle_nulls", "series_not_sparse", "series_not_empty"):
                    raise TransError(f"{path}: unknown decorator {d} on {n.name}")
                wrapped = f"({d} {wrapped})"
            body.append(f"Definition pandas_{tname}_contains : series -> unit -> res bool := {wrapped}.\n")
            registered[tname] = n.name
            translated.append(f"{path}:{n.name}")
    for a in cfg.attrs_used:
        if a not in attrs:
            attrs.append(a)
    isinst, cname, hasat = measure(attrs)
    rt = measure_roundtrip()
    clss = sorted(set(CLASSES.values()))
    hdr = ["(* GENERATED by vfw/gen_pandas.py from src/visions/backends/pandas/series_utils.py and backends/pandas/types/*.py;",
           "   value-class facts MEASURED on representative Python objects -- do not edit. *)",
           "From Coq Require Import List Bool ZArith.", "Import ListNotations.", "From V Require Import PyBase Values Shipped_gen.", "Open Scope py_scope.", "",
           "Inductive cls : Type := " + " | ".join(clss) + ".",
           "Inductive attr : Type := " + " | ".join("a_" + a for a in attrs) + ".", "",
           "(* measured: isinstance(x, C), type(x).__name__ == C.__name__, hasattr(x, a) per value kind *)",
           "Definition k_isinstance (k : kind) (c : cls) : bool :=", "  match k, c with"]
    hdr += [f"  | {k}, {c} => true" for (k, c), v in sorted(isinst.items()) if v] + ["  | _, _ => false", "  end.",
            "Definition k_cname_eq (k : kind) (c : cls) : bool :=", "  match k, c with"]
    hdr += [f"  | {k}, {c} => true" for (k, c), v in sorted(cname.items()) if v] + ["  | _, _ => false", "  end.",
            "Definition k_hasattr (k : kind) (a : attr) : bool :=", "  match k, a with"]
    hdr += [f"  | {k}, a_{a} => true" for (k, a), v in sorted(hasat.items()) if v] + ["  | _, _ => false", "  end.",
            "Definition v_isinstance (v : value) (c : cls) : bool := k_isinstance (v_kind v) c.",
            "Definition v_cname_eq (v : value) (c : cls) : bool := k_cname_eq (v_kind v) c.",
            "Definition v_hasattr (v : value) (a : attr) : bool := k_hasattr (v_kind v) a.",
            "(* (series.astype(str).values == series.values).all(): str(v) == v holds exactly for str values;",
            "   astype(str) of a Sparse series raises (pyarrow ArrowTypeError, a TypeError); per value kind the comparison is",
            "   true / false / raises for the whole array - all measured on the installed pandas *)",
            "Definition k_roundtrip_raises (k : kind) : bool := match k with " + " | ".join(k for k, r in rt.items() if r == "raise") + " => true | _ => false end.",
            "Definition k_roundtrip_true (k : kind) : bool := match k with " + " | ".join(k for k, r in rt.items() if r == "true") + " => true | _ => false end.",
            "Definition str_roundtrip_all (s : series) : res bool :=",
            "  if dtype_is_sparse (s_dtype s) then Raise TypeError",
            "  else if existsb (fun v => k_roundtrip_raises (v_kind v)) (s_vals s) then Raise TypeError",
            "  else Ok (forallb (fun v => k_roundtrip_true (v_kind v)) (s_vals s)).", ""]
    tail = ["(* T.contains_op dispatched on a pandas Series: the registered implementation; Generic's base",
            "   implementation returns True; a type without a pandas registration returns None (falsy) *)",
            "Definition pandas_contains (t : ty) (s : series) : res bool :=", "  match t with"]
    from .gen_shipped import shipped_types
    for t in sorted(shipped_types(repo)):
        if t in registered:
            tail.append(f"  | t{t} => pandas_{t}_contains s tt")
        elif t == "Generic":
            tail.append("  | tGeneric => Ok true")
        else:
            tail.append(f"  | t{t} => Ok false")
    tail += ["  end.", ""]
    return {"PandasContains_gen.v": "\n".join(hdr) + "\n" + "\n".join(body) + "\n" + "\n".join(tail)}, {
        "translated": translated, "hand": ["value-kind class facts (measured)", "str_roundtrip_all (model of astype(str) == values)"], "registered": registered, "attrs": attrs}
