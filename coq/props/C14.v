(* C14 - Every constructible typeset is a well-formed rooted relation graph.
   Part 1 (this file, by computation on the table REGENERATED from types/*.py): the three table
   facts the general theorem needs, plus nesting of the shipped typesets.
   Part 2: theory/GraphWF.v lifts them to every parent-closed subset and supply order. *)
From Coq Require Import List Bool ZArith.
Import ListNotations.
From V Require Import PyBase NxModel Engine_gen Shipped_gen ShippedFacts.

Theorem C14_table_facts :
  T1 = true                      (* one identity parent per non-Generic type, none for Generic *)
  /\ T2 = true                   (* identity parents lead to Generic *)
  /\ T3 = true                   (* a rank strictly increases along every declared relation: no cycles *)
  /\ T4_nodup_sources = true     (* at most one relation per (source, type) *)
  /\ T5_identity_defaults = true (* identity relations use the default guard/transformer *)
  /\ T6_nested = true            (* StandardSet <= GeometrySet <= CompleteSet *)
  /\ T7_names_distinct = true
  /\ T8_shipped_sets_closed = true.
Proof. exact shipped_table_facts. Qed.
Print Assumptions C14_table_facts.
