"""Classifiers of recorded findings (KNOWN_FINDINGS.json -> "classifier").  Each takes the failure
dict an oracle produced and says whether it is an instance of that recorded finding.  They are
deliberately narrow: a different violation of the same property is still reported."""


def F17b(f):
    """Spark column names containing '.' make df.select(col) raise AnalysisException"""
    return f.get("class", "").startswith("raises:AnalysisException") and any("." in c[0] for c in f.get("columns", []))


# ---- C02 overlaps at String (inherent ambiguity of string encodings), each with the input class it is recorded for
def _strings(f):
    from . import streams
    import warnings
    with warnings.catch_warnings():
        warnings.simplefilter("ignore")
        s = streams.materialise({"recipe": f["recipe"]})
    import pandas as pd
    vals = [v for v in list(s) if isinstance(v, str)]
    others = [v for v in list(s) if not isinstance(v, str) and not (pd.api.types.is_scalar(v) and pd.isna(v))]
    return vals, others


def _floatlike(v):
    try:
        float(v)
        return True
    except ValueError:
        return False


def _overlap(f, node, accepting, pred):
    if f.get("node") != node or sorted(f.get("accepting", [])) != sorted(accepting):
        return False
    vals, others = _strings(f)
    return bool(vals) and not others and all(pred(v) for v in vals)


def F02a(f):
    """String column whose every value is a float literal that passes visions' leading-zero rule (no
    leading '0' on a value above 1) AND that pd.to_datetime accepts ('2020', '.5', '01')"""
    def ok(v):
        return _floatlike(v) and not (v[:1] == "0" and float(v) > 1)
    return _overlap(f, "String", ["DateTime", "Float"], ok)


def F02b(f):
    """32 decimal digits: float-coercible and a UUID hex string"""
    return _overlap(f, "String", ["Float", "UUID"], lambda v: len(v.strip()) == 32 and v.strip().isdigit())


def F02c(f):
    """'c://x/y': a Windows-absolute path and a URL with scheme and netloc"""
    import re
    return _overlap(f, "String", ["Path", "URL"], lambda v: re.match(r"^[A-Za-z]:[/\\]{2}[^/\\]", v) is not None)


def F02d(f):
    """'http://a@b/c': URL with userinfo; _to_email accepts any string with an @"""
    return _overlap(f, "String", ["EmailAddress", "URL"], lambda v: "://" in v and "@" in v)


def F02e(f):
    """'/a@b': absolute path containing @"""
    return _overlap(f, "String", ["EmailAddress", "Path"], lambda v: "@" in v and (v.startswith("/") or v[1:3] in (":\\", ":/")))


def _only_known_overlaps(f):
    """the input of f has overlaps, all of which are recorded C02 classes"""
    from . import c02, streams
    import warnings
    with warnings.catch_warnings():
        warnings.simplefilter("ignore")
        s = streams.materialise({"recipe": f["recipe"]})
        fs = c02.check_one(streams.shipped_typesets()["CompleteSet"], "CompleteSet", s, "pandas")
    fs = [dict(x, recipe=f["recipe"]) for x in fs]
    return bool(fs) and all(any(p(x) for p in (F02a, F02b, F02c, F02d, F02e)) for x in fs)


def F02order(f):
    """order dependence that is the consequence of a recorded overlap"""
    return f.get("class") == "order-dependent" and _only_known_overlaps(f)


def F15overlap(f):
    """C15 is not claimed for inputs in a recorded C02 overlap class"""
    return f.get("class") in ("detect-projection", "infer-prefix", "infer-stops-early") and _only_known_overlaps(f)
