(* C02 - Decidable traversal: the answer does not depend on type enumeration order.
   Engine part (this file): for the reference walk - which the generated detect/infer compute,
   props/C12.v - if along the walk exactly the followed relation accepts and the others reject
   without touching the state, then every re-enumeration of the successors (the model of the
   address-dependent iteration order of Python's set of classes and of graph insertion order)
   gives the same data, the same path and the same state. *)
From Coq Require Import List Bool ZArith Permutation.
Import ListNotations.
From V Require Import PyBase WalkSpec RefineTheory.

Theorem C02_order_independent :
  forall (T D St : Type) (succ1 succ2 : T -> res (list (edge T D St))),
    (forall t es1, succ1 t = Ok es1 -> exists es2, succ2 t = Ok es2 /\ Permutation es1 es2) ->
  forall t d st path out,
    xwalks succ1 t d st path out -> xwalks succ2 t d st path out.
Proof. exact @order_independent. Qed.
Print Assumptions C02_order_independent.

Theorem C02_exclusive_walk_is_the_walk :
  forall (T D St : Type) (succ : T -> res (list (edge T D St))) t d st path out,
    xwalks succ t d st path out -> walks succ t d st path out.
Proof. exact @xwalks_walks. Qed.

(* without exclusivity the answer does depend on the order: two successors that both accept *)
Example C02_overlap_is_order_dependent :
  let mk v := mkEdge (T:=nat) (D:=nat) (St:=unit) v (fun d st => Ok (true, st)) (fun d st => Ok (d, st)) in
  let s1 (t : nat) := Ok (match t with 0 => [mk 1; mk 2] | _ => [] end) in
  let s2 (t : nat) := Ok (match t with 0 => [mk 2; mk 1] | _ => [] end) in
  walk s1 3 0 5 tt [] = Ok (5, [0; 1], tt) /\ walk s2 3 0 5 tt [] = Ok (5, [0; 2], tt).
Proof. split; reflexivity. Qed.
