(* C18 - Sampled traversal is sound.  Object: the GENERATED traverse_graph_with_sampled_series.
   The sampler [seq_sample X] is an arbitrary function of the context, so the theorems hold for
   every random draw; graph, relations, sample size and series are arbitrary too. *)
From Coq Require Import List Bool ZArith.
Import ListNotations.
From V Require Import PyBase NxModel WalkSpec Engine_gen Engine_bridge Sampled_bridge EngineTheory SampledTheory.
Open Scope py_scope.

(* Whatever is returned: the path starts at the entry type and every relation along it accepted
   the FULL data as it was at that point; the returned data is the full data after exactly the
   transformers of the returned path, in order.  (A type whose relation the full data fails is
   therefore never on the returned path.) *)
Theorem C18_sampled_sound :
  forall (T D St L F : Type) (X : ctx T D St L F) (g : graph T D St) fuel t d k ost dout p st' st'',
    traverse_graph_with_sampled_series X fuel t d g k ost = Ok ((dout, p, st'), st'') ->
    exists hops, p = t :: hops /\ follows X g t d hops dout.
Proof.
  intros T D St L F X g fuel t d k ost dout p st' st'' H. rewrite sampled_eq_spec in H.
  destruct (sampled_spec X fuel t d g k ost) as [[[a b] c]|e] eqn:S; cbn [bind ret] in H; [|discriminate].
  injection H as Ha Hb Hc Hd. subst a b c. exact (sampled_sound X g fuel t d k ost dout p st' S).
Qed.
Print Assumptions C18_sampled_sound.

(* ... hence, when every transformer lands in its target type and the entry type contains the
   data, the returned data belongs to the last type of the returned path. *)
Theorem C18_result_in_last_type :
  forall (T D St L F : Type) (X : ctx T D St L F) (g : graph T D St) (cont : T -> D -> bool),
    (forall from to ea d st st1 d' st2,
        g_edge (T_eqb X) g from to = Ok ea ->
        relationship (ea_relationship ea) d st = Ok (true, st1) ->
        transformer (ea_relationship ea) d st1 = Ok (d', st2) -> cont to d' = true) ->
  forall fuel t d k ost dout p st' st'',
    cont t d = true ->
    traverse_graph_with_sampled_series X fuel t d g k ost = Ok ((dout, p, st'), st'') ->
    cont (last p t) dout = true.
Proof.
  intros T D St L F X g cont Hl fuel t d k ost dout p st' st'' Hc H.
  destruct (C18_sampled_sound _ _ _ _ _ X g fuel t d k ost dout p st' st'' H) as [hops [-> Hf]].
  rewrite last_cons. exact (follows_lands X g cont Hl t d hops dout Hf Hc).
Qed.
Print Assumptions C18_result_in_last_type.

(* Below 1000 rows, or when the sample size exceeds the length, it equals full traversal. *)
Theorem C18_small_is_full_traversal :
  forall (T D St L F : Type) (X : ctx T D St L F) (g : graph T D St) fuel t d k ost,
    orb (Z.ltb (seq_len X d) 1000) (Z.gtb k (seq_len X d)) = true ->
    traverse_graph_with_sampled_series X fuel t d g k ost =
    ('(r, _, st) <- traverse_graph_with_series X fuel t d g None ost ;; ret (r, st)).
Proof.
  intros T D St L F X g fuel t d k ost Hc. rewrite sampled_eq_spec, (sampled_small_is_full X g fuel t d k ost Hc).
  rewrite traverse_eq_walk_opt. unfold pack3. cbn.
  destruct (walk _ _ _ _ _ _) as [[[a b] c]|e]; reflexivity.
Qed.
Print Assumptions C18_small_is_full_traversal.
