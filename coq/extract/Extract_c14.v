From Coq Require Extraction ExtrOcamlBasic.
From V Require Import RunnerC14.
Extraction Language OCaml.
Extraction "model.ml" build_any.
