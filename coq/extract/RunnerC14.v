(* Executable instance of the GENERATED VisionsTypeset.__init__ / build_graph over the GENERATED
   shipped relation table, for the C14/C13/C19 correspondence. *)
From Coq Require Import List Bool ZArith.
Import ListNotations.
From V Require Import PyBase NxModel Engine_gen Shipped_gen ShippedGraph.
Open Scope Z_scope.

(* the SAME instance the theorems of props/C14.v are about (theory/ShippedGraph.v), with the identity as
   set iteration order: the harness passes the types already in the order Python's set iterates them *)
Definition shipped_ctx : ctx ty unit unit unit unit := shipped_ctx_with (fun l => l) (fun _ _ => 0).

Definition exn_code (e : exn) : Z :=
  match e with
  | KeyError => 1 | ValueError => 2 | NotImplementedError => 3 | DispatchError => 4
  | NetworkXError => 5 | StopIteration => 6 | NetworkXUnfeasible => 7 | OutOfFuel => 8 | _ => 9
  end.

Definition style_code (s : style) : Z := match s with Dashed => 1 | Solid => 0 end.

Definition enc_graph (g : graph ty unit unit) : list Z :=
  [Z.of_nat (length (g_nodes g))] ++ map ty_index (g_nodes g) ++
  let es := g_edges ty_eqb g in
  [Z.of_nat (length es)] ++ flat_map (fun '(u, v, a) => [ty_index u; ty_index v; style_code (ea_style a)]) es.

Definition warn_enc (w : warning ty) : list Z :=
  match w with Warn site payload => [Z.of_nat site; Z.of_nat (length payload)] ++ map ty_index payload end.

(* [order]: the types in the iteration order of set(types); output: status, root, relation graph,
   base graph, types (node order of the relation graph), warnings *)
Definition build_out (order : list Z) : list Z :=
  let tys := flat_map (fun i => match ty_of_index i with Some t => [t] | None => [] end) order in
  match VT_init shipped_ctx (VT_blank shipped_ctx) tys [] with
  | Raise e => [exn_code e]
  | Ok (_, ts, warns) =>
      let root := match VT_root_node shipped_ctx ts with Ok (r, _) => ty_index r | Raise _ => -1 end in
      [0; root] ++ enc_graph (relation_graph ts) ++ enc_graph (base_graph ts)
        ++ [Z.of_nat (length (types ts))] ++ map ty_index (types ts)
        ++ [Z.of_nat (length warns)] ++ flat_map warn_enc warns
  end.

(* the same through build_graph(ordered list) + next(topological_sort): no Generic check *)
Definition build_out_bg (order : list Z) : list Z :=
  let tys := flat_map (fun i => match ty_of_index i with Some t => [t] | None => [] end) order in
  match build_graph shipped_ctx tys [] with
  | Raise e => [exn_code e]
  | Ok ((rg, bg), warns) =>
      match find_root_node shipped_ctx rg with
      | Raise e => [exn_code e]
      | Ok r =>
        [0; ty_index r] ++ enc_graph rg ++ enc_graph bg
          ++ [Z.of_nat (length (g_nodes rg))] ++ map ty_index (g_nodes rg)
          ++ [Z.of_nat (length warns)] ++ flat_map warn_enc warns
      end
  end.

(* ---- export: render is instantiated with an injective packing of its argument, decoded again
   here, so the runner shows exactly what the generated code hands to pydot *)
Definition pack (xs : list Z) : Z := fold_left (fun acc x => acc * 64 + (x + 1)) xs 1.
Fixpoint unpack_fuel (fuel : nat) (z : Z) (acc : list Z) : list Z :=
  match fuel with
  | O => acc
  | S f => if Z.leb z 1 then acc else unpack_fuel f (z / 64) ((z mod 64 - 1) :: acc)
  end.
Definition unpack (z : Z) : list Z := unpack_fuel 4000 z [].

Definition enc_render (nodes : list ty) (edges : list (ty * ty * option style)) : Z :=
  pack ([Z.of_nat (length nodes)] ++ map ty_index nodes ++ [Z.of_nat (length edges)] ++
        flat_map (fun '(u, v, s) => [ty_index u; ty_index v; match s with Some st => style_code st | None => 2 end]) edges).

Definition export_ctx : ctx ty unit unit unit unit := shipped_ctx_with (fun l => l) enc_render.

Definition tys_of (order : list Z) : list ty :=
  flat_map (fun i => match ty_of_index i with Some t => [t] | None => [] end) order.

(* [base_only; order...] -> status; n; nodes; m; (u v style)* as handed to pydot *)
Definition export_out (args : list Z) : list Z :=
  match args with
  | b :: order =>
      match VT_init export_ctx (VT_blank export_ctx) (tys_of order) [] with
      | Raise e => [exn_code e]
      | Ok (_, ts, _) =>
          match VT_output_graph export_ctx ts (Z.eqb b 1) with
          | Raise e => [exn_code e]
          | Ok z => 0 :: unpack z
          end
      end
  | [] => [9]
  end.

(* ---- algebra: [op; is_type; n_a; a...; b...]  op 0 add, 1 sub, 2 iadd, 3 isub, 4 replace(b = old new),
   5 Type + Type (a = [t], b = [u]).  Result: status; sorted? no: types in node order; edges; warnings of
   the operation only *)
Definition enc_ts (r : res (VisionsTypeset ty unit unit * list (warning ty))) : list Z :=
  match r with
  | Raise e => [exn_code e]
  | Ok (ts, warns) =>
      [0] ++ [Z.of_nat (length (types ts))] ++ map ty_index (types ts) ++ enc_graph (relation_graph ts)
          ++ [Z.of_nat (length warns)] ++ flat_map warn_enc warns
  end.

Definition algebra_out (args : list Z) : list Z :=
  match args with
  | op :: is_type :: n :: rest =>
      let a := tys_of (firstn (Z.to_nat n) rest) in
      let b := tys_of (skipn (Z.to_nat n) rest) in
      let X := shipped_ctx in
      if Z.eqb op 5 then
        match a, b with
        | [t], [u] => enc_ts (Type_add X t u [])
        | _, _ => [9]
        end
      else
      match VT_init X (VT_blank X) a [] with
      | Raise e => [100 + exn_code e]
      | Ok (_, tsa, _) =>
          if Z.eqb op 4 then
            match b with
            | [old; new] => enc_ts (VT_replace X tsa old new [])
            | _ => [9]
            end
          else
          let other : res (ty + VisionsTypeset ty unit unit) :=
            if Z.eqb is_type 1 then match b with [t] => Ok (inl t) | _ => Raise OtherExn end
            else match VT_init X (VT_blank X) b [] with Ok (_, tsb, _) => Ok (inr tsb) | Raise e => Raise e end in
          match other with
          | Raise e => [200 + exn_code e]
          | Ok o =>
              if Z.eqb op 0 then enc_ts (VT_add X tsa o [])
              else if Z.eqb op 1 then enc_ts (VT_sub X tsa o [])
              else if Z.eqb op 2 then enc_ts (VT_iadd X tsa o [])
              else enc_ts (VT_isub X tsa o [])
          end
      end
  | _ => [9]
  end.

Definition build_any (mode_order : list Z) : list Z :=
  match mode_order with
  | m :: order =>
      if Z.eqb m 0 then build_out order
      else if Z.eqb m 1 then build_out_bg order
      else if Z.eqb m 2 then algebra_out order
      else export_out order
  | [] => [9]
  end.
