"""Registry of the translators (one per source module of /repo)."""
from .common import register_gen
from . import gen_cache


@register_gen("cache")
def _cache(repo):
    return gen_cache.generate(repo)
from . import gen_engine


@register_gen("engine")
def _engine(repo):
    return gen_engine.generate(repo)
from . import gen_shipped


@register_gen("shipped")
def _shipped(repo):
    files, info = gen_shipped.generate(repo)
    return files, {k: v for k, v in info.items() if k in ("translated", "hand")}
from . import gen_spark


@register_gen("spark")
def _spark(repo):
    files, info = gen_spark.generate(repo)
    return files, {k: v for k, v in info.items() if k in ("translated", "hand")}
from . import gen_pandas


@register_gen("pandas")
def _pandas(repo):
    files, info = gen_pandas.generate(repo)
    return files, {k: v for k, v in info.items() if k in ("translated", "hand")}
from . import gen_effects


@register_gen("effects")
def _effects(repo):
    files, info = gen_effects.generate(repo)
    return files, {k: v for k, v in info.items() if k in ("translated", "hand")}
from . import gen_python


@register_gen("python")
def _python(repo):
    files, info = gen_python.generate(repo)
    return files, {k: v for k, v in info.items() if k in ("translated", "hand")}
