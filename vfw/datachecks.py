"""Property oracles on the implementation for the relation-level properties C03 C04 C05 C06 C07 C09
(shared helpers; each property has its own thin check module)."""
import datetime
import traceback
import warnings

import numpy as np
import pandas as pd


def same_series(a, b):
    if a is b:
        return True
    try:
        if len(a) != len(b) or str(a.dtype) != str(b.dtype) or not a.index.equals(b.index) or a.name != b.name:
            return False
    except Exception:  # noqa
        return False
    try:
        if a.equals(b):
            return True
    except Exception:  # noqa   (pandas cannot hash some categorical dtypes)
        pass
    try:
        return all((x is y) or bool(x == y) or (x != x and y != y) for x, y in zip(list(a), list(b)))
    except Exception:  # noqa
        return False


def isnull(v):
    try:
        return v is None or (pd.api.types.is_scalar(v) and pd.isna(v) is True) or (isinstance(v, float) and v != v)
    except Exception:  # noqa
        return False


def visions_frame(tb):
    """the innermost visions function in a traceback (for classification)"""
    fr = [f for f in traceback.extract_tb(tb) if "/visions/" in f.filename]
    if not fr:
        return "?"
    f = fr[-1]
    return f"{f.filename.split('/visions/')[-1]}:{f.name}"


# ------------------------------------------------------------------ C09
def c09_one(ts, tsname, x, backend):
    fails = []

    def F(what, cls, **kw):
        fails.append(dict(what=what, **{"class": cls}, typeset=tsname, backend=backend, **kw))
    for t in sorted(ts.types, key=str):
        try:
            r = x in t
            if r is not True and r is not False and not isinstance(r, (bool, np.bool_)):
                F(f"`seq in {t}` returned {r!r} (not a bool)", f"in-nonbool:{t}")
        except Exception as e:  # noqa
            F(f"`seq in {t}` raised {type(e).__name__}: {str(e)[:80]}", f"in:{t}:{type(e).__name__}", where=visions_frame(e.__traceback__))
    for name in ("detect_type", "infer_type", "cast_to_detected", "cast_to_inferred"):
        try:
            r = getattr(ts, name)(x)
        except Exception as e:  # noqa
            w = visions_frame(e.__traceback__)
            F(f"{name} raised {type(e).__name__}: {str(e)[:100]}", f"{name.split('_')[0] if name.startswith('cast') else name}:{type(e).__name__}:{w}", where=w)
            continue
        if name.endswith("_type") and r not in ts.types:
            F(f"{name} returned {r}, not a type of the typeset", f"{name}:outside")
    try:
        if x not in [t for t in ts.types if t.__name__ == "Generic"][0]:
            F("the sequence is not contained in Generic", "generic")
    except Exception:  # noqa
        pass
    return fails


# ------------------------------------------------------------------ C03 / C04
def c03_one(ts, tsname, x, backend):
    fails = []

    def F(what, cls, **kw):
        fails.append(dict(what=what, **{"class": cls}, typeset=tsname, backend=backend, **kw))
    try:
        c, path, _ = ts.infer(x)
        t = ts.infer_type(x)
    except Exception:  # noqa   (C09)
        return fails
    if isinstance(path, dict):
        return fails
    try:
        if c not in t:
            F(f"cast_to_inferred(x) is not contained in infer_type(x) = {t} (infer path {path})", f"cast-not-in:{t}", path=[str(p) for p in path])
        else:
            d = ts.detect_type(c)
            if d is not t:
                F(f"detect_type(cast_to_inferred(x)) = {d} but infer_type(x) = {t} (infer path {path})", f"detect-of-cast:{t}->{d}", path=[str(p) for p in path])
    except Exception:  # noqa
        pass
    # every coercion on the way lands inside its target
    cur = x
    for a, b in zip(path, path[1:]):
        rel = ts.relation_graph[a][b]["relationship"]
        try:
            cur = rel.transform(cur, {})
            if rel.inferential and cur not in b:
                F(f"the relation {a}->{b} was taken but its result is not contained in {b}", f"lands:{a}->{b}", path=[str(p) for p in path])
                break
        except Exception:  # noqa
            break
    return fails


def c04_one(ts, tsname, x, backend):
    fails = []

    def F(what, cls, **kw):
        fails.append(dict(what=what, **{"class": cls}, typeset=tsname, backend=backend, **kw))
    try:
        c = ts.cast_to_inferred(x)
        t = ts.infer_type(x)
    except Exception:  # noqa
        return fails
    if isinstance(t, dict):
        try:
            t2 = ts.infer_type(c)
        except Exception as e:  # noqa
            F(f"inferring the already cast frame raised {type(e).__name__}", f"reinfer-raises:frame:{type(e).__name__}")
            return fails
        for col in t:
            if t2.get(col) is not t[col]:
                F(f"column {col!r}: infer_type(cast_to_inferred(df)) = {t2.get(col)} but infer_type(df) = {t[col]}", f"not-fixpoint:frame:{t[col]}->{t2.get(col)}")
        if not fails:
            # casting the cast frame again changes nothing: same shape, index, columns, dtypes and cells
            try:
                c2 = ts.cast_to_inferred(c)
            except Exception as e:  # noqa
                F(f"casting the already cast frame raised {type(e).__name__}", f"recast-raises:frame:{type(e).__name__}")
                return fails
            if c2.shape != c.shape or list(c2.columns) != list(c.columns) or not c2.index.equals(c.index) or len(c) != len(x):
                F(f"cast frame has shape {c.shape} / index {list(c.index)[:6]} (input {x.shape} / {list(x.index)[:6]}), cast again {c2.shape} / {list(c2.index)[:6]}", "recast-changes:frame:shape")
            else:
                for col in c.columns:
                    if c.columns.is_unique and not same_series(c2[col], c[col]):
                        F(f"column {col!r}: cast_to_inferred applied to the already cast frame changed it (dtype {c[col].dtype} -> {c2[col].dtype})", f"recast-changes:frame:{t.get(col)}")
                        break
        return fails
    try:
        t2 = ts.infer_type(c)
        c2 = ts.cast_to_inferred(c)
    except Exception as e:  # noqa
        F(f"inferring the already cast data raised {type(e).__name__}: {str(e)[:80]}", f"reinfer-raises:{t}:{type(e).__name__}")
        return fails
    if t2 is not t:
        F(f"infer_type(cast_to_inferred(x)) = {t2} but infer_type(x) = {t}", f"not-fixpoint:{t}->{t2}")
    elif c2 is c:
        pass
    elif isinstance(c, pd.Series) and not same_series(c2, c):
        F(f"cast_to_inferred applied to already cast data changed it (type {t}; dtype {c.dtype} -> {c2.dtype})", f"recast-changes:{t}")
    elif isinstance(c, np.ndarray) and not (c2.dtype == c.dtype and c2.shape == c.shape and all((u == v) or (u != u and v != v) for u, v in zip(c.tolist(), c2.tolist()))):
        F(f"cast_to_inferred applied to already cast data changed it (type {t})", f"recast-changes:{t}")
    return fails


# ------------------------------------------------------------------ C05
def snapshot(x):
    """deep snapshot: values (repr + identity of object elements), dtype, index, name"""
    if isinstance(x, pd.Series):
        vals = list(x.array) if x.dtype != object else list(x.values)
        return ("series", str(x.dtype), [repr(v) for v in vals], [id(v) for v in x.values] if x.dtype == object else None,
                [repr(i) for i in x.index], repr(x.name))
    if isinstance(x, pd.DataFrame):
        return ("frame", [snapshot(x[c]) for c in x.columns], [repr(c) for c in x.columns])
    if isinstance(x, np.ndarray):
        return ("array", str(x.dtype), x.shape, [repr(v) for v in x.tolist()], [id(v) for v in x] if x.dtype == object else None)
    if isinstance(x, list):
        return ("list", [repr(v) for v in x], [id(v) for v in x])
    return ("other", repr(x))


def c05_one(ts, tsname, x, backend):
    fails = []

    def F(what, cls, **kw):
        fails.append(dict(what=what, **{"class": cls}, typeset=tsname, backend=backend, **kw))
    before = snapshot(x)
    calls = [("in", lambda: [x in t for t in ts.types]), ("detect", lambda: ts.detect(x)), ("infer", lambda: ts.infer(x)),
             ("cast_to_detected", lambda: ts.cast_to_detected(x)), ("cast_to_inferred", lambda: ts.cast_to_inferred(x))]
    results = {}
    for name, f in calls:
        try:
            results[name] = f()
        except Exception:  # noqa
            results[name] = None
        after = snapshot(x)
        if after != before:
            F(f"{name} changed the caller's data: {str(before)[:120]} -> {str(after)[:120]}", f"mutated-by:{name}")
            before = after
    # every relation, also those tried and rejected
    for a, b, d in ts.relation_graph.edges(data=True):
        rel = d["relationship"]
        try:
            ok = rel.is_relation(x, {})
            if ok:
                rel.transform(x, {})
        except Exception:  # noqa
            pass
        after = snapshot(x)
        if after != before:
            F(f"evaluating relation {a}->{b} changed the caller's data", f"mutated-by-relation:{a}->{b}")
            before = after
    if results["cast_to_detected"] is not None and not isinstance(x, pd.DataFrame) and results["cast_to_detected"] is not x:
        F("cast_to_detected did not return the object it was given", "detected-not-same-object")
    if results["infer"] is not None and results["detect"] is not None and not isinstance(x, pd.DataFrame):
        ipath, dpath = results["infer"][1], results["detect"][1]
        if ipath == dpath and results["cast_to_inferred"] is not x:
            F(f"inference applied no coercion (path {ipath}) but cast_to_inferred returned a different object", "inferred-not-same-object")
    # history: an equal but distinct object is processed next - its no-op cast returns IT, not something remembered from the first call
    if isinstance(x, pd.Series) and results["cast_to_detected"] is x:
        try:
            twin = x.copy(deep=True)
            r2 = ts.cast_to_detected(twin)
            i2 = ts.cast_to_inferred(twin) if results["cast_to_inferred"] is x else twin
        except Exception:  # noqa
            r2 = i2 = None
        if r2 is not None and (r2 is not twin or i2 is not twin):
            F(f"after the same call on an equal series, cast_to_{'detected' if r2 is not twin else 'inferred'} of a distinct equal series ({len(x)} rows, dtype {x.dtype}) "
              "did not return the object it was given (the result is shared with the earlier call)", "twin-not-same-object")
    return fails


# ------------------------------------------------------------------ C06
def decode_chain(path, v):
    """independent element decoders along an inference path; returns decoded value or raises"""
    import ipaddress
    import pathlib
    import uuid
    from urllib.parse import urlparse
    names = [p.__name__ for p in path]
    cur = v
    for a, b in zip(names, names[1:]):
        if isnull(cur):
            return float("nan")          # text such as 'nan' / 'NaT' decodes to a missing value, which stays missing
        if (a, b) == ("String", "Float"):
            cur = float(cur)
        elif (a, b) == ("Float", "Integer"):
            if cur != int(cur):
                raise ValueError("not integral")
            cur = int(cur)
        elif (a, b) == ("String", "Complex"):
            cur = complex(cur)
        elif (a, b) == ("Complex", "Float"):
            if complex(cur).imag != 0:
                raise ValueError("imag")
            cur = complex(cur).real
        elif (a, b) == ("String", "Boolean"):
            m = {"true": True, "false": False, "yes": True, "no": False, "y": True, "n": False, "t": True, "f": False}
            cur = m[cur.lower()]
        elif (a, b) == ("Object", "Boolean"):
            cur = bool(cur)
        elif (a, b) == ("String", "DateTime"):
            cur = pd.Timestamp(cur)
        elif (a, b) == ("DateTime", "Date"):
            ts_ = pd.Timestamp(cur)
            if ts_ != ts_.normalize():          # any time-of-day part, down to the nanosecond, has no exact date
                raise ValueError("not a midnight")
            cur = ts_.date()
        elif (a, b) == ("String", "URL"):
            cur = urlparse(cur)
        elif (a, b) == ("String", "Path"):
            # the flavour is chosen per column by the transformer; either flavour's parse of the text is an exact decoding
            cur = EitherPath(cur)
        elif (a, b) == ("String", "IPAddress"):
            cur = ipaddress.ip_address(cur)
        elif (a, b) == ("String", "UUID"):
            cur = uuid.UUID(cur)
        elif (a, b) == ("String", "EmailAddress"):
            from visions.types.email_address import FQDA
            cur = FQDA(*cur.split("@", maxsplit=1))
        elif (a, b) == ("String", "Geometry"):
            from shapely import wkt
            cur = wkt.loads(cur)
    return cur


class EitherPath:
    """the exact decodings of a path text: its PureWindowsPath and its PurePosixPath parse"""

    def __init__(self, text):
        import pathlib
        self.text, self.options = text, (pathlib.PureWindowsPath(text), pathlib.PurePosixPath(text))

    def __repr__(self):
        return f"{self.options[0]!r} or {self.options[1]!r}"


def elem_equal(a, b):
    try:
        if isinstance(b, EitherPath):
            return any(type(a) is type(o) and a == o for o in b.options)
        if isnull(a) and isnull(b):
            return True
        if hasattr(a, "equals") and hasattr(b, "geom_type"):
            return bool(a.equals(b))
        if isinstance(a, (float, np.floating)) and isinstance(b, (float, np.floating)):
            return a == b or (a != a and b != b)
        if isinstance(b, pd.Timestamp) or isinstance(a, pd.Timestamp):
            return pd.Timestamp(a) == pd.Timestamp(b)
        isb = lambda v: isinstance(v, (bool, np.bool_))  # noqa
        return bool(a == b) and (isb(a) == isb(b) or not isb(b))
    except Exception:  # noqa
        return False


def c06_one(ts, tsname, x, backend):
    fails = []

    def F(what, cls, **kw):
        fails.append(dict(what=what, **{"class": cls}, typeset=tsname, backend=backend, **kw))
    if isinstance(x, pd.DataFrame):
        try:
            cf = ts.cast_to_inferred(x)
        except Exception:  # noqa
            return fails
        for col in x.columns:
            try:
                cs = ts.cast_to_inferred(x[col])
            except Exception:  # noqa
                continue
            if col not in cf.columns or not same_series(cf[col], cs):
                F(f"column {col!r} of the cast frame differs from the cast of the column alone", "frame-column")
        return fails
    if not isinstance(x, pd.Series):
        return fails
    try:
        c, path, _ = ts.infer(x)
    except Exception:  # noqa
        return fails
    names = [p.__name__ for p in path]
    tag = "->".join(names[-2:]) if len(names) > 1 else names[0]
    if len(c) != len(x):
        F(f"cast has {len(c)} rows, input {len(x)} (path {names})", f"length:{tag}")
        return fails
    if not c.index.equals(x.index):
        F(f"cast index {list(c.index)[:5]} differs from the input index {list(x.index)[:5]} (path {names})", f"index:{tag}")
    if c.name != x.name and not (isnull(c.name) and isnull(x.name)):
        F(f"cast name {c.name!r} differs from {x.name!r} (path {names})", f"name:{tag}")
    xin, cout = list(x), list(c)
    for i, (vi, vo) in enumerate(zip(xin, cout)):
        if isnull(vi):
            if not isnull(vo):
                F(f"position {i}: missing value {vi!r} became {vo!r} along {names}", f"nullpos:{tag}")
                return fails
            continue
        try:
            want = decode_chain(path, vi)
            if isnull(want) and isnull(vo):
                continue          # 'nan' / 'NaT' text decodes to a missing value
            if isnull(vo):
                F(f"position {i}: {vi!r} became missing ({vo!r}) along {names}", f"nullpos:{tag}")
                return fails
        except Exception:  # noqa
            F(f"position {i}: {vi!r} was coerced along {names} to {vo!r} although its exact decoding does not exist (lossy coercion)", f"lossy:{tag}")
            return fails
        if not elem_equal(vo, want):
            F(f"position {i}: {vi!r} became {vo!r}, the exact decoding along {names} is {want!r}", f"decode:{tag}")
            return fails
    return fails


# ------------------------------------------------------------------ C07
def c07_one(ts, tsname, item, x):
    fails = []
    fam = item.get("family")
    if not isinstance(x, pd.Series):
        return fails
    names = {t.__name__ for t in ts.types}
    if len(x) == 0:
        try:
            t = ts.infer_type(x)
            if t.__name__ != "Generic":
                fails.append({"what": f"an empty column (dtype {x.dtype}) is inferred {t}, not Generic", "class": f"empty:{t}", "typeset": tsname, "backend": "pandas"})
        except Exception:  # noqa
            pass
        return fails
    if fam not in names or item.get("pool") in (None, "mixed", "bank", "special", "file") or "+" in str(item.get("pool")) or item.get("family") == "bx":
        return fails
    if all(isnull(v) for v in x):
        return fails
    try:
        t = ts.infer_type(x)
    except Exception:  # noqa
        return fails
    want = fam
    if t.__name__ != want:
        # a more specific identity descendant of the family is fine (Count under Integer, Ordinal under Categorical, File under Path)
        anc = t
        ok = False
        par = {c.__name__: [r.related_type.__name__ for r in c.get_relations() if not r.inferential] for c in ts.types}
        n = t.__name__
        for _ in range(6):
            if n == want:
                ok = True
                break
            ps = par.get(n, [])
            if not ps:
                break
            n = ps[0]
        if not ok:
            fails.append({"what": f"a column of the {want} family (pool {item['pool']}, dtype {item['dtype']}, nulls {item['nulls']}/{item['null']}) is inferred {t}",
                          "class": f"family:{want}:{item['pool']}:{item['dtype']}->{t}", "typeset": tsname, "backend": "pandas", "family": want, "pool": item["pool"], "enc_dtype": item["dtype"]})
    return fails


# ------------------------------------------------------------------ C07 on numpy arrays / Python lists: value preservation
C07_SEQ_CORNERS = (
    ["np.array(%s, dtype=np.%s)" % (vals, dt) for dt in ("float16", "float32", "float64")
     for vals in ("[1.0, 2.0]", "[40000.0, 1.0]", "[-40000.0, nan]", "[65504.0]", "[3e9, 1.0]", "[-3e9, nan, 5.0]", "[16777216.0, -16777216.0]", "[2.0 ** 40]",
                  "[9007199254740992.0, 1.0]", "[1e19, 1.0]", "[-1e19]", "[2.0 ** 63]", "[-2.0 ** 63, 0.0]", "[1e300, 1.0]", "[1.5, 2.0]", "[0.0, -0.0]")]
    + ["np.array(%s, dtype=np.%s)" % (vals, dt) for dt in ("complex64", "complex128") for vals in ("[1+0j, 2+0j]", "[3e9+0j]", "[1.5+0j, nan]", "[1e19+0j]")]
    + ["[1.0, 2.0]", "[3e9, 1.0]", "[1e19, 1.0]", "[1e300]", "[2.0 ** 63, -2.0 ** 63]", "[(1+0j), (3e9+0j)]", "[40000.0, -0.0]"])


def c07_seq_values(ts, tsname, x, backend):
    """numeric numpy arrays / Python lists: whatever numeric type the column is inferred as, the cast values equal the
    original values (missing values may be dropped by the numpy Integer transformer, which is documented)"""
    import cmath
    fails = []
    try:
        t = ts.infer_type(x)
        c = ts.cast_to_inferred(x)
    except Exception:  # noqa  (totality is C09's business)
        return fails
    if t.__name__ not in ("Integer", "Float", "Complex"):
        return fails

    def item(v):
        return v.item() if hasattr(v, "item") else v

    def isnan(v):
        return isinstance(v, (float, complex)) and cmath.isnan(v)
    orig = [item(v) for v in x]
    cast = [item(v) for v in c]
    if not all(isinstance(v, (int, float, complex)) and not isinstance(v, bool) for v in orig + cast):
        return fails
    if len(cast) != len(orig):
        orig = [v for v in orig if not isnan(v)]
    bad = [(o, k) for o, k in zip(orig, cast) if not (o == k or (isnan(o) and isnan(k)))] if len(orig) == len(cast) else [("length", len(orig), len(cast))]
    if bad:
        dt = getattr(x, "dtype", "list")
        fails.append({"what": f"{backend} {dt}: inferred {t.__name__}, but the cast values differ from the original values: {bad[:3]}", "class": f"seq-values:{backend}:{dt}:{t.__name__}",
                      "typeset": tsname, "backend": backend})
    return fails


# ------------------------------------------------------------------ C09 on pure Python lists (elements pandas would re-box: numpy scalars, big ints, subclasses)
C09_LIST_CORNERS = [
    "[np.float64(1.0), np.float64(2.0), np.float64(inf)]", "[np.float64(3.0), np.float64(-inf)]", "[np.float64(nan), np.float64(1.0)]", "[np.float32(1.0), np.float32(inf)]",
    "[1.0, 2.0, inf]", "[1.0, -inf]", "[nan, nan]", "[1e308, 1e308]", "[np.float64(1e300)]", "[np.int64(3), np.int64(-4)]", "[np.uint8(3)]", "[np.bool_(True), np.bool_(False)]",
    "[np.str_('a'), np.str_('1.5')]", "[np.complex128(1+0j), np.complex128(inf)]", "[complex(inf, 0), 1j]", "[complex(nan, nan)]", "[10 ** 400, 1]", "[-(10 ** 400)]",
    "['1e400', '1']", "['inf', '-inf']", "['nan']", "['1' * 5000]", "['(1+2j)', 'j']", "[np.datetime64('2020-01-01')]", "[np.timedelta64(1, 'D')]",
    "[datetime.datetime(1, 1, 1), datetime.datetime(9999, 12, 31)]", "['0001-01-01 00:00:00', '9999-12-31 23:59:59']", "['2020-01-01 00:00:00', '2020-13-01 00:00:00']",
    "[True, 1.0, np.float64(inf)]", "[0.0, np.float64(inf), 'a']", "[(), ()]", "[[1.0, inf]]", "[float('inf')] * 3 + [np.float64(2.0)]",
]


# ------------------------------------------------------------------ C03 / C04 on numpy arrays built directly (str dtype, >= 1024 rows, NaN placements)
NUMPY_DIRECT_CORNERS = [
    "np.array(['(1+2j)'] * 1100)", "np.array(['(1+2j)', '3j'] * 600)", "np.array(['(1.5+0.25j)', '(2-8j)'] * 512)", "np.array(['1.5'] * 1100)", "np.array(['1', '2'] * 600)",
    "np.array(['True', 'False'] * 600)", "np.array(['True', 'False'])", "np.array([1.0] * 1100)", "np.array([1.0, nan] * 600)", "np.array([1.5, nan] * 600)",
    "np.array(['2020-01-01'] * 1100)", "np.array(['a', 'b'] * 600)", "np.array([True, False] * 600)", "np.array([1, 2] * 600)", "np.array([1.0, nan, 3.0])",
    "np.array([nan, 2.0], dtype=np.float32)", "np.array([1.0, nan, nan, 4.0, 5.0])", "np.array([nan, 7.0, nan])", "np.array(['(1+2j)', '3j'])", "np.array(['1.5', '2.5'])",
]
