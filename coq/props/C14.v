(* C14 - Every constructible typeset is a well-formed rooted relation graph.
   Part 1 (this file, by computation on the table REGENERATED from types/*.py): the three table
   facts the general theorem needs, plus nesting of the shipped typesets.
   Part 2: theory/GraphWF.v lifts them to every parent-closed subset and supply order. *)
From Coq Require Import List Bool ZArith.
Import ListNotations.
From V Require Import PyBase NxModel Engine_gen Shipped_gen ShippedFacts.

Theorem C14_table_facts :
  T1 = true                      (* one identity parent per non-Generic type, none for Generic *)
  /\ T2 = true                   (* identity parents lead to Generic *)
  /\ T3 = true                   (* a rank strictly increases along every declared relation: no cycles *)
  /\ T4_nodup_sources = true     (* at most one relation per (source, type) *)
  /\ T5_identity_defaults = true (* identity relations use the default guard/transformer *)
  /\ T6_nested = true            (* StandardSet <= GeometrySet <= CompleteSet *)
  /\ T7_names_distinct = true
  /\ T8_shipped_sets_closed = true.
Proof. exact shipped_table_facts. Qed.
Print Assumptions C14_table_facts.

(* ---- Part 2: the lifting theorem.  For the GENERATED VisionsTypeset.__init__ / build_graph /
   check_isolates / check_cycles / find_root_node, instantiated with the REGENERATED shipped table,
   any order [si] in which Python iterates a freshly built set, any warning list on entry:
   EVERY parent-closed list of shipped types containing Generic (in every supply order, with
   duplicates) constructs without raising, and the result satisfies [wf_result]:
     root = Generic; nodes of the relation graph = the given types;
     edges = exactly the relations declared on included types whose source is included, each
     carrying its own relation object and style dashed iff inferential;
     identity graph = the identity relations (solid), no edge into Generic, exactly one parent
     for every other type, every type reachable from Generic, node set = the given types as soon
     as there are two;
     a rank strictly increases along every edge and check_cycles finds no cycle;
     warnings = exactly one site-3 warning per declared relation whose source type is absent. *)
From Coq Require Import Permutation.
From V Require Import NxFacts Graph_bridge GraphWF ShippedGraph.

Theorem C14_every_parent_closed_subset_is_well_formed :
  forall (si : list ty -> list ty) (rnd : list ty -> list (ty * ty * option style) -> Z),
    (forall l, NoDup l -> Permutation (si l) l) ->
  forall (types : list ty) (w0 : list (warning ty)),
    In tGeneric types -> parent_closed types = true ->
    let X := shipped_ctx_with si rnd in
    exists ts w1, VT_init X (VT_blank X) types w0 = Ok (tt, ts, w1) /\ wf_result X rk (mkset X types) w0 ts w1.
Proof. exact shipped_typesets_well_formed. Qed.
Print Assumptions C14_every_parent_closed_subset_is_well_formed.

Theorem C14_supply_order_is_irrelevant :
  forall (si : list ty -> list ty) (rnd : list ty -> list (ty * ty * option style) -> Z),
    (forall l, NoDup l -> Permutation (si l) l) ->
  forall types1 types2 w0 ts1 ts2 w1 w2,
    let X := shipped_ctx_with si rnd in
    In tGeneric types1 -> parent_closed types1 = true -> (forall t, In t types1 <-> In t types2) ->
    parent_closed types2 = true ->
    VT_init X (VT_blank X) types1 w0 = Ok (tt, ts1, w1) ->
    VT_init X (VT_blank X) types2 w0 = Ok (tt, ts2, w2) ->
    Permutation (g_nodes (relation_graph ts1)) (g_nodes (relation_graph ts2)) /\
    (forall u v, edge_at ty_eqb (relation_graph ts1) u v = edge_at ty_eqb (relation_graph ts2) u v) /\
    (forall u v, edge_at ty_eqb (base_graph ts1) u v = edge_at ty_eqb (base_graph ts2) u v).
Proof. exact shipped_order_independent. Qed.
Print Assumptions C14_supply_order_is_irrelevant.

(* the general statement, for ANY relation table with the table facts (user-defined types included) *)
Theorem C14_general :
  forall (T D St L F : Type) (X : ctx T D St L F) (rk : T -> nat),
    (forall a b, T_eqb X a b = true <-> a = b) ->
    (forall t r, In r (relations X t) -> type_ r = t) ->
    (forall l, NoDup l -> Permutation (set_iter X l) l) ->
    (forall t, is_generic X t = true <-> t = Generic X) ->
    relations X (Generic X) = [] ->
    (forall t r r', In r (relations X t) -> In r' (relations X t) -> related_type r = related_type r' -> r = r') ->
    (forall t r r', In r (relations X t) -> In r' (relations X t) -> inferential r = false -> inferential r' = false -> r = r') ->
    (forall t r, In r (relations X t) -> rk (related_type r) < rk t) ->
    forall types w0,
      In (Generic X) types ->
      (forall t, In t types -> t <> Generic X -> exists r, In r (relations X t) /\ inferential r = false /\ In (related_type r) types) ->
      exists ts w1, VT_init X (VT_blank X) types w0 = Ok (tt, ts, w1) /\ wf_result X rk (mkset X types) w0 ts w1.
Proof. intros T D St L F. exact typeset_well_formed. Qed.
Print Assumptions C14_general.

(* non-vacuity: the three shipped typesets meet the hypotheses *)
Example C14_hypotheses_hold_for_shipped_sets :
  (In tGeneric standard_set /\ parent_closed standard_set = true) /\
  (In tGeneric geometry_set /\ parent_closed geometry_set = true) /\
  (In tGeneric complete_set /\ parent_closed complete_set = true).
Proof. vm_compute. intuition. Qed.
