(* Executable instance of the GENERATED engine for the correspondence harness: user-defined
   type systems as data.  Hand-written; it contains the hand model of
   VisionsBaseTypeMeta.relations (defaults filled in by attr.evolve) and of multimethod
   dispatch on the class of the data, which is exactly what the correspondence validates. *)
From Coq Require Import List Bool ZArith.
Import ListNotations.
From V Require Import PyBase NxModel Engine_gen.
Open Scope Z_scope.
Open Scope py_scope.

(* data: (class id of the sequence object, values); state: the list stored under state["log"] *)
Definition data := (Z * list Z)%type.
Definition state := list Z.

(* a guard implementation: accepts iff all values are in [allowed]; optionally appends [tag] to
   the log; raises ValueError when the data contains [raise_on] *)
Record gimpl := mkG_ { allowed : list Z; logs : option Z; raise_on : option Z }.
(* a transformer implementation: elementwise finite map (KeyError outside its domain) *)
Record timpl := mkT_ { pairs : list (Z * Z); tlogs : option Z }.

(* per-class registrations: class id -1 is the (Any, dict) base implementation *)
Definition dispatch {A} (impls : list (Z * A)) (cls : Z) : res A :=
  match od_find Z.eqb impls cls with
  | Some a => Ok a
  | None => match od_find Z.eqb impls (-1) with Some a => Ok a | None => Raise DispatchError end
  end.

Definition memZ (x : Z) (l : list Z) := existsb (Z.eqb x) l.

Definition run_guard (g : gimpl) (d : data) (st : state) : res (bool * state) :=
  let st' := match logs g with Some t => st ++ [t] | None => st end in
  match raise_on g with
  | Some r => if memZ r (snd d) then Raise ValueError else Ok (forallb (fun x => memZ x (allowed g)) (snd d), st')
  | None => Ok (forallb (fun x => memZ x (allowed g)) (snd d), st')
  end.

Definition run_trans (t : timpl) (d : data) (st : state) : res (data * state) :=
  let st' := match tlogs t with Some x => st ++ [x] | None => st end in
  vs <- map_res (fun x => od_getitem Z.eqb (pairs t) x) (snd d) ;;
  Ok ((fst d, vs), st').

Record decl := mkDecl {
  dc_related : Z; dc_inferential : bool;
  dc_guard : option (list (Z * gimpl));     (* None: not given *)
  dc_trans : option (list (Z * timpl))      (* None: not given *)
}.
Record tdef := mkTdef { td_id : Z; td_generic : bool; td_contains : list (Z * gimpl); td_decls : list decl }.

Definition find_tdef (sys : list tdef) (t : Z) : option tdef := find (fun d => Z.eqb (td_id d) t) sys.

Definition contains_of (sys : list tdef) (t : Z) (d : data) (st : state) : res (bool * state) :=
  match find_tdef sys t with
  | None => Raise OtherExn
  | Some td => g <- dispatch (td_contains td) (fst d) ;; run_guard g d st
  end.

(* hand model of VisionsBaseTypeMeta.relations *)
Definition relation_of (sys : list tdef) (t : Z) (dc : decl) : relation Z data state :=
  let guard :=
    match dc_guard dc with
    | Some impls => fun d st => g <- dispatch impls (fst d) ;; run_guard g d st
    | None => if dc_inferential dc
              then fun _ _ => Raise NotImplementedError        (* default_relation *)
              else contains_of sys t                           (* cls.contains_op *)
    end in
  let trans :=
    match dc_trans dc with
    | Some impls => fun d st => f <- dispatch impls (fst d) ;; run_trans f d st
    | None => fun d st => Ok (d, st)                           (* identity_transform *)
    end in
  mkRel (dc_related dc) t (dc_inferential dc) guard trans.

Definition sys_ctx (sys : list tdef) : ctx Z data state Z (list (Z * data)) :=
  mkCtx Z.eqb Z.eqb
    (fun t => match find_tdef sys t with Some td => map (relation_of sys t) (td_decls td) | None => [] end)
    (contains_of sys)
    (fun t => match find_tdef sys t with Some td => td_generic td | None => false end)
    0
    (fun l => l)                     (* the harness supplies lists already in set-iteration order *)
    (fun _ => [])
    (fun d => Z.of_nat (length (snd d)))
    (fun d _ => d)
    (fun f => map fst f)
    (fun f c => od_getitem Z.eqb f c)
    (fun l => l)
    (fun l => l)
    (fun _ _ => Raise KeyError)
    (fun t => t)
    (fun _ _ => 0).

Inductive outcome :=
| OOk (d : list Z) (path : list Z) (log : list Z)
| ORaise (code : Z).

Definition exn_code (e : exn) : Z :=
  match e with
  | KeyError => 1 | ValueError => 2 | NotImplementedError => 3 | DispatchError => 4
  | NetworkXError => 5 | StopIteration => 6 | NetworkXUnfeasible => 7 | OutOfFuel => 8 | _ => 9
  end.

(* mode 0: detect, 1: infer *)
Definition init_sys (so : list tdef * list Z) :=
  let X := sys_ctx (fst so) in VT_init X (VT_blank X) (snd so) [].

Definition run_on (sys : list tdef) (init : res (unit * VisionsTypeset Z data state * list (warning Z))) (mode : Z) (d : data) : outcome :=
  let X := sys_ctx sys in
  match init with
  | Raise e => ORaise (100 + exn_code e)
  | Ok (_, ts, _) =>
      let fuel := (200 + length sys)%nat in   (* acyclic systems need <= |sys|; cyclical ones may revisit types *)
      match (if Z.eqb mode 0 then VT_detect X fuel ts d else VT_infer X fuel ts d) with
      | Raise e => ORaise (exn_code e)
      | Ok ((dd, p, st), _) => OOk (snd dd) p st
      end
  end.
Definition run_sys (sys : list tdef) (order : list Z) (mode : Z) (d : data) : outcome :=
  run_on sys (init_sys (sys, order)) mode d.

Fixpoint list_eqb (a b : list Z) : bool :=
  match a, b with
  | [], [] => true
  | x :: a', y :: b' => andb (Z.eqb x y) (list_eqb a' b')
  | _, _ => false
  end.
Definition outcome_eqb (a b : outcome) : bool :=
  match a, b with
  | OOk d p l, OOk d' p' l' => andb (list_eqb d d') (andb (list_eqb p p') (list_eqb l l'))
  | ORaise c, ORaise c' => Z.eqb c c'
  | _, _ => false
  end.

(* one system (with the set-iteration order the implementation used) and its cases *)
Definition group := (list tdef * list Z * list (Z * data * outcome))%type.

Definition group_mismatches (gi : Z) (g : group) : list (Z * Z * outcome) :=
  let '(sys, order, cs) := g in
  let init := init_sys (sys, order) in
  let fix go (i : Z) (cs : list (Z * data * outcome)) :=
    match cs with
    | [] => []
    | (mode, d, expect) :: cs' =>
        let got := run_on sys init mode d in
        (if outcome_eqb got expect then [] else [(gi, i, got)]) ++ go (i + 1) cs'
    end in
  go 0 cs.

Fixpoint mismatches_from (gi : Z) (gs : list group) : list (Z * Z * outcome) :=
  match gs with
  | [] => []
  | g :: gs' => group_mismatches gi g ++ mismatches_from (gi + 1) gs'
  end.
Definition mismatches (gs : list group) := mismatches_from 0 gs.
