"""C02 - decidable traversal: at most one outgoing relation accepts; answers independent of order."""
import json
import random
import warnings

import numpy as np

from . import common as C
from . import oracle, streams

PROP = "C02"
PROP_FILE = "props/C02.v"
TARGETS = ["props/C02.vo"]


def accepting(ts, graph, node, x):
    acc = []
    for v in graph.successors(node):
        rel = graph[node][v]["relationship"]
        try:
            if rel.is_relation(x, {}):
                acc.append(v)
        except Exception:  # noqa  (a guard that raises is C09's subject)
            pass
    return acc


def explore(ts, graph, node, x, depth=0, out=None):
    """visit every admissible branch; record nodes where more than one relation accepts"""
    out = out if out is not None else []
    if depth > 12:
        return out
    acc = accepting(ts, graph, node, x)
    if len(acc) > 1:
        out.append((node.__name__, sorted(a.__name__ for a in acc)))
    for v in acc:
        rel = graph[node][v]["relationship"]
        try:
            y = rel.transform(x, {})
        except Exception:  # noqa
            continue
        explore(ts, graph, v, y, depth + 1, out)
    return out


def check_one(ts, tsname, x, backend):
    fails = []
    for gname, g in (("relation_graph", ts.relation_graph), ("base_graph", ts.base_graph)):
        if ts.root_node not in g:
            continue
        for node, accs in explore(ts, g, ts.root_node, x):
            fails.append({"what": f"at {node} more than one outgoing relation of {tsname}.{gname} accepts the data: {accs}",
                          "class": f"{node}:{'+'.join(accs)}", "typeset": tsname, "backend": backend, "node": node, "accepting": accs, "graph": gname})
    return fails


def oracle_fn(ctx, item, s):
    fails = []
    for name, ts in ctx["typesets"].items():
        fails += check_one(ts, name, s, "pandas")
    if ctx.get("numpy", True):
        try:
            arr = s.to_numpy()
        except Exception:  # noqa
            arr = None
        if isinstance(arr, np.ndarray) and arr.ndim == 1:
            fails += check_one(ctx["typesets"]["StandardSet"], "StandardSet", arr, "numpy")
    # dedupe: same class reported once per item
    seen, out = set(), []
    for f in fails:
        if (f["class"], f["backend"]) not in seen:
            seen.add((f["class"], f["backend"]))
            out.append(f)
    return out


def order_check(rnd, items, n_orders):
    """infer / detect under permuted graph construction orders (build_graph with an ordered list)"""
    from .c19 import typeset_in_order
    fails = []
    names = streams.TYPE_NAMES
    base = None
    for k in range(n_orders):
        order = list(names)
        rnd.shuffle(order)
        ts = typeset_in_order(order)
        res = []
        for it in items:
            try:
                with warnings.catch_warnings():
                    warnings.simplefilter("ignore")
                    s = streams.materialise(it)
                    res.append((ts.infer_type(s).__name__, ts.detect_type(s).__name__))
            except Exception:  # noqa
                res.append(None)
        if base is None:
            base, base_order = res, order
        else:
            for it, a, b in zip(items, base, res):
                if a != b:
                    fails.append({"what": f"(infer_type, detect_type) = {a} with supply order #0 but {b} with another supply order of the same CompleteSet types",
                                  "class": "order-dependent", "recipe": it["recipe"], "orders": [base_order, order], "typeset": "CompleteSet", "backend": "pandas"})
    return fails


def string_cross_stream(rnd, n):
    """strings from every parser grammar, fed to every guard (cross products), on whole columns"""
    pools = ["floatstr", "intstr", "intfloatstr", "boolstr", "ynstr", "complexstr", "datetimestr", "datestr", "urlstr", "pathstr", "ipstr", "uuidstr", "emailstr", "geomstr", "text"]
    extra = ["'2020'", "'20200101'", "'1e5'", "'0b8a22ca80ad4df585acfa49c44b7ede'", "'12345678123456781234567812345678'", "'c://x/y'", "'http://a@b/c'", "'/a@b'", "'1'", "'0'",
             "'01'", "'1.'", "'05.2020'", "'01.02'", "'007'", "'0.5e1'", "'1_000'", "'NaN'", "'None'", "'1/2/2020'", "'a@b'", "'::1'", "'1.1.1.1'", "'POINT (1 1)'", "'y'", "'t'", "'//a/b'", "'\\\\\\\\srv\\\\share\\\\f'", "'file:///x'", "'2020-01-01T00:00:00Z'"]
    out = []
    for _ in range(n):
        k = rnd.randint(1, 3)
        if rnd.random() < 0.5:
            vals = [rnd.choice(extra) for _ in range(k)]
        else:
            p = rnd.choice(pools)
            vals = [rnd.choice(streams.POOLS[p]) for _ in range(k)]
        if rnd.random() < 0.2:
            vals.insert(rnd.randrange(len(vals) + 1), rnd.choice(["None", "nan"]))
        out.append({"recipe": streams.series_recipe(vals, rnd.choice(["None", "None", "object", "'string'"])), "family": "strcross", "pool": "strcross",
                    "dtype": "None", "nulls": "?", "null": None, "len": len(vals), "index": "None"})
    return out


def replay(path):
    r = json.load(open(path))
    if "recipe" not in r:
        print("replay names a broken obligation, no input to re-run:", [o["name"] for o in r.get("broken_obligations", [])])
        return 1
    f = replay_entry({"replay": r})
    print("replay:", [x["what"] for x in f] if f else "property holds on this input")
    return 1 if f else 0


def replay_entry(e):
    r = e.get("replay", {})
    if "recipe" not in r:
        return [True]
    s = streams.materialise({"recipe": r["recipe"]})
    if r.get("class") == "order-dependent" or "orders" in r:
        return order_check(random.Random(0), [{"recipe": r["recipe"]}], 8)
    name = r.get("typeset", "CompleteSet")
    ts = streams.typeset_from_names(name[4:].split(",")) if name.startswith("sub:") else streams.shipped_typesets()[name]
    x = s.to_numpy() if r.get("backend") == "numpy" else s
    with warnings.catch_warnings():
        warnings.simplefilter("ignore")
        fs = check_one(ts, name, x, r.get("backend", "pandas"))
    if "class" in r and e.get("classifier"):
        from . import known
        return [f for f in fs if getattr(known, e["classifier"])(dict(f, recipe=r["recipe"]))]
    return fs


def run(args):
    if args.replay:
        return replay(args.replay)
    run = C.Run(PROP, args.tier, args.seed)
    rnd = random.Random(args.seed)
    info = C.std_coq_phase(run, ["engine"], TARGETS, PROP_FILE)
    deep = args.tier == "thorough" or bool(run.failed_obligations())
    items = streams.all_streams(rnd, "quick", n_fam=8000 if deep else 1000, n_mixed=2000 if deep else 300) + string_cross_stream(rnd, 6000 if deep else 600)
    ctx = {"typesets": streams.shipped_typesets()}
    new, seen_known, kn = oracle.run_oracle(run, PROP, items, oracle_fn, ctx)
    oc = order_check(rnd, rnd.sample(items, 300 if deep else 60) + streams.special_stream(), 20 if deep else 5)
    for f in oc:
        e = oracle.classify(PROP, f, kn)
        if e is None:
            new.append(f)
        else:
            seen_known.setdefault(e["id"], []).append(f)
    run.cov["known_finding_hits"] = {k: len(v) for k, v in seen_known.items()}
    nviol = oracle.report(run, PROP, new, seen_known, kn, replay_known=lambda e: bool(replay_entry(e)))
    if not nviol and run.failed_obligations():
        run.violation({"broken_obligations": run.failed_obligations(),
                       "searched": f"{run.cov.get('property_oracle_cases_on_impl')} sequences x shipped typesets (every successor's is_relation at every node of every admissible branch) and permuted construction orders: no new overlap"}, no_input=True)
    run.cov["rule"] = ("shared streams + cross-parser string columns; at every node of every admissible branch every successor's is_relation is evaluated; "
                       "CompleteSet rebuilt under permuted supply orders; distinct_nontrivial = distinct (family, pool, dtype, nulls) cells")
    run.cov["samples"] = [items[5]["recipe"], items[-1]["recipe"]]
    run.cov["trusted_base"] += [
        "engine theorem (order independence under exclusivity) is about the reference walk, which the generated engine equals (props/C12.v)",
        "exclusivity of the shipped relations themselves is decided here by evaluating the implementation's guards (and, for the identity layer, by the contains model of C16); string parsers are oracles",
    ]
    return run.finish("proof")
