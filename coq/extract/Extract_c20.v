From Coq Require Extraction ExtrOcamlBasic.
From V Require Import RunnerC20.
Extraction Language OCaml.
Extraction "model.ml" lru_trace od_trace.
