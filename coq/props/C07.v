(* C07 - Semantic recognition is independent of the machine representation.
   Proved part, over the REGENERATED pandas predicates: (1) an empty column belongs to no shipped type
   but Generic; (2) recognition by dtype family is agnostic of width / nullability / placement of
   missing values: any dtype for which the pandas family predicate answers True is recognised, whatever
   else it is.  Recognition of string- and object-encoded families goes through inference relations whose
   parsers are oracles: decided on the implementation over the family x encoding x sentinel grid. *)
From Coq Require Import List Bool ZArith.
Import ListNotations.
From V Require Import PyBase Values Shipped_gen PandasContains_gen ContainsTheory TotalTheory.
From V Require Import PyValues PythonContains_gen PythonBag.

Theorem C07_empty_column_is_only_Generic :
  forall t s, s_vals s = [] -> In t complete_set -> t <> tGeneric -> pandas_contains t s = Ok false.
Proof.
  intros t s He Hin Hg. apply empty_is_only_generic; [exact He | exact Hg |].
  intro Hs. subst t. vm_compute in Hin. intuition discriminate.
Qed.
Print Assumptions C07_empty_column_is_only_Generic.

Theorem C07_family_dtypes_are_recognised :
  forall s,
    (is_integer (s_dtype s) = true -> s_empty s = false -> In_type tInteger s) /\
    (is_float (s_dtype s) = true -> s_empty (norm s) = false -> In_type tFloat s) /\
    (is_bool (s_dtype s) = true -> is_categorical (s_dtype s) = false -> s_empty (norm s) = false -> In_type tBoolean s) /\
    (is_datetime64_any (s_dtype s) = true -> s_empty (norm s) = false -> In_type tDateTime s).
Proof.
  intro s. repeat split.
  - exact (integer_dtypes_are_Integer s).
  - exact (float_dtypes_are_Float s).
  - exact (bool_dtypes_are_Boolean s).
  - exact (datetime_dtypes_are_DateTime s).
Qed.
Print Assumptions C07_family_dtypes_are_recognised.

(* Python-list backend (REGENERATED backends/python/types/*.py): the empty list is in no type of a shipped
   typeset that has an identity edge from Generic, so the traversal from Generic takes no step on [] *)
Theorem C07_python_empty_list_is_in_no_child_of_Generic :
  forall t, mem_ty t complete_set = true -> generic_identity_child t = true -> python_contains t [] = false.
Proof. exact python_empty_in_no_child_of_generic. Qed.
Print Assumptions C07_python_empty_list_is_in_no_child_of_Generic.
