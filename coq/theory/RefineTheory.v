(* Order independence (C02c) and refinement between typesets (C15) for the reference walk:
   if along a walk every relation other than the one followed rejects (and guards leave the state
   alone), then the walk does not depend on the enumeration order of the successors, and the walk
   of a sub-typeset is the longest prefix of it inside the sub-typeset. *)
From Coq Require Import List Bool ZArith Lia Permutation.
Import ListNotations.
From V Require Import PyBase WalkSpec.
Open Scope py_scope.


Section Prefix.
  Context {T : Type}.
  Fixpoint is_prefix (p q : list T) : Prop :=
    match p, q with
    | [], _ => True
    | x :: p', y :: q' => x = y /\ is_prefix p' q'
    | _ :: _, [] => False
    end.

  Lemma is_prefix_refl p : is_prefix p p.
  Proof. induction p; simpl; auto. Qed.

  Lemma is_prefix_app p r : is_prefix p (p ++ r).
  Proof. induction p; simpl; auto. Qed.

  Lemma is_prefix_trans p q r : is_prefix p q -> is_prefix q r -> is_prefix p r.
  Proof.
    revert q r; induction p as [|x p IH]; intros q r H1 H2; [simpl; auto|].
    destruct q as [|y q]; [destruct H1|]. destruct r as [|z r]; [destruct H2|].
    simpl in *. destruct H1 as [-> H1], H2 as [-> H2]. split; [reflexivity | eapply IH; eauto].
  Qed.
End Prefix.

Section Exclusive.
  Context {T D St : Type}.
  Variable succ : T -> res (list (edge T D St)).

  Definition rejects_purely (e : edge T D St) (d : D) (st : St) : Prop := e_guard e d st = Ok (false, st).

  (* a walk along which, at every visited node, exactly the followed relation accepts and every
     other outgoing relation rejects, all without touching the state *)
  Inductive xwalks : T -> D -> St -> list T -> D * list T * St -> Prop :=
  | xw_stop t d st path es :
      succ t = Ok es -> Forall (fun e => rejects_purely e d st) es -> xwalks t d st path (d, path ++ [t], st)
  | xw_step t d st path es pre e post d' st' out :
      succ t = Ok es -> es = pre ++ e :: post ->
      Forall (fun x => rejects_purely x d st) (pre ++ post) ->
      e_guard e d st = Ok (true, st) ->
      e_trans e d st = Ok (d', st') ->
      xwalks (e_dst e) d' st' (path ++ [t]) out ->
      xwalks t d st path out.

  Lemma rejects_all es d st : Forall (fun e => rejects_purely e d st) es -> rejects es d st st.
  Proof. induction 1 as [|e es He Hes IH]; [constructor | econstructor; eauto]. Qed.

  Lemma xwalks_walks t d st path out : xwalks t d st path out -> walks succ t d st path out.
  Proof.
    induction 1 as [t d st path es Sc R | t d st path es pre e post d' st' out Sc E R G Tr W IH].
    - eapply walks_stop; eauto. apply rejects_all. exact R.
    - eapply walks_step; eauto. apply rejects_all.
      apply Forall_app in R. apply R.
  Qed.

  Lemma xwalks_prefix t d st path out : xwalks t d st path out -> is_prefix (path ++ [t]) (snd (fst out)).
  Proof.
    induction 1 as [t d st path es Sc R | t d st path es pre e post d' st' out Sc E R G Tr W IH]; simpl.
    - apply is_prefix_refl.
    - eapply is_prefix_trans; [apply is_prefix_app | exact IH].
  Qed.
End Exclusive.

Section OrderIndependence.
  Context {T D St : Type}.
  Variables succ1 succ2 : T -> res (list (edge T D St)).
  (* the same outgoing relations, enumerated in another order *)
  Hypothesis Hperm : forall t es1, succ1 t = Ok es1 -> exists es2, succ2 t = Ok es2 /\ Permutation es1 es2.

  Lemma perm_split (es2 pre post : list (edge T D St)) e d st :
    Permutation (pre ++ e :: post) es2 ->
    Forall (fun x => rejects_purely x d st) (pre ++ post) ->
    e_guard e d st = Ok (true, st) ->
    exists pre2 post2, es2 = pre2 ++ e :: post2 /\ Forall (fun x => rejects_purely x d st) (pre2 ++ post2).
  Proof.
    intros P R G.
    assert (Hin : In e es2) by (eapply Permutation_in; [exact P | apply in_or_app; right; left; reflexivity]).
    apply in_split in Hin. destruct Hin as [pre2 [post2 ->]].
    exists pre2, post2. split; [reflexivity|].
    apply Permutation_app_inv in P.
    rewrite Forall_forall in *. intros x Hx. apply R. eapply Permutation_in; [apply Permutation_sym; exact P | exact Hx].
  Qed.

  Theorem order_independent t d st path out :
    xwalks succ1 t d st path out -> xwalks succ2 t d st path out.
  Proof.
    induction 1 as [t d st path es Sc R | t d st path es pre e post d' st' out Sc E R G Tr W IH].
    - destruct (Hperm t es Sc) as [es2 [S2 P]]. eapply xw_stop; [exact S2|].
      rewrite Forall_forall in *. intros x Hx. apply R. eapply Permutation_in; [apply Permutation_sym; exact P | exact Hx].
    - destruct (Hperm t es Sc) as [es2 [S2 P]]. subst es.
      destruct (perm_split es2 pre post e d st P R G) as [pre2 [post2 [-> R2]]].
      eapply xw_step; eauto.
  Qed.
End OrderIndependence.

Section Refinement.
  Context {T D St : Type}.
  Variables succA succB : T -> res (list (edge T D St)).
  Variable inA : T -> bool.
  (* A's graph is the subgraph of B's induced by A's types *)
  Hypothesis Hind : forall t es, succB t = Ok es -> inA t = true ->
                                 succA t = Ok (filter (fun e => inA (e_dst e)) es).

  Lemma forall_filter (P : edge T D St -> Prop) f l : Forall P l -> Forall P (filter f l).
  Proof. induction 1; simpl; [constructor|]. destruct (f x); [constructor|]; assumption. Qed.

  Lemma filter_split f (pre post : list (edge T D St)) e :
    filter f (pre ++ e :: post) = filter f pre ++ (if f e then [e] else []) ++ filter f post.
  Proof. rewrite filter_app. simpl. destruct (f e); reflexivity. Qed.

  (* every walk of B that is exclusive along the way is refined by A's walk: A follows B's path
     while it stays inside A and stops exactly where B leaves A (or where B stops) *)
  Theorem refinement t d st path dB pB stB :
    xwalks succB t d st path (dB, pB, stB) -> inA t = true ->
    exists dA pA stA,
      xwalks succA t d st path (dA, pA, stA) /\
      is_prefix pA pB /\
      (pA = pB /\ dA = dB \/ exists next, is_prefix (pA ++ [next]) pB /\ inA next = false).
  Proof.
    intro W. remember (dB, pB, stB) as out eqn:Eo. revert dB pB stB Eo.
    induction W as [t d st path es Sc R | t d st path es pre e post d' st' out Sc E R G Tr W IH];
      intros dB pB stB Eo HA.
    - inversion Eo; subst. exists dB, (path ++ [t]), stB. split; [|split].
      + eapply xw_stop; [apply (Hind t es Sc HA) | apply forall_filter; exact R].
      + apply is_prefix_refl.
      + left; auto.
    - subst es out. destruct (inA (e_dst e)) eqn:HAe.
      + (* B's next type is in A: A follows *)
        destruct (IH dB pB stB eq_refl eq_refl) as [dA [pA [stA [WA [Pf Alt]]]]].
        exists dA, pA, stA. split; [|split; assumption].
        eapply xw_step with (pre := filter (fun x => inA (e_dst x)) pre) (post := filter (fun x => inA (e_dst x)) post) (e := e).
        * apply (Hind t _ Sc HA).
        * rewrite filter_split, HAe. reflexivity.
        * rewrite <- filter_app. apply forall_filter. exact R.
        * exact G.
        * exact Tr.
        * exact WA.
      + (* B leaves A here: A stops at t *)
        exists d, (path ++ [t]), st. split; [|split].
        * eapply xw_stop; [apply (Hind t _ Sc HA)|].
          rewrite filter_split, HAe. simpl. rewrite <- filter_app. apply forall_filter. exact R.
        * pose proof (xwalks_prefix succB _ _ _ _ _ W) as Hp. simpl in Hp.
          eapply is_prefix_trans; [apply is_prefix_app | exact Hp].
        * right. exists (e_dst e). split; [|exact HAe].
          exact (xwalks_prefix succB _ _ _ _ _ W).
  Qed.
End Refinement.

(* Simulation: the same outgoing relations up to enumeration order and up to extensional equality
   of their guards and transformers (the edges of two graphs that store the same relation objects
   are different closures with equal behaviour) *)
Section Simulation.
  Context {T D St : Type}.

  Definition edge_equiv (e1 e2 : edge T D St) : Prop :=
    e_dst e1 = e_dst e2 /\ (forall d st, e_guard e1 d st = e_guard e2 d st) /\ (forall d st, e_trans e1 d st = e_trans e2 d st).

  Variables succ1 succ2 : T -> res (list (edge T D St)).
  Hypothesis Hsim : forall t es1, succ1 t = Ok es1 ->
    exists es1' es2, Permutation es1 es1' /\ succ2 t = Ok es2 /\ Forall2 edge_equiv es1' es2.

  Lemma rejects_transfer (l1 l2 : list (edge T D St)) d st :
    Forall2 edge_equiv l1 l2 -> Forall (fun x => rejects_purely x d st) l1 -> Forall (fun x => rejects_purely x d st) l2.
  Proof.
    induction 1 as [|a b l1 l2 Hab Hl IH]; intro H; [constructor|]. inversion H; subst. constructor; [|apply IH; assumption].
    unfold rejects_purely in *. destruct Hab as [_ [Hg _]]. rewrite <- Hg. assumption.
  Qed.

  Theorem xwalks_sim t d st path out : xwalks succ1 t d st path out -> xwalks succ2 t d st path out.
  Proof.
    induction 1 as [t d st path es Sc R | t d st path es pre e post d' st' out Sc E R G Tr W IH].
    - destruct (Hsim t es Sc) as [es1' [es2 [P [S2 F2]]]]. eapply xw_stop; [exact S2|].
      apply (rejects_transfer es1' es2 d st F2).
      rewrite Forall_forall in *. intros x Hx. apply R. eapply Permutation_in; [apply Permutation_sym; exact P | exact Hx].
    - destruct (Hsim t es Sc) as [es1' [es2 [P [S2 F2]]]]. subst es.
      destruct (perm_split es1' pre post e d st P R G) as [pre2 [post2 [-> R2]]].
      apply Forall2_app_inv_l in F2. destruct F2 as [a [b' [Fa [Fb ->]]]].
      inversion Fb as [|x e2 l b Hee Fpost]; subst.
      apply Forall_app in R2. destruct R2 as [Rp Rq].
      destruct Hee as [Hd [Hg Ht]].
      eapply (xw_step succ2 t d st path (a ++ e2 :: b) a e2 b d' st' out); [exact S2 | reflexivity | | | |].
      + apply Forall_app. split; [apply (rejects_transfer pre2 a d st Fa Rp) | apply (rejects_transfer post2 b d st Fpost Rq)].
      + rewrite <- Hg. exact G.
      + rewrite <- Ht. exact Tr.
      + rewrite <- Hd. exact IH.
  Qed.
End Simulation.
