(* C04 - Inference converges.  Over the reference walk: (1) where a traversal stopped, every later traversal
   arriving with the same data stops too (guards are functions of the data: they neither read nor write the
   state) - so once detect(cast x) leads to infer_type(x) (C03), inferring again changes nothing;
   (2) a traversal that only takes relations with the identity transformer returns the data it was given. *)
From Coq Require Import List Bool ZArith.
Import ListNotations.
From V Require Import PyBase NxModel WalkSpec Engine_gen Engine_bridge InferTheory.
Open Scope py_scope.

Theorem C04_stop_is_stable :
  forall (T D St : Type) (succ : T -> res (list (edge T D St))) (t : T) (d : D) (st st' : St) (path path' : list T),
    (forall es, succ t = Ok es -> forall e, In e es -> forall s b s1,
        e_guard e d s = Ok (b, s1) -> s1 = s /\ forall s2, e_guard e d s2 = Ok (b, s2)) ->
    walks succ t d st path (d, path ++ [t], st) ->
    walks succ t d st' path' (d, path' ++ [t], st').
Proof. exact @stop_is_stable. Qed.
Print Assumptions C04_stop_is_stable.

Theorem C04_identity_path_returns_its_input :
  forall (T D St L F : Type) (X : ctx T D St L F) (g : graph T D St) fuel root d st dout hops st',
    walk (succ_of X g) fuel root d st [] = Ok (dout, root :: hops, st') ->
    identity_hops X g root hops -> dout = d.
Proof. exact @noop_traversal_returns_input. Qed.
Print Assumptions C04_identity_path_returns_its_input.
