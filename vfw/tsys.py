"""Random user-defined type systems: built in REAL visions and as Coq data for the generated
engine (extract/RunnerEngine.v).  Used by C12 (engine = reference walk), C01 (soundness on random
systems) and as the tie of the engine model."""
import collections.abc
import itertools
import os
import re

from . import common as C

EXN_CODE = {"KeyError": 1, "ValueError": 2, "NotImplementedError": 3, "DispatchError": 4,
            "NetworkXError": 5, "StopIteration": 6, "NetworkXUnfeasible": 7, "RecursionError": 8}   # 8 = the model's OutOfFuel: a walk that does not end


class MySeq(collections.abc.Sequence):
    """a custom Sequence class (dispatch target)"""

    def __init__(self, it=()):
        self._l = list(it)

    def __getitem__(self, i):
        return self._l[i]

    def __len__(self):
        return len(self._l)

    def __eq__(self, o):
        return isinstance(o, MySeq) and self._l == o._l

    def __repr__(self):
        return f"MySeq({self._l})"


CLASSES = [list, tuple, MySeq]          # class ids 0, 1, 2


# ------------------------------------------------------------------------------ generation
def gen_gimpl(rnd, universe, tag=None, p_log=0.3, p_raise=0.06):
    k = rnd.randint(0, len(universe))
    return {"allowed": sorted(rnd.sample(universe, k)),
            "logs": tag if rnd.random() < p_log else None,
            "raise_on": rnd.choice(universe) if rnd.random() < p_raise else None}


def gen_system(rnd, n=None, allow_dup_sources=False, p_back=0.0):
    """A rooted tree of n types (id 0 = Generic) + inference edges from lower to higher ids; with
    probability p_back an inference edge goes from a higher to a lower id instead (cyclical relations,
    which visions only warns about: walks may revisit a type and end, or never end)."""
    n = n if n is not None else rnd.randint(1, 12)
    m = rnd.randint(2, 5)
    universe = list(range(m))
    out_universe = universe + [m, m + 1]          # transformers may map outside
    types = [{"id": 0, "generic": True, "contains": [(-1, {"allowed": list(out_universe), "logs": None, "raise_on": None})],
              "decls": [], "declarative": False}]
    n_inf = rnd.randint(0, 8)
    for i in range(1, n):
        parent = rnd.randrange(i)
        cont = [(-1, gen_gimpl(rnd, out_universe, None, p_log=0.0, p_raise=0.03))]
        if rnd.random() < 0.25:
            cont.append((rnd.choice([1, 2]), gen_gimpl(rnd, out_universe, None, p_log=0.0, p_raise=0.0)))
        decls = []
        explicit = rnd.random() < 0.3
        g = None
        if explicit:
            g = [(-1, gen_gimpl(rnd, out_universe, 100 + i))]   # explicit identity guards are plain functions: no per-class registration
        itrans = None
        if explicit and rnd.random() < 0.5:
            # an identity relation may carry its own transformer (IdentityRelation(T, relationship=g, transformer=f))
            itrans = [(-1, {"pairs": [(x, rnd.choice(out_universe)) for x in out_universe], "tlogs": 600 + i if rnd.random() < 0.3 else None})]
        decls.append({"related": parent, "inferential": False, "guard": g, "trans": itrans})
        types.append({"id": i, "generic": False, "contains": cont, "decls": decls, "declarative": rnd.random() < 0.5})
    for _ in range(n_inf):
        if n < 2:
            break
        tgt = rnd.randrange(1, n)
        back = rnd.random() < p_back
        cands = [s for s in (range(tgt + 1, n) if back else range(tgt)) if allow_dup_sources or s not in [d["related"] for d in types[tgt]["decls"]]]
        if not cands:
            continue
        src = rnd.choice(cands)
        r = rnd.random()
        guard = None if r < 0.1 else [(-1, gen_gimpl(rnd, universe, 300 + tgt))]
        if guard and rnd.random() < 0.25:
            guard.append((rnd.choice([1, 2]), gen_gimpl(rnd, universe, 400 + tgt)))
        if rnd.random() < 0.15:
            trans = None
        else:
            dom = universe if rnd.random() < 0.8 else rnd.sample(universe, max(1, len(universe) - 1))
            trans = [(-1, {"pairs": [(x, rnd.choice(out_universe)) for x in dom], "tlogs": 500 + tgt if rnd.random() < 0.2 else None})]
        types[tgt]["decls"].append({"related": src, "inferential": True, "guard": guard, "trans": trans})
    return {"types": types, "universe": out_universe}


def inputs_for(system, rnd, max_len=2, classes=(0, 1, 2)):
    u = system["universe"]
    small = u[: min(len(u), 4)]
    seqs = [()]
    for n in range(1, max_len + 1):
        seqs += list(itertools.product(small, repeat=n))
    seqs += [tuple(rnd.choice(u) for _ in range(rnd.randint(3, 6))) for _ in range(3)]
    out = []
    for s in seqs:
        for c in classes:
            out.append((c, list(s)))
    return out


# ------------------------------------------------------------------------------ real visions
def build_real(system):
    """Create the visions classes of `system`; returns the list of classes indexed by id."""
    from multimethod import multimethod
    from typing import Any
    from visions.declarative import create_type
    from visions.relations import IdentityRelation, InferenceRelation
    from visions.types import Generic, VisionsBaseType

    def guard_fn(g):
        allowed, logs, raise_on = set(g["allowed"]), g["logs"], g["raise_on"]

        def f(d, st):
            if logs is not None:
                st.setdefault("log", []).append(logs)
            if raise_on is not None and any(x == raise_on for x in d):
                raise ValueError("guard refuses")
            return all(x in allowed for x in d)
        return f

    def trans_fn(t):
        m, tl = dict(t["pairs"]), t["tlogs"]

        def f(d, st):
            if tl is not None:
                st.setdefault("log", []).append(tl)
            return type(d)([m[x] for x in d])
        return f

    classes = {0: Generic}
    for td in system["types"][1:]:
        i = td["id"]
        if any(dc["related"] > i for dc in td["decls"]):
            td["declarative"] = False        # a relation to a type created later needs the lazy get_relations form
        rels = []
        for dc in td["decls"]:
            kw = {"related_type": dc["related"]}      # resolved to the class when the relations are asked for
            if dc["guard"] is not None:
                kw["relationship"] = guard_fn(dict(dc["guard"])[-1])
            if dc["trans"] is not None:
                kw["transformer"] = trans_fn(dict(dc["trans"])[-1])
            rels.append((dc["inferential"], kw))

        def resolve(kw):
            return dict(kw, related_type=classes[kw["related_type"]])
        base_contains = guard_fn(dict(td["contains"])[-1])
        if td["declarative"]:
            ident = [resolve(kw) for inf, kw in rels if not inf]
            infer = [resolve(kw) for inf, kw in rels if inf]
            cls = create_type(f"T{i}", contains=base_contains, identity=ident if len(ident) != 1 else ident[0],
                              inference=infer if infer else None)
        else:
            def get_relations(rels=rels, resolve=resolve):
                return [(InferenceRelation if inf else IdentityRelation)(**resolve(kw)) for inf, kw in rels]

            def mk_contains(bc):
                def contains_any(item: Any, state: dict) -> bool:
                    return bc(item, state)
                return contains_any
            mm = multimethod(mk_contains(base_contains))
            cls = type(f"T{i}", (VisionsBaseType,), {"get_relations": staticmethod(get_relations),
                                                    "contains_op": staticmethod(mm)})
            for cid, g in td["contains"]:
                if cid != -1:
                    cls.contains_op.register(CLASSES[cid], dict)(guard_fn(g))
        classes[i] = cls
        if td["declarative"]:
            # per-class contains registrations are only possible on multimethods: skip (recorded in model by dropping them)
            td["contains"] = [c for c in td["contains"] if c[0] == -1]
    for td in system["types"][1:]:
        cls = classes[td["id"]]
        for dc in td["decls"]:
            rel = classes[dc["related"]]
            if dc["guard"] is not None:
                for cid, g in dc["guard"]:
                    if cid != -1:
                        cls.register_relationship(rel, CLASSES[cid])(guard_fn(g))
            if dc["trans"] is not None:
                for cid, t in dc["trans"]:
                    if cid != -1:
                        cls.register_transformer(rel, CLASSES[cid])(trans_fn(t))
    return classes


def real_outcome(ts_or_exc, classes_inv, mode, cls_id, values):
    if isinstance(ts_or_exc, Exception):
        return ("raise", 100 + EXN_CODE.get(type(ts_or_exc).__name__, 9))
    d = CLASSES[cls_id](values)
    try:
        data, path, st = (ts_or_exc.detect if mode == 0 else ts_or_exc.infer)(d)
    except Exception as e:  # noqa
        return ("raise", EXN_CODE.get(type(e).__name__, 9))
    return ("ok", list(data), [classes_inv[t] for t in path], list(st.get("log", [])))


def run_real(system, inputs):
    """Build the system in real visions, construct the typeset and run detect+infer on all inputs.
    Returns (order, [(mode, (cls, values), outcome)])"""
    import warnings
    from visions.typesets import VisionsTypeset
    classes = build_real(system)
    inv = {v: k for k, v in classes.items()}
    types = [classes[i] for i in range(len(classes))]
    order = [inv[t] for t in set(types)]
    with warnings.catch_warnings():
        warnings.simplefilter("ignore")
        try:
            ts = VisionsTypeset(types)
        except Exception as e:  # noqa
            ts = e
    # the successor order of the real graphs (observable through networkx): lets the oracle say exactly which guards
    # the documented greedy walk evaluates
    system["_succ"] = {}
    if not isinstance(ts, Exception):
        for mode, g in ((0, ts.base_graph), (1, ts.relation_graph)):
            try:
                system["_succ"][mode] = {inv[n]: [inv[m] for m in g.successors(n)] for n in g.nodes}
            except Exception:  # noqa
                pass
    out = []
    for cid, vals in inputs:
        for mode in (0, 1):
            out.append((mode, (cid, vals), real_outcome(ts, inv, mode, cid, vals)))
    return order, out


# ------------------------------------------------------------------------------ Coq literals
def zl(xs):
    return "[" + "; ".join(str(x) if x >= 0 else f"({x})" for x in xs) + "]"


def opt(x):
    return "None" if x is None else f"(Some {x if x >= 0 else '(' + str(x) + ')'})"


def coq_gimpl(g):
    return f"(mkG_ {zl(g['allowed'])} {opt(g['logs'])} {opt(g['raise_on'])})"


def coq_timpl(t):
    return "(mkT_ [" + "; ".join(f"({a}, {b})" for a, b in t["pairs"]) + f"] {opt(t['tlogs'])})"


def coq_impls(impls, f):
    if impls is None:
        return "None"
    return "(Some [" + "; ".join(f"(({c}), {f(g)})" for c, g in impls) + "])"


def coq_system(system):
    tds = []
    for td in system["types"]:
        decls = "; ".join(
            f"(mkDecl {d['related']} {'true' if d['inferential'] else 'false'} {coq_impls(d['guard'], coq_gimpl)} {coq_impls(d['trans'], coq_timpl)})"
            for d in td["decls"])
        cont = "; ".join(f"(({c}), {coq_gimpl(g)})" for c, g in td["contains"])
        tds.append(f"(mkTdef {td['id']} {'true' if td['generic'] else 'false'} [{cont}] [{decls}])")
    return "[" + ";\n   ".join(tds) + "]"


def coq_outcome(o):
    if o[0] == "raise":
        return f"(ORaise {o[1]})"
    return f"(OOk {zl(o[1])} {zl(o[2])} {zl(o[3])})"


def write_cases(path, groups):
    """groups: [(system, order, [(mode, (cls, values), outcome)])]"""
    gs = []
    for system, order, cases in groups:
        cs = ";\n    ".join(f"({m}, (({c}), {zl(v)}), {coq_outcome(o)})" for m, (c, v), o in cases)
        gs.append(f"({coq_system(system)},\n  {zl(order)},\n  [{cs}])")
    txt = ("From Coq Require Import List ZArith.\nImport ListNotations.\nFrom V Require Import PyBase RunnerEngine.\nOpen Scope Z_scope.\n"
           "Definition groups : list group := [\n" + ";\n".join(gs) + "\n].\nEval vm_compute in (mismatches groups).\n")
    with open(path, "w") as f:
        f.write(txt)


def run_model(groups, shard=25, tag="c12"):
    """Evaluate the generated engine on the groups inside Coq (vm_compute); returns the list of
    (group index, case index, model outcome text) that differ from the implementation."""
    cdir = os.path.join(C.COQ, "cases")
    os.makedirs(cdir, exist_ok=True)
    for f in os.listdir(cdir):
        if f.startswith(tag + "_"):
            os.remove(os.path.join(cdir, f))
    files = []
    for k in range(0, len(groups), shard):
        p = os.path.join(cdir, f"{tag}_{k // shard}.v")
        write_cases(p, groups[k:k + shard])
        files.append((k, p))
    qf = []
    for d in C.QDIRS:
        qf += ["-Q", os.path.join(C.COQ, d), "V"]
    import concurrent.futures

    def one(kp):
        k, p = kp
        rc, out, dt = C.sh(["coqc"] + qf + [p], cwd=cdir, timeout=900)
        return k, rc, out

    mism, errors = [], []
    with concurrent.futures.ThreadPoolExecutor(max_workers=12) as ex:
        for k, rc, out in ex.map(one, files):
            if rc != 0:
                errors.append(out[-800:])
                continue
            body = out.split("=", 1)[1] if "=" in out else ""
            body = body.rsplit(":", 1)[0]
            for mm in re.finditer(r"\((\d+),\s*(\d+),\s*(O\w+[^)]*(?:\)[^(;\]]*)?)", body.replace("\n", " ")):
                mism.append((k + int(mm.group(1)), int(mm.group(2)), mm.group(3).strip()))
    return mism, errors
