"""C04 - see vfw/datacheck_run.py and vfw/datachecks.py"""
from . import datacheck_run

TB = {
    "C03": ["theorem is a composition theorem over the reference walk (= generated infer, props/C12.v); per-relation 'lands in target' obligations are decided on the implementation by the oracle"],
    "C04": ["theorems are over the reference walk; that guards ignore the state and that detect(cast) reaches infer_type are decided on the implementation"],
    "C05": ["values are immutable in the model: non-mutation is carried by the translator's effect discipline and by deep snapshots (values, dtype, index, name, element identities) around every call and every relation on the implementation"],
    "C06": ["per-relation obligations (shape/index/name/null positions kept, element-wise exact decoding) are decided on the implementation against independent decoders (vfw/datachecks.py decode_chain)"],
    "C07": ["dtype facts of real dtypes are measured; string/object encodings go through parser relations (oracles) and are decided on the implementation"],
    "C09": ["hypothesis cat_ok (categorical dtypes have the .cat accessor) is measured; exceptions inside third-party parsers are only reachable dynamically"],
}


def run(args):
    return datacheck_run.run("C04", args, extra_trusted=TB["C04"])
