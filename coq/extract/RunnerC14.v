(* Executable instance of the GENERATED VisionsTypeset.__init__ / build_graph over the GENERATED
   shipped relation table, for the C14/C13/C19 correspondence. *)
From Coq Require Import List Bool ZArith.
Import ListNotations.
From V Require Import PyBase NxModel Engine_gen Shipped_gen.
Open Scope Z_scope.

Definition dummy_guard : unit -> unit -> res (bool * unit) := fun _ st => Ok (false, st).
Definition dummy_trans : unit -> unit -> res (unit * unit) := fun d st => Ok (d, st).

Definition shipped_relations (t : ty) : list (relation ty unit unit) :=
  map (fun '(r, inf, _, _) => mkRel r t inf dummy_guard dummy_trans) (declared t).

Definition shipped_ctx : ctx ty unit unit unit unit :=
  mkCtx ty_eqb (fun _ _ => true) shipped_relations (fun _ _ st => Ok (true, st))
        (fun t => ty_eqb t tGeneric) tGeneric (fun l => l) (fun _ => tt) (fun _ => 0) (fun d _ => d)
        (fun _ => []) (fun _ _ => Raise KeyError) (fun _ => tt) (fun l => l).

Definition exn_code (e : exn) : Z :=
  match e with
  | KeyError => 1 | ValueError => 2 | NotImplementedError => 3 | DispatchError => 4
  | NetworkXError => 5 | StopIteration => 6 | NetworkXUnfeasible => 7 | OutOfFuel => 8 | _ => 9
  end.

Definition style_code (s : style) : Z := match s with Dashed => 1 | Solid => 0 end.

Definition enc_graph (g : graph ty unit unit) : list Z :=
  [Z.of_nat (length (g_nodes g))] ++ map ty_index (g_nodes g) ++
  let es := g_edges ty_eqb g in
  [Z.of_nat (length es)] ++ flat_map (fun '(u, v, a) => [ty_index u; ty_index v; style_code (ea_style a)]) es.

Definition warn_enc (w : warning ty) : list Z :=
  match w with Warn site payload => [Z.of_nat site; Z.of_nat (length payload)] ++ map ty_index payload end.

(* [order]: the types in the iteration order of set(types); output: status, root, relation graph,
   base graph, types (node order of the relation graph), warnings *)
Definition build_out (order : list Z) : list Z :=
  let tys := flat_map (fun i => match ty_of_index i with Some t => [t] | None => [] end) order in
  match VT_init shipped_ctx (VT_blank shipped_ctx) tys [] with
  | Raise e => [exn_code e]
  | Ok (_, ts, warns) =>
      let root := match VT_root_node shipped_ctx ts with Ok (r, _) => ty_index r | Raise _ => -1 end in
      [0; root] ++ enc_graph (relation_graph ts) ++ enc_graph (base_graph ts)
        ++ [Z.of_nat (length (types ts))] ++ map ty_index (types ts)
        ++ [Z.of_nat (length warns)] ++ flat_map warn_enc warns
  end.

(* the same through build_graph(ordered list) + next(topological_sort): no Generic check *)
Definition build_out_bg (order : list Z) : list Z :=
  let tys := flat_map (fun i => match ty_of_index i with Some t => [t] | None => [] end) order in
  match build_graph shipped_ctx tys [] with
  | Raise e => [exn_code e]
  | Ok ((rg, bg), warns) =>
      match g_first_source ty_eqb rg with
      | Raise e => [exn_code e]
      | Ok r =>
        [0; ty_index r] ++ enc_graph rg ++ enc_graph bg
          ++ [Z.of_nat (length (g_nodes rg))] ++ map ty_index (g_nodes rg)
          ++ [Z.of_nat (length warns)] ++ flat_map warn_enc warns
      end
  end.

Definition build_any (mode_order : list Z) : list Z :=
  match mode_order with
  | m :: order => if Z.eqb m 0 then build_out order else build_out_bg order
  | [] => [9]
  end.
