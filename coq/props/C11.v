(* C11 - A type is a property of the bag of values (membership part).
   Objects: the pandas contains_ops REGENERATED from source over the abstract series of lib/Values.v.
   The abstract series has no index and no name: that the predicates ignore them is checked on
   relabelled / renamed concrete series by the correspondence. *)
From Coq Require Import List Bool ZArith Permutation.
Import ListNotations.
From V Require Import PyBase Values Shipped_gen PandasContains_gen ContainsTheory BagTheory.
From V Require Import PyValues PythonContains_gen PythonBag.

(* For the eighteen shipped types whose predicate does not look at a prefix of the rows, `seq in T`
   is the same for every reordering of the rows (any permutation, any length, any dtype, any values) *)
Theorem C11_membership_is_a_function_of_the_bag :
  forall t s s', prefix_free t = true -> s_dtype s = s_dtype s' -> Permutation (s_vals s) (s_vals s') ->
    pandas_contains t s = pandas_contains t s'.
Proof. intros t s s' Ht Hd Hp. exact (contains_is_a_function_of_the_bag t s s' Ht (conj Hd Hp)). Qed.
Print Assumptions C11_membership_is_a_function_of_the_bag.

(* ... and for repeating the sequence *)
Theorem C11_membership_invariant_under_repetition :
  forall t s, prefix_free t = true -> pandas_contains t (mkS (s_dtype s) (s_vals s ++ s_vals s)) = pandas_contains t s.
Proof. exact contains_invariant_under_repetition. Qed.
Print Assumptions C11_membership_invariant_under_repetition.

(* The six remaining types test the class of the FIRST row only (class_name_attrs / isinstance_attrs use
   head(1)) or the first five rows (String): there the statement is false - recorded findings. *)
Definition objd : dfacts := mkDF false false false false false false false false true false false false false None.
Definition v (k : kind) := mkV k false false false.
Example C11_Date_head_refuted :
  pandas_contains tDate (mkS objd [v KDate; v KTimestamp]) = Ok true /\
  pandas_contains tDate (mkS objd [v KTimestamp; v KDate]) = Ok false.
Proof. split; vm_compute; reflexivity. Qed.
Example C11_String_prefix_refuted :
  pandas_contains tString (mkS objd [v KStr; v KStr; v KStr; v KStr; v KStr; v KBytes]) = Ok true /\
  pandas_contains tString (mkS objd [v KBytes; v KStr; v KStr; v KStr; v KStr; v KStr]) = Ok false.
Proof. split; vm_compute; reflexivity. Qed.

(* Python-list backend (backends/python/types/*.py REGENERATED from source over lib/PyValues.v): for ALL 24
   shipped types `seq in T` is a function of the SET of elements of the list - no prefix is inspected -
   hence the same for every reordering of the rows and every k-fold repetition, any length, any values *)
Theorem C11_python_list_membership_is_a_function_of_the_set_of_values :
  forall t l l', (forall x, In x l <-> In x l') -> python_contains t l = python_contains t l'.
Proof. exact python_contains_same_elements. Qed.
Print Assumptions C11_python_list_membership_is_a_function_of_the_set_of_values.

Theorem C11_python_list_membership_invariant_under_permutation :
  forall t l l', Permutation l l' -> python_contains t l = python_contains t l'.
Proof. exact python_contains_permutation. Qed.
Print Assumptions C11_python_list_membership_invariant_under_permutation.

Theorem C11_python_list_membership_invariant_under_repetition :
  forall t k l, python_contains t (rep (S k) l) = python_contains t l.
Proof. exact python_contains_repetition. Qed.
Print Assumptions C11_python_list_membership_invariant_under_repetition.
