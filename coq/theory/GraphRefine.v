(* GraphRefine: the hypothesis of the refinement theorem (RefineTheory.refinement: "A's graph is the
   subgraph of B's induced by A's types") DERIVED for two typesets built by the generated constructor,
   from the well-formedness theorem (GraphWF): the successor lists of the smaller typeset's graph are,
   up to order and up to extensional equality of the stored relations, the successor lists of the
   larger one's filtered to the smaller one's types. *)
From Coq Require Import List Bool ZArith Lia Permutation Arith.
Import ListNotations.
From V Require Import PyBase NxModel NxFacts WalkSpec Engine_gen Engine_bridge Graph_bridge GraphWF RefineTheory.
Open Scope py_scope.

Section GraphRefine.
  Context {T D St L F : Type} (X : ctx T D St L F).
  Notation eqb := (T_eqb X).
  Hypothesis Heq : forall a b, eqb a b = true <-> a = b.

  Variables (gA gB : graph T D St) (nA : list T).
  Definition inA (t : T) : bool := memb eqb t nA.

  Hypothesis HA_nodes : forall t, In t (g_nodes gA) <-> In t nA.
  Hypothesis HB_nodes : forall t, In t nA -> In t (g_nodes gB).
  Hypothesis HkA : adj_keys_nodup eqb gA.
  Hypothesis HkB : adj_keys_nodup eqb gB.
  (* A's edges are B's edges between A's types *)
  Hypothesis Hedges : forall u v, In u nA -> edge_at eqb gA u v = if inA v then edge_at eqb gB u v else None.

  Lemma succ_of_spec (g : graph T D St) t : In t (g_nodes g) ->
    succ_of X g t = Ok (map (edge_of X g t) (map fst (adj_of eqb g t))).
  Proof. intro H. unfold succ_of. rewrite (successors_spec eqb Heq g t H). reflexivity. Qed.

  (* the virtual graph of the refinement theorem: B's successor lists filtered to A's types *)
  Definition succA' (t : T) : res (list (edge T D St)) :=
    if inA t then match succ_of X gB t with Ok es => Ok (filter (fun e => inA (e_dst e)) es) | Raise e => Raise e end
    else succ_of X gA t.

  Lemma induced : forall t es, succ_of X gB t = Ok es -> inA t = true -> succA' t = Ok (filter (fun e => inA (e_dst e)) es).
  Proof. intros t es E H. unfold succA'. rewrite H, E. reflexivity. Qed.

  Lemma filter_map_dst (g : graph T D St) t l :
    filter (fun e => inA (e_dst e)) (map (edge_of X g t) l) = map (edge_of X g t) (filter inA l).
  Proof. induction l as [|v l IH]; simpl; [reflexivity|]. destruct (inA v); simpl; rewrite IH; reflexivity. Qed.

  Lemma edge_equiv_refl (e : edge T D St) : edge_equiv e e.
  Proof. split; [reflexivity|]. split; reflexivity. Qed.
  Lemma Forall2_equiv_refl (l : list (edge T D St)) : Forall2 edge_equiv l l.
  Proof. induction l; constructor; [apply edge_equiv_refl | assumption]. Qed.

  Lemma sim : forall t es1, succA' t = Ok es1 ->
    exists es1' es2, Permutation es1 es1' /\ succ_of X gA t = Ok es2 /\ Forall2 edge_equiv es1' es2.
  Proof.
    intros t es1 E. unfold succA' in E. destruct (inA t) eqn:Ht.
    - assert (HtA : In t nA) by (apply (memb_In eqb Heq); exact Ht).
      rewrite (succ_of_spec gB t (HB_nodes t HtA)) in E. inversion E; subst es1. clear E.
      rewrite filter_map_dst.
      set (kA := map fst (adj_of eqb gA t)). set (kB := map fst (adj_of eqb gB t)).
      assert (P : Permutation (filter inA kB) kA).
      { apply NoDup_Permutation; [apply NoDup_filter; apply HkB | apply HkA|].
        intro v. rewrite filter_In. unfold kA, kB. rewrite !(key_in_iff eqb Heq), (Hedges t v HtA).
        destruct (inA v); [tauto|]. split; [intros [_ H]; discriminate | intro H; exfalso; apply H; reflexivity]. }
      exists (map (edge_of X gB t) kA), (map (edge_of X gA t) kA). split; [apply Permutation_map; exact P|].
      split; [apply succ_of_spec; apply HA_nodes; exact HtA|].
      assert (K : forall v, In v kA -> edge_equiv (edge_of X gB t v) (edge_of X gA t v)).
      { intros v Hv. unfold kA in Hv. apply (key_in_iff eqb Heq) in Hv.
        assert (Hin : inA v = true) by (rewrite (Hedges t v HtA) in Hv; destruct (inA v); [reflexivity | exfalso; apply Hv; reflexivity]).
        assert (Eg : g_edge eqb gB t v = g_edge eqb gA t v).
        { rewrite (g_edge_edge_at eqb Heq gB t v (HB_nodes t HtA)), (g_edge_edge_at eqb Heq gA t v (proj2 (HA_nodes t) HtA)), (Hedges t v HtA), Hin. reflexivity. }
        unfold edge_of. split; [reflexivity|]. split; intros d st; cbn [e_guard e_trans]; rewrite Eg; reflexivity. }
      clear P. induction kA as [|v l IH]; simpl; constructor; [apply K; left; reflexivity | apply IH; intros w Hw; apply K; right; exact Hw].
    - exists es1, es1. split; [apply Permutation_refl|]. split; [exact E | apply Forall2_equiv_refl].
  Qed.

  (* the refinement theorem for the two ACTUAL graphs *)
  Theorem graph_refinement t d st path dB pB stB :
    xwalks (succ_of X gB) t d st path (dB, pB, stB) -> In t nA ->
    exists dA pA stA,
      xwalks (succ_of X gA) t d st path (dA, pA, stA) /\
      is_prefix pA pB /\
      (pA = pB /\ dA = dB \/ exists next, is_prefix (pA ++ [next]) pB /\ ~ In next nA).
  Proof.
    intros W Ht.
    destruct (refinement succA' (succ_of X gB) inA induced t d st path dB pB stB W (proj2 (memb_In eqb Heq t nA) Ht)) as [dA [pA [stA [WA [Hp Hc]]]]].
    exists dA, pA, stA. split; [exact (xwalks_sim succA' (succ_of X gA) sim t d st path _ WA)|]. split; [exact Hp|].
    destruct Hc as [Hc|[next [Hn Hi]]]; [left; exact Hc | right; exists next; split; [exact Hn | apply (memb_false eqb Heq); exact Hi]].
  Qed.
End GraphRefine.

(* ---- for two typesets built by the generated constructor *)
Section TypesetRefine.
  Context {T D St L F : Type} (X : ctx T D St L F) (rk : T -> nat).
  Notation eqb := (T_eqb X).
  Hypothesis Heq : forall a b, eqb a b = true <-> a = b.
  Variables (nA nB : list T) (wa wb wa' wb' : list (warning T)) (tsA tsB : VisionsTypeset T D St).
  Hypothesis WA : wf_result X rk nA wa tsA wa'.
  Hypothesis WB : wf_result X rk nB wb tsB wb'.
  Hypothesis Hsub : forall t, In t nA -> In t nB.

  Lemma rel_edges u v : In u nA ->
    edge_at eqb (relation_graph tsA) u v = if inA X nA v then edge_at eqb (relation_graph tsB) u v else None.
  Proof.
    intro Hu. destruct (inA X nA v) eqn:Hv.
    - apply (memb_In eqb Heq) in Hv. destruct (edge_at eqb (relation_graph tsB) u v) as [b|] eqn:Eb.
      + apply (wf_edges _ _ _ _ _ _ WA). apply (wf_edges _ _ _ _ _ _ WB) in Eb. destruct Eb as [_ [_ Hr]]. auto.
      + destruct (edge_at eqb (relation_graph tsA) u v) as [a|] eqn:Ea; [|reflexivity].
        apply (wf_edges _ _ _ _ _ _ WA) in Ea. destruct Ea as [_ [_ Hr]].
        assert (K : edge_at eqb (relation_graph tsB) u v = Some a) by (apply (wf_edges _ _ _ _ _ _ WB); auto). congruence.
    - apply (memb_false eqb Heq) in Hv. destruct (edge_at eqb (relation_graph tsA) u v) as [a|] eqn:Ea; [|reflexivity].
      apply (wf_edges _ _ _ _ _ _ WA) in Ea. destruct Ea as [_ [Hv' _]]. contradiction.
  Qed.

  Lemma base_edges_sub u v : In u nA ->
    edge_at eqb (base_graph tsA) u v = if inA X nA v then edge_at eqb (base_graph tsB) u v else None.
  Proof.
    intro Hu. destruct (inA X nA v) eqn:Hv.
    - apply (memb_In eqb Heq) in Hv. destruct (edge_at eqb (base_graph tsB) u v) as [b|] eqn:Eb.
      + apply (wf_base_edges _ _ _ _ _ _ WA). apply (wf_base_edges _ _ _ _ _ _ WB) in Eb. destruct Eb as [_ [_ Hr]]. auto.
      + destruct (edge_at eqb (base_graph tsA) u v) as [a|] eqn:Ea; [|reflexivity].
        apply (wf_base_edges _ _ _ _ _ _ WA) in Ea. destruct Ea as [_ [_ Hr]].
        assert (K : edge_at eqb (base_graph tsB) u v = Some a) by (apply (wf_base_edges _ _ _ _ _ _ WB); auto). congruence.
    - apply (memb_false eqb Heq) in Hv. destruct (edge_at eqb (base_graph tsA) u v) as [a|] eqn:Ea; [|reflexivity].
      apply (wf_base_edges _ _ _ _ _ _ WA) in Ea. destruct Ea as [_ [Hv' _]]. contradiction.
  Qed.

  (* infer: walks of the full relation graphs *)
  Theorem infer_refinement t d st path dB pB stB :
    xwalks (succ_of X (relation_graph tsB)) t d st path (dB, pB, stB) -> In t nA ->
    exists dA pA stA,
      xwalks (succ_of X (relation_graph tsA)) t d st path (dA, pA, stA) /\
      is_prefix pA pB /\
      (pA = pB /\ dA = dB \/ exists next, is_prefix (pA ++ [next]) pB /\ ~ In next nA).
  Proof.
    apply (graph_refinement X Heq (relation_graph tsA) (relation_graph tsB) nA).
    - intro x. rewrite (wf_nodes _ _ _ _ _ _ WA). tauto.
    - intros x Hx. rewrite (wf_nodes _ _ _ _ _ _ WB). apply Hsub. exact Hx.
    - apply (wf_graph _ _ _ _ _ _ WA).
    - apply (wf_graph _ _ _ _ _ _ WB).
    - exact rel_edges.
  Qed.

  (* detect: walks of the identity graphs (A has at least two types: the identity graph of a
     one-type typeset has no nodes at all - finding F12b) *)
  Theorem detect_refinement t d st path dB pB stB :
    (exists x, In x nA /\ x <> Generic X) ->
    xwalks (succ_of X (base_graph tsB)) t d st path (dB, pB, stB) -> In t nA ->
    exists dA pA stA,
      xwalks (succ_of X (base_graph tsA)) t d st path (dA, pA, stA) /\
      is_prefix pA pB /\
      (pA = pB /\ dA = dB \/ exists next, is_prefix (pA ++ [next]) pB /\ ~ In next nA).
  Proof.
    intros [x [Hx Hne]].
    apply (graph_refinement X Heq (base_graph tsA) (base_graph tsB) nA).
    - intro y. apply (wf_base_nodes _ _ _ _ _ _ WA). exists x. auto.
    - intros y Hy. apply (wf_base_nodes _ _ _ _ _ _ WB); [exists x; split; [apply Hsub; exact Hx | exact Hne] | apply Hsub; exact Hy].
    - apply (wf_graph _ _ _ _ _ _ WA).
    - apply (wf_graph _ _ _ _ _ _ WB).
    - exact base_edges_sub.
  Qed.
End TypesetRefine.

(* ---- packaged: any two constructible typesets A <= B over a table with the table facts *)
From V Require Import AlgebraTheory.

Section Constructed.
  Context {T D St L F : Type} (X : ctx T D St L F) (rk : T -> nat) (H : table_ok X rk).

  Definition refines (gA gB : graph T D St) (typesA : list T) : Prop :=
    forall t d st path dB pB stB,
      xwalks (succ_of X gB) t d st path (dB, pB, stB) -> In t typesA ->
      exists dA pA stA,
        xwalks (succ_of X gA) t d st path (dA, pA, stA) /\
        is_prefix pA pB /\
        (pA = pB /\ dA = dB \/ exists next, is_prefix (pA ++ [next]) pB /\ ~ In next typesA).

  Theorem constructed_typesets_refine typesA typesB w :
    closed X typesA -> closed X typesB -> (forall t, In t typesA -> In t typesB) ->
    exists tsA tsB wA wB,
      VT_init X (VT_blank X) typesA w = Ok (tt, tsA, wA) /\
      VT_init X (VT_blank X) typesB w = Ok (tt, tsB, wB) /\
      refines (relation_graph tsA) (relation_graph tsB) typesA /\
      ((exists x, In x typesA /\ x <> Generic X) -> refines (base_graph tsA) (base_graph tsB) typesA).
  Proof.
    destruct H as [Heq [Hty [Hperm [Hgen [HG [Huniq [Hone Hrk]]]]]]].
    intros [GA PA] [GB PB] Hsub.
    destruct (typeset_well_formed X rk Heq Hty Hperm Hgen HG Huniq Hone Hrk typesA w GA PA) as [tsA [wA [EA WA]]].
    destruct (typeset_well_formed X rk Heq Hty Hperm Hgen HG Huniq Hone Hrk typesB w GB PB) as [tsB [wB [EB WB]]].
    exists tsA, tsB, wA, wB. split; [exact EA|]. split; [exact EB|].
    assert (Hsub' : forall t, In t (mkset X typesA) -> In t (mkset X typesB)).
    { intros t Ht. apply (proj2 (mkset_in X Heq Hperm _ _)). apply Hsub. apply (proj1 (mkset_in X Heq Hperm _ _)). exact Ht. }
    split.
    - intros t d st path dB pB stB W Ht.
      destruct (infer_refinement X rk Heq _ _ _ _ _ _ tsA tsB WA WB Hsub' t d st path dB pB stB W (proj2 (mkset_in X Heq Hperm _ _) Ht)) as [dA [pA [stA [W' [P C0]]]]].
      exists dA, pA, stA. split; [exact W'|]. split; [exact P|].
      destruct C0 as [C0|[n [Hn Hi]]]; [left; exact C0 | right; exists n; split; [exact Hn | intro K; apply Hi; apply (proj2 (mkset_in X Heq Hperm _ _)); exact K]].
    - intros [x [Hx Hne]] t d st path dB pB stB W Ht.
      assert (Hex : exists x, In x (mkset X typesA) /\ x <> Generic X) by (exists x; split; [apply (proj2 (mkset_in X Heq Hperm _ _)); exact Hx | exact Hne]).
      destruct (detect_refinement X rk Heq _ _ _ _ _ _ tsA tsB WA WB Hsub' t d st path dB pB stB Hex W (proj2 (mkset_in X Heq Hperm _ _) Ht)) as [dA [pA [stA [W' [P C0]]]]].
      exists dA, pA, stA. split; [exact W'|]. split; [exact P|].
      destruct C0 as [C0|[n [Hn Hi]]]; [left; exact C0 | right; exists n; split; [exact Hn | intro K; apply Hi; apply (proj2 (mkset_in X Heq Hperm _ _)); exact K]].
  Qed.
End Constructed.

(* ---- the same SET of types built twice (any supply orders): exclusive walks coincide *)
Section SameSet.
  Context {T D St L F : Type} (X : ctx T D St L F).
  Notation eqb := (T_eqb X).
  Hypothesis Heq : forall a b, eqb a b = true <-> a = b.
  Variables (g1 g2 : graph T D St).
  Hypothesis Hnodes : forall t, In t (g_nodes g1) <-> In t (g_nodes g2).
  Hypothesis Hk1 : adj_keys_nodup eqb g1.
  Hypothesis Hk2 : adj_keys_nodup eqb g2.
  Hypothesis Hedges : forall u v, edge_at eqb g1 u v = edge_at eqb g2 u v.

  Lemma same_sim : forall t es1, succ_of X g1 t = Ok es1 ->
    exists es1' es2, Permutation es1 es1' /\ succ_of X g2 t = Ok es2 /\ Forall2 edge_equiv es1' es2.
  Proof.
    intros t es1 E. unfold succ_of in E.
    destruct (g_successors eqb g1 t) as [ns|e] eqn:Es; cbn [bind ret] in E; [|discriminate]. inversion E; subst es1. clear E.
    assert (Ht : In t (g_nodes g1)).
    { unfold g_successors, g_has_node in Es. destruct (memb eqb t (g_nodes g1)) eqn:M; [apply (memb_In eqb Heq); exact M | discriminate]. }
    rewrite (successors_spec eqb Heq g1 t Ht) in Es. inversion Es; subst ns. clear Es.
    set (k1 := map fst (adj_of eqb g1 t)). set (k2 := map fst (adj_of eqb g2 t)).
    assert (P : Permutation k1 k2).
    { apply NoDup_Permutation; [apply Hk1 | apply Hk2|]. intro v. unfold k1, k2. rewrite !(key_in_iff eqb Heq), Hedges. tauto. }
    exists (map (edge_of X g1 t) k2), (map (edge_of X g2 t) k2). split; [apply Permutation_map; exact P|].
    split; [apply (succ_of_spec X Heq); apply Hnodes; exact Ht|].
    assert (Eg : forall v, g_edge eqb g1 t v = g_edge eqb g2 t v).
    { intro v. rewrite (g_edge_edge_at eqb Heq g1 t v Ht), (g_edge_edge_at eqb Heq g2 t v (proj1 (Hnodes t) Ht)), Hedges. reflexivity. }
    clear P. induction k2 as [|v l IH]; simpl; constructor; [|exact IH].
    unfold edge_of. split; [reflexivity|]. split; intros d st; cbn [e_guard e_trans]; rewrite Eg; reflexivity.
  Qed.

  Theorem same_set_same_walks t d st path out :
    xwalks (succ_of X g1) t d st path out -> xwalks (succ_of X g2) t d st path out.
  Proof. exact (xwalks_sim (succ_of X g1) (succ_of X g2) same_sim t d st path out). Qed.
End SameSet.

Section ConstructedOrder.
  Context {T D St L F : Type} (X : ctx T D St L F) (rk : T -> nat) (H : table_ok X rk).

  (* two closed lists holding the same types, in any supply orders: both typesets are built and every exclusive walk
     of one - over the full relation graph (infer) or the identity graph (detect) - is an exclusive walk of the other,
     with the same data, path and state *)
  Theorem constructed_order_independent types1 types2 w1 w2 :
    closed X types1 -> (forall t, In t types1 <-> In t types2) ->
    exists ts1 ts2 w1' w2',
      VT_init X (VT_blank X) types1 w1 = Ok (tt, ts1, w1') /\
      VT_init X (VT_blank X) types2 w2 = Ok (tt, ts2, w2') /\
      (forall t d st path out, xwalks (succ_of X (relation_graph ts1)) t d st path out <-> xwalks (succ_of X (relation_graph ts2)) t d st path out) /\
      (forall t d st path out, xwalks (succ_of X (base_graph ts1)) t d st path out <-> xwalks (succ_of X (base_graph ts2)) t d st path out).
  Proof.
    intros Hc Hmem. assert (Hc2 : closed X types2) by (apply (closed_ext X types1); assumption).
    destruct H as [Heq [Hty [Hperm [Hgen [HG [Huniq [Hone Hrk]]]]]]].
    destruct Hc as [G1 P1]. destruct Hc2 as [G2 P2].
    destruct (typeset_well_formed X rk Heq Hty Hperm Hgen HG Huniq Hone Hrk types1 w1 G1 P1) as [ts1 [w1' [E1 W1]]].
    destruct (typeset_well_formed X rk Heq Hty Hperm Hgen HG Huniq Hone Hrk types2 w2 G2 P2) as [ts2 [w2' [E2 W2]]].
    exists ts1, ts2, w1', w2'. split; [exact E1|]. split; [exact E2|].
    assert (Hm : forall t, In t (mkset X types1) <-> In t (mkset X types2)) by (intro t; rewrite !(mkset_in X Heq Hperm); apply Hmem).
    destruct (result_determined_by_type_set X rk _ _ _ _ _ _ _ _ W1 W2 Hm) as [_ [Erel Ebase]].
    destruct (wf_graph _ _ _ _ _ _ W1) as [_ [K1 K1b]]. destruct (wf_graph _ _ _ _ _ _ W2) as [_ [K2 K2b]].
    assert (Nrel : forall t, In t (g_nodes (relation_graph ts1)) <-> In t (g_nodes (relation_graph ts2))).
    { intro t. rewrite (wf_nodes _ _ _ _ _ _ W1), (wf_nodes _ _ _ _ _ _ W2). apply Hm. }
    assert (Nbase : forall v, In v (g_nodes (base_graph ts1)) <-> In v (g_nodes (base_graph ts2))).
    { intro v. rewrite (wf_base_nodes_gen _ _ _ _ _ _ W1 v), (wf_base_nodes_gen _ _ _ _ _ _ W2 v).
      split; (intros [[u [a E]]|[u [a E]]]; [left | right]; exists u, a); rewrite ?Ebase in *; try exact E; rewrite Ebase; exact E. }
    split; intros t d st path out; split.
    - apply (same_set_same_walks X Heq _ _ Nrel K1 K2 Erel).
    - apply (same_set_same_walks X Heq _ _ (fun t => iff_sym (Nrel t)) K2 K1 (fun u v => eq_sym (Erel u v))).
    - apply (same_set_same_walks X Heq _ _ Nbase K1b K2b Ebase).
    - apply (same_set_same_walks X Heq _ _ (fun t => iff_sym (Nbase t)) K2b K1b (fun u v => eq_sym (Ebase u v))).
  Qed.
End ConstructedOrder.
