"""C12 - the engine implements the documented traversal for any user-defined type system."""
import json
import random
import warnings

from . import common as C
from . import tsys

PROP = "C12"
PROP_FILE = "props/C12.v"
TARGETS = ["props/C12.vo", "extract/RunnerEngine.vo"]


# ---------------------------------------------------------------- S2: independent oracle
def spec_guard(g, cls, vals, log):
    impl = dict(g).get(cls, dict(g).get(-1))
    if impl is None:
        raise LookupError
    if impl["logs"] is not None:
        log.append(impl["logs"])
    if impl["raise_on"] is not None and impl["raise_on"] in vals:
        raise ValueError
    return all(v in impl["allowed"] for v in vals)


def outgoing(system, t, mode):
    """declared relations with source t (identity only for detect), independent of any order"""
    out = []
    for td in system["types"]:
        for dc in td["decls"]:
            if dc["related"] == t and (mode == 1 or not dc["inferential"]):
                out.append((td, dc))
    return out


def accepts(system, td, dc, cls, vals):
    """Does the relation accept?  Returns True/False/'raise'."""
    log = []
    try:
        if dc["guard"] is not None:
            return spec_guard(dc["guard"], cls, vals, log)
        if dc["inferential"]:
            return "raise"
        return spec_guard(td["contains"], cls, vals, log)
    except Exception:  # noqa
        return "raise"


def apply_trans(dc, cls, vals):
    if dc["trans"] is None:
        return list(vals)
    t = dict(dc["trans"]).get(cls, dict(dc["trans"]).get(-1))
    m = dict(t["pairs"])
    return [m[v] for v in vals]


def check_reference(system, mode, cls, vals, outcome):
    """Is `outcome` (what real visions returned) a reference walk?  None = yes, else reason."""
    if len(system["types"]) == 1:
        return None          # single-type typesets: known finding F12b (detect raises), not judged here
    if outcome[0] == "raise" and outcome[1] in (8, 108) and any(dc["related"] > td["id"] for td in system["types"] for dc in td["decls"]):
        return None          # a walk that never ends in a system with cyclical relations (RecursionError)
    if outcome[0] == "raise":
        # an exception is legitimate only if some guard/transformer on the way raises; we accept
        # exceptions when any relation in the system can raise on this data (conservative)
        for td in system["types"]:
            for dc in td["decls"]:
                if accepts(system, td, dc, cls, vals) == "raise":
                    return None
                if dc["trans"] is not None:
                    return None      # partial maps may raise KeyError on transformed data
        return f"raised exception code {outcome[1]} although no guard or transformer of the system can raise on this input"
    _, data, path, log = outcome
    if not path or path[0] != 0:
        return f"path {path} does not start at Generic"
    cur = list(vals)
    for a, b in zip(path, path[1:]):
        rel = [(td, dc) for td, dc in outgoing(system, a, mode) if td["id"] == b]
        if not rel:
            return f"path hop {a}->{b} is not a declared {'relation' if mode else 'identity relation'}"
        td, dc = rel[-1]
        acc = accepts(system, td, dc, cls, cur)
        if acc is not True:
            return f"hop {a}->{b}: its guard does not accept the data {cur} at that point"
        cur = apply_trans(dc, cls, cur)
    if cur != data:
        return f"returned data {data}, transformers along {path} give {cur}"
    for td, dc in outgoing(system, path[-1], mode):
        if accepts(system, td, dc, cls, cur) is True:
            return f"stopped at {path[-1]} although relation {path[-1]}->{td['id']} accepts {cur}"
    # the state: exactly the guards the greedy walk evaluates (successors in the graph's order, up to and including
    # the first that accepts) and the transformers it applies have written to it, in that order
    succ = system.get("_succ", {}).get(mode)
    if succ is not None:
        want, cur = [], list(vals)
        try:
            for i, a in enumerate(path):
                nxt = path[i + 1] if i + 1 < len(path) else None
                for v in succ.get(a, []):
                    rel = [(td, dc) for td, dc in outgoing(system, a, mode) if td["id"] == v]
                    if not rel:
                        raise LookupError
                    td, dc = rel[-1]
                    g = dc["guard"] if dc["guard"] is not None else td["contains"]
                    ok = spec_guard(g, cls, cur, want)
                    if ok:
                        if v != nxt:
                            return f"at {a} the first accepting successor in graph order is {v}, the walk went to {nxt}"
                        if dc["trans"] is not None:
                            t = dict(dc["trans"]).get(cls, dict(dc["trans"]).get(-1))
                            if t["tlogs"] is not None:
                                want.append(t["tlogs"])
                        cur = apply_trans(dc, cls, cur)
                        break
                    if v == nxt:
                        raise LookupError
        except Exception:  # noqa   (something this oracle cannot evaluate: leave the state unjudged)
            want = None
        if want is not None and list(log) != want:
            return f"state log {list(log)} differs from what the documented walk writes, {want} (guards evaluated that the walk does not evaluate, or in another order)"
    return None


def fresh_state_check(system, rnd):
    """state dict is new for every call: two identical calls return equal, distinct dicts"""
    import visions  # noqa
    from visions.typesets import VisionsTypeset
    classes = tsys.build_real(system)
    with warnings.catch_warnings():
        warnings.simplefilter("ignore")
        try:
            ts = VisionsTypeset([classes[i] for i in range(len(classes))])
        except Exception:  # noqa
            return None
    for cid, vals in tsys.inputs_for(system, rnd)[:12]:
        d = tsys.CLASSES[cid](vals)
        try:
            a = ts.infer(d)
            b = ts.infer(d)
        except Exception:  # noqa
            continue
        if a[2] is b[2]:
            return f"two infer calls returned the same state object on {vals}"
        if a[2] != b[2]:
            return f"state of an identical second call differs: {a[2]} vs {b[2]} on {vals} (state not fresh per call)"
    return None


def frame_check(system, rnd):
    """typeset.infer/detect on a DataFrame = per-column Series results: data, path and the state
    dict (fresh per column, the one the guards wrote to)."""
    import pandas as pd
    from visions.typesets import VisionsTypeset
    classes = tsys.build_real(system)
    inv = {v: k for k, v in classes.items()}
    with warnings.catch_warnings():
        warnings.simplefilter("ignore")
        try:
            ts = VisionsTypeset([classes[i] for i in range(len(classes))])
        except Exception:  # noqa
            return None
    u = system["universe"]
    for _ in range(3):
        nrows = rnd.randint(1, 3)
        cols = {f"c{j}": [rnd.choice(u) for _ in range(nrows)] for j in range(rnd.randint(1, 3))}
        df = pd.DataFrame(cols)
        for name, meth in (("infer", ts.infer), ("detect", ts.detect)):
            try:
                fd, fp, fs = meth(df)
            except Exception:  # noqa
                continue
            for c in cols:
                try:
                    sd, sp, ss = meth(df[c])
                except Exception:  # noqa
                    continue
                if [inv[t] for t in fp[c]] != [inv[t] for t in sp]:
                    return {"what": f"{name}(df) path of column {c} {fp[c]} differs from {name}(df[{c!r}]) {sp}", "columns": cols}
                if fs[c] != ss:
                    return {"what": f"{name}(df) state of column {c} is {fs[c]}, {name}(df[{c!r}]) returns {ss} (state not the per-column dict handed to the guards)", "columns": cols}
                if list(fd[c]) != list(sd):
                    return {"what": f"{name}(df) data of column {c} {list(fd[c])} differs from the Series result {list(sd)}", "columns": cols}
    return None


def gen_groups(rnd, n_random, small_exhaustive):
    groups = []
    if small_exhaustive:
        for n in range(1, small_exhaustive + 1):
            for _ in range(12 * n):
                groups.append(tsys.gen_system(rnd, n=n))
    for k in range(n_random):
        groups.append(tsys.gen_system(rnd, p_back=0.5 if k % 4 == 3 else 0.0))
    return groups


def run_streams(run, rnd, tier, label="correspondence"):
    n_random = 300 if tier == "quick" else 3000
    systems = gen_groups(rnd, n_random, 3 if tier == "quick" else 4)
    groups, s2_fail, ncases = [], None, 0
    distinct = set()
    for sysm in systems:
        inp = tsys.inputs_for(sysm, rnd, max_len=2 if tier == "quick" else 3)
        order, cases = tsys.run_real(sysm, inp)
        groups.append((sysm, order, cases))
        for mode, (cid, vals), o in cases:
            ncases += 1
            if o[0] == "ok" and len(o[2]) > 1:
                distinct.add((len(groups), mode, cid, tuple(vals)))
            if s2_fail is None:
                why = check_reference(sysm, mode, cid, vals, o)
                if why:
                    s2_fail = (sysm, order, mode, cid, vals, o, why)
    return groups, s2_fail, ncases, distinct


def replay(path):
    r = json.load(open(path))
    if "system" not in r:
        print("replay names a broken obligation, no input to re-run:", [o["name"] for o in r.get("broken_obligations", [])])
        return 1
    sysm = r["system"]
    for td in sysm["types"]:
        td["contains"] = [tuple(x) for x in td["contains"]]
        for dc in td["decls"]:
            for k in ("guard", "trans"):
                if dc[k] is not None:
                    dc[k] = [tuple(x) for x in dc[k]]
                    if k == "trans":
                        for _, t in dc[k]:
                            t["pairs"] = [tuple(p) for p in t["pairs"]]
    order, cases = tsys.run_real(sysm, [(r["cls"], r["values"])])
    for mode, (cid, vals), o in cases:
        if mode == r["mode"]:
            why = check_reference(sysm, mode, cid, vals, o)
            print("replay: implementation returned", o, "->", why or "a valid reference walk")
            return 1 if why else 0
    return 0


def run(args):
    if args.replay:
        return replay(args.replay)
    run = C.Run(PROP, args.tier, args.seed)
    rnd = random.Random(args.seed)
    info = C.std_coq_phase(run, ["engine"], TARGETS, PROP_FILE)
    groups, s2_fail, ncases, distinct = run_streams(run, rnd, args.tier)
    run.cov["evaluations"] = ncases
    run.cov["distinct_nontrivial"] = len(distinct)
    mism = []
    if info["build_ok"]:
        with C.Lock():
            mism, errs = tsys.run_model(groups)
        run.oblig(f"correspondence: generated engine (VT_init + VT_detect/VT_infer, vm_compute) vs real visions on {len(groups)} random "
                  f"type systems x all inputs of their universes ({ncases} calls: data, path, state log, exceptions)",
                  "correspondence", not mism and not errs,
                  (errs[:1] or [{"system_index": m[0], "case": groups[m[0]][2][m[1]], "model": m[2]} for m in mism[:2]]))
        run.cov["traces_validated_against_impl"] = ncases
        run.cov["disagreements_checked"] = len(mism)
    fs = None
    for sysm, _, _ in groups[:40]:
        fs = fs or fresh_state_check(sysm, rnd)
    fr = None
    for sysm, _, _ in groups[: (80 if args.tier == "quick" else 600)]:
        if fr is None:
            fr = frame_check(sysm, rnd)
            if fr:
                fr["system"] = sysm
    run.cov["frame_checks"] = 80 if args.tier == "quick" else 600
    if s2_fail:
        sysm, order, mode, cid, vals, o, why = s2_fail
        run.violation({"what": why, "system": sysm, "set_order": order, "mode": mode, "cls": cid, "values": vals,
                       "implementation_returned": o, "how": "vfw.tsys.build_real(system) -> VisionsTypeset -> detect (mode 0) / infer (mode 1)",
                       "broken_obligations": run.failed_obligations()})
    elif fs:
        run.violation({"what": fs, "broken_obligations": run.failed_obligations()})
    elif fr:
        fr["broken_obligations"] = run.failed_obligations()
        fr["how"] = "vfw.tsys.build_real(system) -> VisionsTypeset -> infer/detect on pd.DataFrame(columns) vs on each column"
        run.violation(fr)
    elif mism:
        m = min(mism, key=lambda m: (len(groups[m[0]][0]["types"]), len(groups[m[0]][2][m[1]][1][1])))
        sysm, order, cases = groups[m[0]]
        mode, (cid, vals), o = cases[m[1]]
        run.violation({"what": "generated engine model and implementation disagree (the implementation's answer is still a valid walk by the order-insensitive oracle)",
                       "system": sysm, "set_order": order, "mode": mode, "cls": cid, "values": vals,
                       "implementation_returned": o, "model_returned": m[2], "broken_obligations": run.failed_obligations()}, no_input=True)
    elif run.failed_obligations():
        rep = {"broken_obligations": run.failed_obligations(),
               "searched": f"{ncases} detect/infer calls on {len(groups)} random type systems against an order-insensitive reference-walk oracle: no failing input"}
        if info["gen"].get("engine", {}).get("changed_vs_golden"):
            rep["model_diff_vs_golden"] = C.golden_diff("Engine_gen.v")
        run.violation(rep, no_input=True)
    run.cov["rule"] = ("random rooted trees of 1..12 types (class-based and create_type, per-class registrations on list/tuple/custom Sequence, "
                       "state-writing and raising guards, partial-map transformers) x all sequences up to length 2-3 over their universe x 3 data classes x detect/infer; "
                       "non-trivial = the returned path has more than one type; distinct = distinct (system, mode, class, values)")
    g0 = groups[min(5, len(groups) - 1)]
    run.cov["samples"] = [{"n_types": len(g0[0]["types"]), "set_order": g0[1], "case": g0[2][k]} for k in (0, len(g0[2]) // 2)]
    run.cov["trusted_base"] += [
        "translator vfw/py2coq.py + vfw/gen_engine.py (typeset.py, relations.py, pandas/traversal.py, functional.py -> gen/Engine_gen.v, regenerated this run)",
        "coq/lib/NxModel.v (networkx.DiGraph subset) and PyBase.v: hand models, exercised against networkx through typeset construction in this run",
        "coq/extract/RunnerEngine.v: hand model of VisionsBaseTypeMeta.relations defaults (attr.evolve) and multimethod dispatch by data class, validated by this correspondence",
        "model evaluated inside Coq by vm_compute on harness-written case files (no extraction)",
        "fuel: the model's recursion is bounded by explicit fuel; OutOfFuel results are outside the theorems (Python recursion is unbounded)",
    ]
    run.assumptions += ["set(types) iteration order is read back from the running interpreter and handed to the model (set_iter := identity)"]
    return run.finish("proof")
