From Coq Require Extraction ExtrOcamlBasic.
From V Require Import RunnerPython.
Extraction Language OCaml.
Extraction "model.ml" python_contains_vector.
