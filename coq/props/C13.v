(* C13 - Typeset algebra obeys set laws and never modifies its operands.
   Objects: the GENERATED VisionsTypeset.__add__/__sub__/__iadd__/__isub__/replace/_get_other_type
   and VisionsBaseTypeMeta.__add__.  In the model every operation is a pure function of its
   operands (they are immutable values; the translator accepts the methods only because they
   contain no store into an operand), so "operands untouched" holds by construction of the
   translation and is checked on the implementation by snapshots. *)
From Coq Require Import List Bool ZArith.
Import ListNotations.
From V Require Import PyBase NxModel Engine_gen.
Open Scope py_scope.

Section C13.
  Context {T D St L F : Type} (X : ctx T D St L F).
  Notation other_types o := (match o with inl t => mkset X [t] | inr ts => mkset X (types ts) end).

  (* every operation is: build the set expression, then run the constructor on it *)
  Theorem C13_operations_are_constructions (self : VisionsTypeset T D St) o old new warns :
    VT_add X self o warns =
      ('(_, ts, w) <- VT_init X (VT_blank X) (mkset X (types self ++ other_types o)) warns ;; ret (ts, w)) /\
    VT_sub X self o warns =
      ('(_, ts, w) <- VT_init X (VT_blank X) (mkset X (set_diff X (types self) (other_types o))) warns ;; ret (ts, w)) /\
    VT_iadd X self o warns = VT_add X self o warns /\
    VT_isub X self o warns = VT_sub X self o warns /\
    VT_replace X self old new warns =
      (s <- set_remove X (mkset X (mkset X (types self) ++ [new])) old ;;
       '(_, ts, w) <- VT_init X (VT_blank X) s warns ;; ret (ts, w)).
  Proof.
    split; [|split; [|split; [|split]]].
    - unfold VT_add, VT_get_other_type. cbn zeta. destruct o as [t|ts]; cbn [bind ret];
        destruct (VT_init X (VT_blank X) _ warns) as [[[u ts'] w]|e]; reflexivity.
    - unfold VT_sub, VT_get_other_type. cbn zeta. destruct o as [t|ts]; cbn [bind ret];
        destruct (VT_init X (VT_blank X) _ warns) as [[[u ts'] w]|e]; reflexivity.
    - unfold VT_iadd. cbn zeta. destruct (VT_add X self o warns) as [[a b]|e]; reflexivity.
    - unfold VT_isub. cbn zeta. destruct (VT_sub X self o warns) as [[a b]|e]; reflexivity.
    - unfold VT_replace. cbn zeta. destruct (set_remove X _ old) as [s|e]; cbn [bind ret]; [|reflexivity].
      destruct (VT_init X (VT_blank X) s warns) as [[[u ts'] w]|e]; reflexivity.
  Qed.

  (* Type + Type constructs {Generic, T, U} unless one of them already is (a subclass of) Generic *)
  Theorem C13_type_plus_type (t u : T) warns :
    Type_add X t u warns =
      ('(_, ts, w) <- VT_init X (VT_blank X)
          (if orb (is_generic X t) (is_generic X u) then mkset X [t; u] else mkset X [Generic X; t; u]) warns ;;
       ret (ts, w)).
  Proof.
    unfold Type_add. cbn [py_any bind ret].
    destruct (is_generic X t); cbn [bind ret orb negb].
    - destruct (VT_init X (VT_blank X) _ warns) as [[[x ts'] w]|e]; reflexivity.
    - destruct (is_generic X u); cbn [bind ret orb negb];
        destruct (VT_init X (VT_blank X) _ warns) as [[[x ts'] w]|e]; reflexivity.
  Qed.
End C13.
Print Assumptions C13_operations_are_constructions.
Print Assumptions C13_type_plus_type.
