(* GraphWF: the graph that the GENERATED build_graph / VisionsTypeset.__init__ construct, for EVERY
   relation table satisfying the table facts and EVERY parent-closed node list in EVERY order. *)
From Coq Require Import List Bool ZArith Lia Permutation Arith.
Import ListNotations.
From V Require Import PyBase NxModel NxFacts Engine_gen Graph_bridge.
Open Scope py_scope.

Lemma fold_left_flat_map {A B C} (f : A -> C -> A) (g : B -> list C) l : forall a,
  fold_left (fun acc x => fold_left f (g x) acc) l a = fold_left f (flat_map g l) a.
Proof. induction l as [|x l IH]; intro a; simpl; [reflexivity|]. rewrite fold_left_app. apply IH. Qed.

(* reachability from a root along the edges of a graph *)
Inductive reach_in {T A} (eqb : T -> T -> bool) (g : digraph T A) (root : T) : T -> Prop :=
| reach_root : reach_in eqb g root root
| reach_step u v a : reach_in eqb g root u -> edge_at eqb g u v = Some a -> reach_in eqb g root v.

Section GraphWF.
  Context {T D St L F : Type} (X : ctx T D St L F).
  Notation relation := (relation T D St).
  Notation graph := (graph T D St).
  Notation eqb := (T_eqb X).
  Hypothesis Heq : forall a b, eqb a b = true <-> a = b.
  Hypothesis Hty : forall t r, In r (relations X t) -> type_ r = t.

  Variable nodes : list T.
  Hypothesis Hnd : NoDup nodes.

  Definition ea (r : relation) := mkEA r (style_of r).
  Definition g0 : graph := mkG nodes (map (fun n => (n, [])) nodes).
  Definition incl_src (r : relation) : bool := memb eqb (related_type r) nodes.

  Definition warn3 (r : relation) := Warn 3 [related_type r; type_ r; related_type r].

  (* the state after processing the relation list [done] *)
  Record bg_inv (done : list relation) (w0 w : list (warning T)) (g : graph) (ne : list (T * T)) : Prop := {
    bi_wf : wfg g;
    bi_nodes : g_nodes g = nodes;
    bi_keys : adj_keys_nodup eqb g;
    bi_w : w = w0 ++ map warn3 (filter (fun r => negb (incl_src r)) done);
    bi_ne : ne = map (fun r => (related_type r, type_ r)) (filter (fun r => andb (incl_src r) (negb (inferential r))) done);
    bi_sound : forall u v a, edge_at eqb g u v = Some a ->
                 exists r, In r done /\ related_type r = u /\ type_ r = v /\ In u nodes /\ a = ea r;
    bi_complete : forall r, In r done -> In (related_type r) nodes ->
                 exists r', In r' done /\ related_type r' = related_type r /\ type_ r' = type_ r /\
                            edge_at eqb g (related_type r) (type_ r) = Some (ea r')
  }.

  Lemma edge_at_g0 u v : edge_at eqb g0 u v = None.
  Proof.
    unfold edge_at, adj_of, g0. simpl.
    destruct (od_find eqb (map (fun n => (n, [])) nodes) u) as [l|] eqn:E; [|reflexivity].
    apply od_find_some_in in E; [|exact Heq]. apply in_map_iff in E. destruct E as [n [E _]]. inversion E. reflexivity.
  Qed.

  Lemma bg_inv_init w0 : bg_inv [] w0 w0 g0 [].
  Proof.
    split; simpl.
    - apply wfg_initial. exact Hnd.
    - reflexivity.
    - intro u. unfold adj_of, g0. simpl.
      destruct (od_find eqb (map (fun n => (n, [])) nodes) u) as [l|] eqn:E; [|constructor].
      apply od_find_some_in in E; [|exact Heq]. apply in_map_iff in E. destruct E as [n [E _]]. inversion E. constructor.
    - rewrite app_nil_r. reflexivity.
    - reflexivity.
    - intros u v a H. rewrite edge_at_g0 in H. discriminate.
    - intros r [].
  Qed.

  Lemma bg_inv_step done w0 w g ne r :
    In (type_ r) nodes ->
    bg_inv done w0 w g ne ->
    let '(w', g', ne') := bg_step X nodes (w, g, ne) r in bg_inv (done ++ [r]) w0 w' g' ne'.
  Proof.
    intros Hv [Hwf Hn Hk Hw Hne Hs Hc]. unfold bg_step. fold (incl_src r).
    destruct (incl_src r) eqn:Ei; simpl negb; cbv iota.
    - assert (Hu : In (related_type r) nodes) by (apply (memb_In eqb Heq); exact Ei).
      assert (Hu' : In (related_type r) (g_nodes g)) by (rewrite Hn; exact Hu).
      assert (Hv' : In (type_ r) (g_nodes g)) by (rewrite Hn; exact Hv).
      destruct (add_edge_wfg eqb Heq g (related_type r) (type_ r) (mkEA r (style_of r)) Hwf Hu' Hv') as [Hwf' Hn'].
      assert (K : bg_inv (done ++ [r]) w0 w (g_add_edge eqb g (related_type r) (type_ r) (mkEA r (style_of r)))
                         (if negb (inferential r) then ne ++ [(related_type r, type_ r)] else ne)).
      { split.
        - exact Hwf'.
        - rewrite Hn'. exact Hn.
        - apply (add_edge_keys_nodup eqb Heq); assumption.
        - rewrite filter_app. simpl. rewrite Ei. simpl. rewrite app_nil_r. exact Hw.
        - rewrite filter_app, map_app. simpl. rewrite Ei. simpl. destruct (inferential r); simpl; [rewrite app_nil_r; exact Hne | rewrite Hne; reflexivity].
        - intros u v a H. rewrite (edge_at_add_edge eqb Heq g _ _ _ u v Hwf Hu' Hv') in H.
          destruct (andb (eqb u (related_type r)) (eqb v (type_ r))) eqn:E.
          + apply andb_true_iff in E. destruct E as [E1 E2]. apply Heq in E1. apply Heq in E2. subst u v.
            inversion H. exists r. repeat split; try reflexivity; [apply in_or_app; right; left; reflexivity | exact Hu].
          + destruct (Hs u v a H) as [r0 [H0 H1]]. exists r0. split; [apply in_or_app; left; exact H0 | exact H1].
        - intros r1 H1 Hin. rewrite (edge_at_add_edge eqb Heq g _ _ _ _ _ Hwf Hu' Hv').
          destruct (andb (eqb (related_type r1) (related_type r)) (eqb (type_ r1) (type_ r))) eqn:E.
          + apply andb_true_iff in E. destruct E as [E1 E2]. apply Heq in E1. apply Heq in E2.
            exists r. repeat split; [apply in_or_app; right; left; reflexivity | congruence | congruence].
          + apply in_app_or in H1. destruct H1 as [H1|[H1|[]]].
            * destruct (Hc r1 H1 Hin) as [r' [A [B [C0 D0]]]]. exists r'. repeat split; [apply in_or_app; left; exact A | exact B | exact C0 | exact D0].
            * subst r1. rewrite !(eqb_refl eqb Heq) in E. discriminate. }
      destruct (inferential r); exact K.
    - split.
      + exact Hwf.
      + exact Hn.
      + exact Hk.
      + rewrite filter_app, map_app. simpl. rewrite Ei. simpl. rewrite Hw, <- app_assoc. reflexivity.
      + rewrite filter_app. simpl. rewrite Ei. simpl. rewrite app_nil_r. exact Hne.
      + intros u v a H. destruct (Hs u v a H) as [r0 [H0 H1]]. exists r0. split; [apply in_or_app; left; exact H0 | exact H1].
      + intros r1 H1 Hin. apply in_app_or in H1. destruct H1 as [H1|[H1|[]]].
        * destruct (Hc r1 H1 Hin) as [r' [A B]]. exists r'. split; [apply in_or_app; left; exact A | exact B].
        * subst r1. apply (memb_In eqb Heq) in Hin. unfold incl_src in Ei. congruence.
  Qed.

  Lemma bg_inv_fold rs : forall done w0 w g ne,
    (forall r, In r rs -> In (type_ r) nodes) ->
    bg_inv done w0 w g ne ->
    let '(w', g', ne') := fold_left (bg_step X nodes) rs (w, g, ne) in bg_inv (done ++ rs) w0 w' g' ne'.
  Proof.
    induction rs as [|r rs IH]; intros done w0 w g ne Hin Hinv; cbn [fold_left].
    - rewrite app_nil_r. exact Hinv.
    - pose proof (bg_inv_step done w0 w g ne r (Hin r (or_introl eq_refl)) Hinv) as Hs.
      destruct (bg_step X nodes (w, g, ne) r) as [[w1 g1] ne1].
      specialize (IH (done ++ [r]) w0 w1 g1 ne1 (fun r' H => Hin r' (or_intror H)) Hs).
      rewrite <- app_assoc in IH. exact IH.
  Qed.

  Definition all_rels : list relation := flat_map (relations X) nodes.

  Lemma all_rels_type r : In r all_rels -> In (type_ r) nodes /\ In r (relations X (type_ r)).
  Proof.
    unfold all_rels. rewrite in_flat_map. intros [n [Hn Hr]]. rewrite (Hty n r Hr). split; assumption.
  Qed.

  Theorem bg_loops_inv w0 :
    let '(w, g, ne) := bg_loops X nodes w0 in bg_inv all_rels w0 w g ne.
  Proof.
    unfold bg_loops. rewrite fold_left_flat_map. fold all_rels.
    rewrite (add_nodes_from_empty eqb Heq nodes Hnd). fold g0.
    apply (bg_inv_fold all_rels [] w0 w0 g0 []); [intros r H; apply all_rels_type; exact H | apply bg_inv_init].
  Qed.

  (* ================= sets ================= *)
  Hypothesis Hperm : forall l, NoDup l -> Permutation (set_iter X l) l.

  Lemma dedup_in l x : In x (dedup X l) <-> In x l.
  Proof.
    induction l as [|y l IH]; simpl; [tauto|].
    destruct (memb eqb y l) eqn:E.
    - rewrite IH. split; [auto|]. intros [H|H]; [subst; apply (memb_In eqb Heq); exact E | exact H].
    - simpl. rewrite IH. tauto.
  Qed.
  Lemma dedup_nodup l : NoDup (dedup X l).
  Proof.
    induction l as [|y l IH]; simpl; [constructor|].
    destruct (memb eqb y l) eqn:E; [exact IH|]. constructor; [|exact IH].
    rewrite dedup_in. apply (memb_false eqb Heq). exact E.
  Qed.
  Lemma mkset_perm l : Permutation (mkset X l) (dedup X l).
  Proof. apply Hperm. apply dedup_nodup. Qed.
  Lemma mkset_in l x : In x (mkset X l) <-> In x l.
  Proof.
    split; intro H.
    - apply dedup_in. apply (Permutation_in _ (mkset_perm l)). exact H.
    - apply (Permutation_in _ (Permutation_sym (mkset_perm l))). apply dedup_in. exact H.
  Qed.
  Lemma mkset_nodup l : NoDup (mkset X l).
  Proof. apply (Permutation_NoDup (Permutation_sym (mkset_perm l))). apply dedup_nodup. Qed.
  Lemma mkset_nil : mkset X [] = [].
  Proof. apply Permutation_nil. apply Permutation_sym. exact (mkset_perm []). Qed.
  Lemma dedup_nodup_id l : NoDup l -> dedup X l = l.
  Proof.
    induction l as [|y l IH]; simpl; [reflexivity|]. intro H. inversion H as [|? ? Hn Hl]; subst.
    rewrite (proj2 (memb_false eqb Heq y l) Hn), (IH Hl). reflexivity.
  Qed.
  Lemma set_diff_nil a b : (forall x, In x a -> In x b) -> set_diff X a b = [].
  Proof.
    intro H. unfold set_diff. cbv zeta. induction a as [|x a IH]; simpl; [reflexivity|].
    rewrite (proj2 (memb_In eqb Heq x b) (H x (or_introl eq_refl))). simpl. apply IH. intros y Hy. apply H. right. exact Hy.
  Qed.

  (* ================= the root ================= *)
  Hypothesis Hgen : forall t, is_generic X t = true <-> t = Generic X.

  Lemma for_each_find {Y} (p : Y -> bool) l :
    for_each l tt (fun x '(_) => if p x then ret (LReturn (V:=unit) x) else ret (LContinue tt))
    = Ok (match find p l with Some x => LoopReturned x | None => LoopDone tt end).
  Proof. induction l as [|x l IH]; simpl; [reflexivity|]. destruct (p x); simpl; [reflexivity | exact IH]. Qed.

  Lemma find_root_generic (g : graph) :
    wfg g -> In (Generic X) (g_nodes g) -> in_degree eqb g (Generic X) = 0 -> find_root_node X g = Ok (Generic X).
  Proof.
    intros Hwf Hin Hdeg. unfold find_root_node. cbv zeta.
    destruct (first_source_spec eqb g (ex_intro _ (Generic X) (conj Hin Hdeg))) as [s [Es [Hs Hd]]].
    rewrite Es. cbn [bind]. destruct (is_generic X s) eqn:Eg; simpl negb; cbv iota.
    - apply Hgen in Eg. subst. reflexivity.
    - rewrite (for_each_find (fun node => andb (is_generic X node) (Z.eqb (Z.of_nat (in_degree eqb g node)) 0)) (g_nodes g)). cbn [bind].
      destruct (find _ (g_nodes g)) as [x|] eqn:Ef.
      + apply find_some in Ef. destruct Ef as [_ Ef]. apply andb_true_iff in Ef. destruct Ef as [Ef _]. apply Hgen in Ef. subst. reflexivity.
      + exfalso. pose proof (find_none _ _ Ef (Generic X) Hin) as H. cbv beta in H.
        rewrite (proj2 (Hgen (Generic X)) eq_refl), Hdeg in H. discriminate.
  Qed.

  (* ================= the table facts, for THIS node list ================= *)
  Hypothesis HinG : In (Generic X) nodes.
  Hypothesis HG : relations X (Generic X) = [].
  Hypothesis Hpar : forall t, In t nodes -> t <> Generic X ->
                      exists r, In r (relations X t) /\ inferential r = false /\ In (related_type r) nodes.
  Hypothesis Huniq : forall t r r', In r (relations X t) -> In r' (relations X t) -> related_type r = related_type r' -> r = r'.

  Section Built.
    Variables (w0 w1 : list (warning T)) (g1 : graph) (ne : list (T * T)).
    Hypothesis Hbuilt : bg_loops X nodes w0 = (w1, g1, ne).

    Lemma built_inv : bg_inv all_rels w0 w1 g1 ne.
    Proof. pose proof (bg_loops_inv w0) as H. rewrite Hbuilt in H. exact H. Qed.

    Lemma in_all_rels r v : In v nodes -> In r (relations X v) -> In r all_rels.
    Proof. intros Hv Hr. unfold all_rels. apply in_flat_map. exists v. split; assumption. Qed.

    (* EDGES: exactly the declared relations whose source is included, with the declared style *)
    Theorem built_edges u v a :
      edge_at eqb g1 u v = Some a <->
      (In u nodes /\ In v nodes /\ exists r, In r (relations X v) /\ related_type r = u /\ a = ea r).
    Proof.
      destruct built_inv as [Hwf Hn _ _ _ Hs Hc]. split.
      - intro H. destruct (Hs u v a H) as [r [Hr [Hu [Hv [Hin Ha]]]]].
        destruct (all_rels_type r Hr) as [H1 H2]. rewrite Hv in H1, H2.
        split; [exact Hin|]. split; [exact H1|]. exists r. auto.
      - intros [Hu [Hv [r [Hr [Er Ea]]]]]. subst u a.
        assert (Hv' : type_ r = v) by (apply Hty; exact Hr).
        destruct (Hc r (in_all_rels r v Hv Hr) Hu) as [r' [Hr' [E1 [E2 E3]]]].
        destruct (all_rels_type r' Hr') as [_ H2]. rewrite E2, Hv' in H2.
        rewrite (Huniq v r' r H2 Hr E1) in E3. rewrite Hv' in E3. exact E3.
    Qed.

    Lemma built_nodes : g_nodes g1 = nodes.
    Proof. exact (bi_nodes _ _ _ _ _ built_inv). Qed.
    Lemma built_keys : adj_keys_nodup eqb g1.
    Proof. exact (bi_keys _ _ _ _ _ built_inv). Qed.
    Lemma built_wf : wfg g1.
    Proof. exact (bi_wf _ _ _ _ _ built_inv). Qed.

    Lemma generic_no_parent : in_degree eqb g1 (Generic X) = 0.
    Proof.
      apply (in_degree_zero eqb Heq g1 _ built_wf). intro u.
      destruct (edge_at eqb g1 u (Generic X)) as [a|] eqn:E; [|reflexivity].
      apply built_edges in E. destruct E as [_ [_ [r [Hr _]]]]. rewrite HG in Hr. destruct Hr.
    Qed.

    Lemma others_have_parent t : In t nodes -> t <> Generic X -> in_degree eqb g1 t <> 0.
    Proof.
      intros Ht Hne Hd. rewrite (in_degree_zero eqb Heq g1 _ built_wf) in Hd.
      destruct (Hpar t Ht Hne) as [r [Hr [_ Hin]]].
      assert (E : edge_at eqb g1 (related_type r) t = Some (ea r)) by (apply built_edges; split; [exact Hin|]; split; [exact Ht|]; exists r; auto).
      rewrite Hd in E. discriminate.
    Qed.

    Lemma built_root : find_root_node X g1 = Ok (Generic X).
    Proof. apply find_root_generic; [exact built_wf | rewrite built_nodes; exact HinG | exact generic_no_parent]. Qed.

    Lemma built_isolates w : check_isolates X g1 w = Ok (tt, g1, w).
    Proof.
      unfold check_isolates. cbv zeta. rewrite built_root. cbn [bind].
      assert (Hiso : set_diff X (mkset X (g_isolates eqb g1)) (mkset X [Generic X]) = []).
      { apply set_diff_nil. intros x Hx. apply (proj2 (mkset_in _ _)). apply (proj1 (mkset_in _ _)) in Hx. left.
        unfold g_isolates in Hx. apply filter_In in Hx. destruct Hx as [Hx Hd]. rewrite built_nodes in Hx.
        apply andb_true_iff in Hd. destruct Hd as [Hd _]. apply Nat.eqb_eq in Hd.
        destruct (eqb x (Generic X)) eqn:E; [apply Heq in E; congruence|].
        exfalso. apply (others_have_parent x Hx); [|exact Hd]. intro H. subst. rewrite (eqb_refl eqb Heq) in E. discriminate. }
      rewrite Hiso, mkset_nil, (remove_no_nodes eqb).
      rewrite (set_diff_nil (mkset X (g_nodes g1)) (mkset X (g_nodes g1))) by auto.
      rewrite mkset_nil. reflexivity.
    Qed.

    Definition cyc_warn : list (warning T) := if g_has_cycle eqb g1 then [Warn 2 []] else [].

    Lemma built_constraints : check_graph_constraints X g1 w1 = Ok (tt, g1, w1 ++ cyc_warn).
    Proof.
      unfold check_graph_constraints. cbv zeta. rewrite built_isolates. cbn [bind].
      unfold check_cycles, cyc_warn. cbv zeta. destruct (g_has_cycle eqb g1); cbn; [reflexivity | rewrite app_nil_r; reflexivity].
    Qed.

    Theorem build_graph_ok :
      build_graph X nodes w0 = Ok ((g1, g_edge_subgraph eqb g1 ne), w1 ++ cyc_warn).
    Proof. rewrite build_graph_eq, Hbuilt, built_constraints. reflexivity. Qed.

    Lemma built_warnings : w1 = w0 ++ map warn3 (filter (fun r => negb (incl_src r)) all_rels).
    Proof. exact (bi_w _ _ _ _ _ built_inv). Qed.
    Lemma built_identity_edges :
      ne = map (fun r => (related_type r, type_ r)) (filter (fun r => andb (incl_src r) (negb (inferential r))) all_rels).
    Proof. exact (bi_ne _ _ _ _ _ built_inv). Qed.

    (* ================= the identity (base) graph ================= *)
    Definition base : graph := g_edge_subgraph eqb g1 ne.

    Lemma listed_iff u v :
      existsb (fun '(a, b) => andb (eqb a u) (eqb b v)) ne = true <->
      (In u nodes /\ In v nodes /\ exists r, In r (relations X v) /\ related_type r = u /\ inferential r = false).
    Proof.
      rewrite built_identity_edges, existsb_exists. split.
      - intros [[a b] [Hin E]]. apply andb_true_iff in E. destruct E as [E1 E2]. apply Heq in E1. apply Heq in E2. subst a b.
        apply in_map_iff in Hin. destruct Hin as [r [E Hr]]. inversion E; subst. apply filter_In in Hr. destruct Hr as [Hr Hc].
        apply andb_true_iff in Hc. destruct Hc as [Hi Hinf]. destruct (all_rels_type r Hr) as [H1 H2].
        split; [apply (memb_In eqb Heq); exact Hi|]. split; [exact H1|]. exists r. split; [exact H2|]. split; [reflexivity|].
        destruct (inferential r); [discriminate | reflexivity].
      - intros [Hu [Hv [r [Hr [Er Einf]]]]]. exists (u, v). split; [|rewrite !(eqb_refl eqb Heq); reflexivity].
        apply in_map_iff. exists r. split; [rewrite Er, (Hty v r Hr); reflexivity|]. apply filter_In. split; [exact (in_all_rels r v Hv Hr)|].
        unfold incl_src. rewrite Er, (proj2 (memb_In eqb Heq u nodes) Hu), Einf. reflexivity.
    Qed.

    (* base EDGES: exactly the declared identity relations between included types, solid *)
    Theorem base_edges u v a :
      edge_at eqb base u v = Some a <->
      (In u nodes /\ In v nodes /\ exists r, In r (relations X v) /\ related_type r = u /\ inferential r = false /\ a = mkEA r Solid).
    Proof.
      unfold base. rewrite (edge_at_subgraph eqb Heq). split.
      - destruct (existsb _ ne) eqn:El; [|discriminate]. intro H.
        apply listed_iff in El. destruct El as [Hu [Hv [r0 [Hr0 [E0 Einf]]]]].
        apply built_edges in H. destruct H as [_ [_ [r [Hr [Er Ea]]]]].
        assert (r0 = r) by (apply (Huniq v); [exact Hr0 | exact Hr | congruence]). subst r0.
        split; [exact Hu|]. split; [exact Hv|]. exists r. repeat split; try assumption.
        rewrite Ea. unfold ea, style_of. rewrite Einf. reflexivity.
      - intros [Hu [Hv [r [Hr [Er [Einf Ea]]]]]].
        rewrite (proj2 (listed_iff u v)) by (split; [exact Hu|]; split; [exact Hv|]; exists r; auto).
        apply built_edges. split; [exact Hu|]. split; [exact Hv|]. exists r. split; [exact Hr|]. split; [exact Er|].
        rewrite Ea. unfold ea, style_of. rewrite Einf. reflexivity.
    Qed.

    (* every edge of the full graph carries the declared style: dashed iff inferential *)
    Corollary built_styles u v a : edge_at eqb g1 u v = Some a ->
      ea_style a = if inferential (ea_relationship a) then Dashed else Solid.
    Proof. intro H. apply built_edges in H. destruct H as [_ [_ [r [_ [_ Ea]]]]]. subst a. reflexivity. Qed.

    (* the base graph is the solid part of the full graph *)
    Corollary base_is_solid_part u v a :
      edge_at eqb base u v = Some a <-> (edge_at eqb g1 u v = Some a /\ ea_style a = Solid).
    Proof.
      split.
      - intro H. apply base_edges in H. destruct H as [Hu [Hv [r [Hr [Er [Einf Ea]]]]]]. split; [|subst a; reflexivity].
        apply built_edges. split; [exact Hu|]. split; [exact Hv|]. exists r. split; [exact Hr|]. split; [exact Er|].
        rewrite Ea. unfold ea, style_of. rewrite Einf. reflexivity.
      - intros [H Hs]. apply built_edges in H. destruct H as [Hu [Hv [r [Hr [Er Ea]]]]]. apply base_edges.
        split; [exact Hu|]. split; [exact Hv|]. exists r. split; [exact Hr|]. split; [exact Er|].
        subst a. unfold ea, style_of in *. simpl in Hs. destruct (inferential r); [discriminate | auto].
    Qed.

    (* ---- TREE *)
    Hypothesis Hone : forall t r r', In r (relations X t) -> In r' (relations X t) ->
                        inferential r = false -> inferential r' = false -> r = r'.
    Variable rk : T -> nat.
    Hypothesis Hrk : forall t r, In r (relations X t) -> rk (related_type r) < rk t.

    Theorem base_root_has_no_parent u : edge_at eqb base u (Generic X) = None.
    Proof.
      destruct (edge_at eqb base u (Generic X)) eqn:E; [|reflexivity].
      apply base_edges in E. destruct E as [_ [_ [r [Hr _]]]]. rewrite HG in Hr. destruct Hr.
    Qed.

    Theorem base_unique_parent v : In v nodes -> v <> Generic X ->
      exists u a, edge_at eqb base u v = Some a /\ forall u' a', edge_at eqb base u' v = Some a' -> u' = u /\ a' = a.
    Proof.
      intros Hv Hne. destruct (Hpar v Hv Hne) as [r [Hr [Einf Hin]]].
      exists (related_type r), (mkEA r Solid). split.
      - apply base_edges. split; [exact Hin|]. split; [exact Hv|]. exists r. auto.
      - intros u' a' H. apply base_edges in H. destruct H as [_ [_ [r' [Hr' [Er' [Einf' Ea']]]]]].
        assert (r' = r) by (apply (Hone v); assumption). subst r'. split; [symmetry; exact Er' | exact Ea'].
    Qed.

    Theorem base_spans v : In v nodes -> reach_in eqb base (Generic X) v.
    Proof.
      remember (S (rk v)) as n eqn:En. assert (Hb : rk v < n) by lia. clear En. revert v Hb.
      induction n as [|n IH]; intros v Hb Hv; [lia|].
      destruct (eqb v (Generic X)) eqn:E; [apply Heq in E; subst; constructor|].
      assert (Hne : v <> Generic X) by (intro H; subst; rewrite (eqb_refl eqb Heq) in E; discriminate).
      destruct (Hpar v Hv Hne) as [r [Hr [Einf Hin]]].
      apply (reach_step eqb base (Generic X) (related_type r) v (mkEA r Solid)).
      - apply IH; [pose proof (Hrk v r Hr); lia | exact Hin].
      - apply base_edges. split; [exact Hin|]. split; [exact Hv|]. exists r. auto.
    Qed.

    (* ACYCLIC: the rank strictly increases along every edge of the full graph *)
    Theorem built_rank_increases u v a : edge_at eqb g1 u v = Some a -> rk u < rk v.
    Proof. intro H. apply built_edges in H. destruct H as [_ [_ [r [Hr [Er _]]]]]. subst u. exact (Hrk v r Hr). Qed.

    (* the node set of the identity graph: all given types as soon as there are two *)
    Lemma child_of_root v : In v nodes -> v <> Generic X ->
      exists c a, edge_at eqb base (Generic X) c = Some a.
    Proof.
      remember (S (rk v)) as n eqn:En. assert (Hb : rk v < n) by lia. clear En. revert v Hb.
      induction n as [|n IH]; intros v Hb Hv Hne; [lia|].
      destruct (Hpar v Hv Hne) as [r [Hr [Einf Hin]]].
      assert (Hedge : edge_at eqb base (related_type r) v = Some (mkEA r Solid))
        by (apply base_edges; split; [exact Hin|]; split; [exact Hv|]; exists r; auto).
      destruct (eqb (related_type r) (Generic X)) eqn:E.
      - apply Heq in E. rewrite E in Hedge. exists v, (mkEA r Solid). exact Hedge.
      - apply (IH (related_type r)); [pose proof (Hrk v r Hr); lia | exact Hin |].
        intro H. rewrite H, (eqb_refl eqb Heq) in E. discriminate.
    Qed.

    Lemma listed_of_base_edge u v a : edge_at eqb base u v = Some a -> In (u, v) ne.
    Proof.
      unfold base. rewrite (edge_at_subgraph eqb Heq). destruct (existsb _ ne) eqn:El; [|discriminate]. intros _.
      apply existsb_exists in El. destruct El as [[x y] [Hin E]]. apply andb_true_iff in E. destruct E as [E1 E2].
      apply Heq in E1. apply Heq in E2. subst. exact Hin.
    Qed.

    Theorem base_nodes v : (exists t, In t nodes /\ t <> Generic X) -> (In v (g_nodes base) <-> In v nodes).
    Proof.
      intros [t [Ht Hne]]. unfold base. rewrite (nodes_subgraph eqb Heq), built_nodes. split; [tauto|]. intro Hv. split; [exact Hv|].
      destruct (eqb v (Generic X)) eqn:E.
      - apply Heq in E. subst v. destruct (child_of_root t Ht Hne) as [c [a Hc]]. exists (Generic X), c. split; [exact (listed_of_base_edge _ _ _ Hc) | left; reflexivity].
      - assert (Hv' : v <> Generic X) by (intro H; subst; rewrite (eqb_refl eqb Heq) in E; discriminate).
        destruct (base_unique_parent v Hv Hv') as [u [a [Hu _]]]. exists u, v. split; [exact (listed_of_base_edge _ _ _ Hu) | right; reflexivity].
    Qed.

    (* the node set of the identity graph in general: the endpoints of identity edges *)
    Theorem base_nodes_gen v :
      In v (g_nodes base) <-> (exists u a, edge_at eqb base u v = Some a) \/ (exists u a, edge_at eqb base v u = Some a).
    Proof.
      unfold base at 1. rewrite (nodes_subgraph eqb Heq), built_nodes. split.
      - intros [Hv [a [b [Hin E]]]].
        assert (Hl : existsb (fun '(x, y) => andb (eqb x a) (eqb y b)) ne = true)
          by (apply existsb_exists; exists (a, b); split; [exact Hin | rewrite !(eqb_refl eqb Heq); reflexivity]).
        apply listed_iff in Hl. destruct Hl as [Ha [Hb [r [Hr [Er Einf]]]]].
        assert (Hedge : edge_at eqb base a b = Some (mkEA r Solid)) by (apply base_edges; split; [exact Ha|]; split; [exact Hb|]; exists r; auto).
        destruct E as [E|E]; subst; [right | left]; eauto.
      - intros [[u [a Hu]]|[u [a Hu]]].
        + pose proof (listed_of_base_edge _ _ _ Hu) as Hin. apply base_edges in Hu. destruct Hu as [_ [Hv _]].
          split; [exact Hv|]. exists u, v. split; [exact Hin | right; reflexivity].
        + pose proof (listed_of_base_edge _ _ _ Hu) as Hin. apply base_edges in Hu. destruct Hu as [Hv _].
          split; [exact Hv|]. exists v, u. split; [exact Hin | left; reflexivity].
    Qed.

    Lemma base_nodes_nodup : NoDup (g_nodes base).
    Proof. unfold base, g_edge_subgraph. cbv zeta. cbn [g_nodes]. apply NoDup_filter. rewrite built_nodes. exact Hnd. Qed.

    Theorem built_no_cycle : g_has_cycle eqb g1 = false.
    Proof. apply (ranked_acyclic eqb Heq rk g1 built_wf). intros u v a. apply built_rank_increases. Qed.

    Theorem build_graph_final : build_graph X nodes w0 = Ok ((g1, base), w1).
    Proof. rewrite build_graph_ok. unfold cyc_warn. rewrite built_no_cycle, app_nil_r. reflexivity. Qed.

    (* VisionsTypeset.__init__ on any list whose set iteration is [nodes] *)
    Theorem VT_init_final types : mkset X types = nodes ->
      VT_init X (VT_blank X) types w0 = Ok (tt, mkVT (Some (Generic X)) g1 base (mkset X nodes), w1).
    Proof.
      intro Hnodes. unfold VT_init. cbv zeta. simpl negb. cbv iota. rewrite Hnodes, build_graph_final. cbn [bind].
      unfold VT_root_node. cbv zeta. cbn. rewrite built_root. cbn.
      rewrite (proj2 (Hgen (Generic X)) eq_refl). cbn. rewrite built_nodes. reflexivity.
    Qed.
  End Built.
End GraphWF.

(* ================= packaged statement ================= *)
Section Packaged.
  Context {T D St L F : Type} (X : ctx T D St L F).
  Notation eqb := (T_eqb X).

  Record wf_result (rk : T -> nat) (nodes : list T) (w0 : list (warning T)) (ts : VisionsTypeset T D St) (w1 : list (warning T)) : Prop := {
    wf_root : _root_node ts = Some (Generic X);
    wf_nodes : g_nodes (relation_graph ts) = nodes;
    wf_graph : wfg (relation_graph ts) /\ adj_keys_nodup eqb (relation_graph ts) /\ adj_keys_nodup eqb (base_graph ts);
    wf_types : Permutation (types ts) nodes;
    (* edges = the relations declared on included types whose source is included, dashed iff inferential *)
    wf_edges : forall u v a, edge_at eqb (relation_graph ts) u v = Some a <->
                 (In u nodes /\ In v nodes /\ exists r, In r (relations X v) /\ related_type r = u /\ a = mkEA r (style_of r));
    (* identity graph = the identity relations, solid *)
    wf_base_edges : forall u v a, edge_at eqb (base_graph ts) u v = Some a <->
                 (In u nodes /\ In v nodes /\ exists r, In r (relations X v) /\ related_type r = u /\ inferential r = false /\ a = mkEA r Solid);
    (* ... which is a tree rooted at Generic spanning the given types *)
    wf_base_root : forall u, edge_at eqb (base_graph ts) u (Generic X) = None;
    wf_base_parent : forall v, In v nodes -> v <> Generic X ->
                 exists u a, edge_at eqb (base_graph ts) u v = Some a /\
                             forall u' a', edge_at eqb (base_graph ts) u' v = Some a' -> u' = u /\ a' = a;
    wf_base_spans : forall v, In v nodes -> reach_in eqb (base_graph ts) (Generic X) v;
    wf_base_nodes : (exists t, In t nodes /\ t <> Generic X) -> forall v, In v (g_nodes (base_graph ts)) <-> In v nodes;
    wf_base_nodes_gen : forall v, In v (g_nodes (base_graph ts)) <->
                 (exists u a, edge_at eqb (base_graph ts) u v = Some a) \/ (exists u a, edge_at eqb (base_graph ts) v u = Some a);
    wf_nodups : NoDup nodes /\ NoDup (g_nodes (base_graph ts));
    (* the full graph is acyclic: a rank strictly increases along every edge, and the cycle check finds nothing *)
    wf_rank : forall u v a, edge_at eqb (relation_graph ts) u v = Some a -> rk u < rk v;
    wf_no_cycle : g_has_cycle eqb (relation_graph ts) = false;
    (* the only warnings: one per declared relation whose source type is absent *)
    wf_warnings : w1 = w0 ++ map (fun r => Warn 3 [related_type r; type_ r; related_type r])
                                 (filter (fun r => negb (memb eqb (related_type r) nodes)) (flat_map (relations X) nodes))
  }.

  Theorem typeset_well_formed (rk : T -> nat) :
    (forall a b, eqb a b = true <-> a = b) ->
    (forall t r, In r (relations X t) -> type_ r = t) ->
    (forall l, NoDup l -> Permutation (set_iter X l) l) ->
    (forall t, is_generic X t = true <-> t = Generic X) ->
    relations X (Generic X) = [] ->
    (forall t r r', In r (relations X t) -> In r' (relations X t) -> related_type r = related_type r' -> r = r') ->
    (forall t r r', In r (relations X t) -> In r' (relations X t) -> inferential r = false -> inferential r' = false -> r = r') ->
    (forall t r, In r (relations X t) -> rk (related_type r) < rk t) ->
    forall types w0,
      In (Generic X) types ->
      (forall t, In t types -> t <> Generic X -> exists r, In r (relations X t) /\ inferential r = false /\ In (related_type r) types) ->
      exists ts w1, VT_init X (VT_blank X) types w0 = Ok (tt, ts, w1) /\ wf_result rk (mkset X types) w0 ts w1.
  Proof.
    intros Heq Hty Hperm Hgen HG Huniq Hone Hrk types w0 HinG Hpar.
    set (nodes := mkset X types).
    assert (Hnd : NoDup nodes) by (apply mkset_nodup; assumption).
    assert (HinG' : In (Generic X) nodes) by (apply (proj2 (mkset_in X Heq Hperm _ _)); exact HinG).
    assert (Hpar' : forall t, In t nodes -> t <> Generic X -> exists r, In r (relations X t) /\ inferential r = false /\ In (related_type r) nodes).
    { intros t Ht Hne. apply (proj1 (mkset_in X Heq Hperm _ _)) in Ht. destruct (Hpar t Ht Hne) as [r [H1 [H2 H3]]].
      exists r. split; [exact H1|]. split; [exact H2|]. apply (proj2 (mkset_in X Heq Hperm _ _)). exact H3. }
    destruct (bg_loops X nodes w0) as [[w1 g1] ne] eqn:Hb.
    exists (mkVT (Some (Generic X)) g1 (base X g1 ne) (mkset X nodes)), w1. split.
    - eapply (VT_init_final X Heq Hty nodes); try eassumption; reflexivity.
    - split; cbn [_root_node relation_graph base_graph Engine_gen.types].
      + reflexivity.
      + eapply (built_nodes X Heq Hty nodes); eassumption.
      + split; [eapply (built_wf X Heq Hty nodes); eassumption|]. split; [eapply (built_keys X Heq Hty nodes); eassumption|].
        unfold base. apply (subgraph_keys_nodup eqb Heq). eapply (built_keys X Heq Hty nodes); eassumption.
      + unfold mkset. rewrite (dedup_nodup_id X Heq nodes Hnd). apply Hperm. exact Hnd.
      + eapply (built_edges X Heq Hty nodes); eassumption.
      + eapply (base_edges X Heq Hty nodes); eassumption.
      + eapply (base_root_has_no_parent X Heq Hty nodes); eassumption.
      + eapply (base_unique_parent X Heq Hty nodes); eassumption.
      + eapply (base_spans X Heq Hty nodes); eassumption.
      + intros Hex v. eapply (base_nodes X Heq Hty nodes); eassumption.
      + intro v. eapply (base_nodes_gen X Heq Hty nodes); eassumption.
      + split; [exact Hnd | eapply (base_nodes_nodup X Heq Hty nodes); eassumption].
      + eapply (built_rank_increases X Heq Hty nodes); eassumption.
      + eapply (built_no_cycle X Heq Hty nodes); eassumption.
      + eapply (built_warnings X Heq Hty nodes); eassumption.
  Qed.
End Packaged.
