"""Classifiers of recorded findings (KNOWN_FINDINGS.json -> "classifier").  Each takes the failure
dict an oracle produced and says whether it is an instance of that recorded finding.  They are
deliberately narrow: a different violation of the same property is still reported."""


def F17b(f):
    """Spark column names containing '.' make df.select(col) raise AnalysisException"""
    return f.get("class", "").startswith("raises:AnalysisException") and any("." in c[0] for c in f.get("columns", []))


# ---- C02 overlaps at String (inherent ambiguity of string encodings), each with the input class it is recorded for
def _strings(f):
    from . import streams
    import warnings
    with warnings.catch_warnings():
        warnings.simplefilter("ignore")
        s = streams.materialise({"recipe": f["recipe"]})
    import pandas as pd
    vals = [v for v in list(s) if isinstance(v, str)]
    others = [v for v in list(s) if not isinstance(v, str) and not (pd.api.types.is_scalar(v) and pd.isna(v))]
    return vals, others


def _floatlike(v):
    try:
        float(v)
        return True
    except ValueError:
        return False


def _overlap(f, node, accepting, pred):
    if f.get("backend", "pandas") != "pandas":
        return False          # the recorded overlaps are those of the pandas guards; the same pair in another backend is a different call site
    if f.get("node") != node or sorted(f.get("accepting", [])) != sorted(accepting):
        return False
    vals, others = _strings(f)
    return bool(vals) and not others and all(pred(v) for v in vals)


def F02a(f):
    """String column whose every value is a float literal that passes visions' leading-zero rule (no
    leading '0' on a value above 1) AND that pd.to_datetime accepts ('2020', '.5', '01')"""
    def ok(v):
        return _floatlike(v) and not (v[:1] == "0" and float(v) > 1)
    return _overlap(f, "String", ["DateTime", "Float"], ok)


def F02b(f):
    """32 decimal digits: float-coercible and a UUID hex string"""
    return _overlap(f, "String", ["Float", "UUID"], lambda v: len(v.strip()) == 32 and v.strip().isdigit())


def F02c(f):
    """'c://x/y': a Windows-absolute path and a URL with scheme and netloc"""
    import re
    return _overlap(f, "String", ["Path", "URL"], lambda v: re.match(r"^[A-Za-z]:[/\\]{2}[^/\\]", v) is not None)


def F02d(f):
    """'http://a@b/c': URL with userinfo; _to_email accepts any string with an @"""
    return _overlap(f, "String", ["EmailAddress", "URL"], lambda v: "://" in v and "@" in v)


def F02e(f):
    """'/a@b': absolute path containing @"""
    return _overlap(f, "String", ["EmailAddress", "Path"], lambda v: "@" in v and (v.startswith("/") or v[1:3] in (":\\", ":/")))


def _only_known_overlaps(f):
    """the input of f has overlaps, all of which are recorded C02 classes"""
    from . import c02, streams
    import warnings
    with warnings.catch_warnings():
        warnings.simplefilter("ignore")
        s = streams.materialise({"recipe": f["recipe"]})
        fs = c02.check_one(streams.shipped_typesets()["CompleteSet"], "CompleteSet", s, "pandas")
    fs = [dict(x, recipe=f["recipe"]) for x in fs]
    return bool(fs) and all(any(p(x) for p in (F02a, F02b, F02c, F02d, F02e)) for x in fs)


def F02order(f):
    """order dependence that is the consequence of a recorded overlap"""
    return f.get("class") == "order-dependent" and _only_known_overlaps(f)


def F15overlap(f):
    """C15 is not claimed for inputs in a recorded C02 overlap class"""
    return f.get("class") in ("detect-projection", "infer-prefix", "infer-stops-early") and _only_known_overlaps(f)


# ---- C16
_OBJ_CHILDREN = ("Date", "Time", "URL", "UUID", "EmailAddress", "Geometry", "IPAddress", "Path")


def _series(f):
    from . import streams
    import warnings
    with warnings.catch_warnings():
        warnings.simplefilter("ignore")
        return streams.materialise({"recipe": f["recipe"]})


def _object_like(s):
    from pandas.api import types as pdt
    return bool(pdt.is_object_dtype(s) or (pdt.is_string_dtype(s) and not isinstance(s.dtype, __import__("pandas").CategoricalDtype)))


def F16b(f):
    """a child of Object that does not test the dtype (Date, Time, URL, ...) contains a series whose dtype
    Object does not accept (categorical of dates etc.)"""
    if f.get("backend", "pandas") != "pandas":
        return False
    cl = f.get("class", "")
    if cl.startswith("closure:") and f.get("parent") == "Object" and f.get("child") in _OBJ_CHILDREN:
        return not _object_like(_series(f))
    return False


def F16c(f):
    """an existing relative pathlib.Path is a File (and an Image) but not a Path"""
    import pathlib
    if f.get("class") != "closure:File->Path":
        return False
    vals = [v for v in _series(f) if isinstance(v, pathlib.Path)]
    return any(v.exists() and not v.is_absolute() for v in vals)


# ---- C11
def F11a(f):
    """Date / Time / URL / UUID / EmailAddress test the class of the FIRST row only (head(1)): membership,
    and with it detect/infer, depends on which row comes first in a column of mixed classes"""
    if f.get("backend", "pandas") != "pandas":
        return False
    head_types = {"Date", "Time", "URL", "UUID", "EmailAddress"}
    if f.get("kind") == "membership" and set(f.get("types", [])) <= head_types and f.get("types"):
        s = _series(f)
        kinds = {type(v).__name__ for v in s.dropna()}
        return len(kinds) > 1 and "permuted" in f.get("variant", "") or "reversed" in f.get("variant", "")
    return False


def F11b(f):
    """String looks at the class of the first five rows only; a bytes value after five strings is accepted
    (pandas 3 astype(str) decodes bytes), in front it is not"""
    if f.get("backend", "pandas") != "pandas" or f.get("kind") != "membership" or f.get("types") != ["String"]:
        return False
    s = _series(f)
    return any(isinstance(v, bytes) for v in s) and sum(isinstance(v, str) for v in s) >= 5


def F11np(f):
    """numpy backend: Object's not_excluded_type looks at array[0] only ([True, 1] vs [1, True])"""
    if f.get("backend") != "numpy" or (f.get("kind") == "membership" and set(f.get("types", [])) - {"Object"}):
        return False          # an order-dependent answer of `array in T` for any T but Object is NOT this finding (guards: see F09np / F03np)
    s = _series(f)
    vals = [v for v in s if v is not None]
    return len({type(v) for v in vals}) > 1


def F11list(f):
    """python-list backend: guards evaluate element tests with any()/all() and raise (DispatchError) or not
    depending on which element comes first in a column of mixed classes"""
    if f.get("backend") != "list" or f.get("kind") == "membership":
        return False          # membership on Python lists is proved order independent (props/C11.v); only the guards are covered by this finding
    s = _series(f)
    return len({type(v) for v in s}) > 1


def F09c(f):
    """coercion_true_test calls series.all(), which pandas refuses for the 'string' dtypes"""
    import pandas as pd
    if f.get("backend", "pandas") != "pandas" or "DispatchError" not in f.get("class", "") or "is_relation" not in f.get("class", ""):
        return False
    s = _series(f)
    return isinstance(s.dtype, pd.StringDtype) and s.dtype.na_value is pd.NA


def F07b(f):
    """string-encoded Path/UUID/IP/Email/Geometry with missing values mixed in stays String"""
    if not f.get("class", "").startswith("family:"):
        return False
    if f.get("family") not in ("Path", "UUID", "IPAddress", "EmailAddress", "Geometry") or not str(f.get("pool", "")).endswith("str"):
        return False
    s = _series(f)
    return bool(s.hasnans) and f.get("class", "").endswith("->String")


def F07a(f):
    """object-dtype columns of Python ints / floats / complex / timestamps / timedeltas are typed Object
    (and [1, 0] as Boolean since 1 == True): there is no Object -> numeric/datetime relation"""
    return (f.get("class", "").startswith("family:") and f.get("enc_dtype") == "object"
            and f.get("family") in ("Integer", "Float", "Complex", "DateTime", "TimeDelta")
            and (f.get("class", "").endswith("->Object") or f.get("class", "").endswith("->Boolean")))


def F07c(f):
    """a string column of the Float / Integer family whose every value is in the recorded Float/DateTime overlap (F02a:
    float literals pd.to_datetime also parses, '.5', '2020') is typed DateTime (or Date) when the DateTime relation
    happens to be enumerated before Float at String"""
    return (f.get("class", "").startswith("family:") and f.get("family") in ("Float", "Integer")
            and (f.get("class", "").endswith("->DateTime") or f.get("class", "").endswith("->Date")) and _only_known_overlaps(f))


def F09h(f):
    """a float-literal column that pd.to_datetime also accepts (recorded overlap F02a) can be routed through
    String -> DateTime -> Date, where series.dt.date raises ValueError ('year 0 is out of range') for '.5'-like values"""
    return "datetime_to_date" in f.get("class", "") and "ValueError" in f.get("class", "") and _only_known_overlaps(f)
