(* Executable instance of the GENERATED pandas membership predicates for the correspondence
   harness: an abstract series is decoded from integers. *)
From Coq Require Import List Bool ZArith.
Import ListNotations.
From V Require Import PyBase Values Shipped_gen PandasContains_gen.
Open Scope Z_scope.

Definition kind_of_Z (z : Z) : kind :=
  nth (Z.to_nat z)
      [KNone; KNaN; KNA; KNaT; KBool; KInt; KFloat; KComplex; KStr; KBytes; KTimestamp; KPyDatetime; KDate; KTime;
       KTimedelta; KPyTimedelta; KPurePath; KPath; KUrl; KIP; KUUID; KEmail; KGeom; KOther] KOther.

Definition b (z : Z) : bool := negb (Z.eqb z 0).

Fixpoint values_of (l : list Z) (fuel : nat) : list value :=
  match fuel, l with
  | S f, k :: a :: e :: i :: rest => mkV (kind_of_Z k) (b a) (b e) (b i) :: values_of rest f
  | _, _ => []
  end.

(* 14 dtype facts (cat_ordered: 0 false, 1 true, 2 no accessor), then the values, 4 ints each *)
Definition series_of (l : list Z) : series :=
  match l with
  | f1 :: f2 :: f3 :: f4 :: f5 :: f6 :: f7 :: f8 :: f9 :: f10 :: f11 :: f12 :: f13 :: f14 :: vals =>
      mkS (mkDF (b f1) (b f2) (b f3) (b f4) (b f5) (b f6) (b f7) (b f8) (b f9) (b f10) (b f11) (b f12) (b f13)
                (if Z.eqb f14 2 then None else Some (b f14)))
          (values_of vals (length vals))
  | _ => mkS (mkDF false false false false false false false false false false false false false None) []
  end.

(* membership in every shipped type, in the order of all_types: 0 False, 1 True, 2.. exception *)
Definition contains_vector (l : list Z) : list Z :=
  let s := series_of l in
  map (fun t => match pandas_contains t s with
                | Ok true => 1 | Ok false => 0
                | Raise AttributeError => 3 | Raise TypeError => 4 | Raise ValueError => 5 | Raise _ => 9
                end) all_types.
