"""setup_cmd: regenerate every gen/*.v from /repo, build everything, build the extracted drivers."""
import glob
import os
import sys

from . import common as C
from . import gens  # noqa


def main():
    with C.Lock():
        g = C.regen(sorted(C.GEN_MODULES))
        for m, r in g.items():
            print(f"gen {m}: {'ok' if r['ok'] else 'FAILED ' + str(r['error'])}")
        if "--update-golden" in sys.argv:
            for f in glob.glob(os.path.join(C.COQ, "gen", "*.v")):
                C.write_if_changed(os.path.join(C.COQ, "golden", os.path.basename(f)), open(f).read())
            print("golden updated")
        C.coq_project()
        rc, out, dt = C.sh(["make", "-j16", "-k"], cwd=C.COQ, timeout=3000)
        print(out[-3000:] if rc else f"coq build ok in {dt:.0f}s")
        ok_all = rc == 0
        for ex in sorted(glob.glob(os.path.join(C.COQ, "extract", "Extract_*.v"))):
            name = os.path.basename(ex)[len("Extract_"):-2]
            ok, o = C.build_driver(name)
            print(f"driver {name}: {'ok' if ok else 'FAILED ' + o[-500:]}")
            ok_all = ok_all and ok
    sys.exit(0 if ok_all else 1)


if __name__ == "__main__":
    main()
