(* The stable insertion sort used by the generated export code (sorted(..., key=str)): on inputs
   whose keys are pairwise distinct its result depends only on the SET of elements - any two
   permutations sort to the same list.  This is what makes the exported DOT text independent of the
   order in which a typeset's types were supplied (C19). *)
From Coq Require Import List Bool ZArith Lia Permutation Sorted.
Import ListNotations.
From V Require Import PyBase NxModel Engine_gen.

Section Sort.
  Context {A : Type} (key : A -> Z * Z).

  Definition klt (p q : Z * Z) : Prop := (fst p < fst q)%Z \/ (fst p = fst q /\ (snd p < snd q)%Z).
  Definition kltb (p q : Z * Z) : bool := orb (Z.ltb (fst p) (fst q)) (andb (Z.eqb (fst p) (fst q)) (Z.ltb (snd p) (snd q))).

  Lemma kltb_spec p q : kltb p q = true <-> klt p q.
  Proof.
    unfold kltb, klt. rewrite orb_true_iff, andb_true_iff, Z.ltb_lt, Z.eqb_eq, Z.ltb_lt. tauto.
  Qed.

  Lemma klt_trans p q r : klt p q -> klt q r -> klt p r.
  Proof. unfold klt. lia. Qed.
  Lemma klt_irrefl p : ~ klt p p.
  Proof. unfold klt. lia. Qed.
  Lemma klt_total p q : p <> q -> klt p q \/ klt q p.
  Proof. destruct p as [a b], q as [c d]. unfold klt. simpl. intro H. assert (a <> c \/ b <> d) by (destruct (Z.eq_dec a c); [right; congruence | left; assumption]). lia. Qed.

  Definition lt_elem (x y : A) : Prop := klt (key x) (key y).
  Definition ssorted (l : list A) : Prop := StronglySorted lt_elem l.

  Lemma ins_by_unfold x y l :
    ins_by key x (y :: l) = if kltb (key x) (key y) then x :: y :: l else y :: ins_by key x l.
  Proof. simpl. unfold kltb. destruct (key x) as [a b], (key y) as [c d]. reflexivity. Qed.

  Lemma ins_perm x l : Permutation (ins_by key x l) (x :: l).
  Proof.
    induction l as [|y l IH]; [apply Permutation_refl|]. rewrite ins_by_unfold.
    destruct (kltb (key x) (key y)); [apply Permutation_refl|].
    eapply Permutation_trans; [apply perm_skip; exact IH | apply perm_swap].
  Qed.

  Lemma ins_sorted x l : ssorted l -> ~ In (key x) (map key l) -> ssorted (ins_by key x l).
  Proof.
    induction l as [|y l IH]; intros Hs Hn; [repeat constructor|]. rewrite ins_by_unfold.
    inversion Hs as [|? ? Hs' Hall]; subst.
    destruct (kltb (key x) (key y)) eqn:E.
    - apply kltb_spec in E. constructor; [exact Hs|]. constructor; [exact E|].
      rewrite Forall_forall in *. intros z Hz. eapply klt_trans; [exact E | apply Hall; exact Hz].
    - assert (Hyx : klt (key y) (key x)).
      { destruct (klt_total (key x) (key y)) as [H|H]; [intro Heq; apply Hn; left; symmetry; exact Heq | | exact H].
        apply kltb_spec in H. congruence. }
      constructor.
      + apply IH; [exact Hs' | intro H; apply Hn; right; exact H].
      + rewrite Forall_forall in *. intros z Hz.
        apply (Permutation_in _ (ins_perm x l)) in Hz. destruct Hz as [<-|Hz]; [exact Hyx | apply Hall; exact Hz].
  Qed.

  Lemma fold_ins_spec l : forall acc,
    ssorted acc -> NoDup (map key (acc ++ l)) ->
    ssorted (fold_left (fun a x => ins_by key x a) l acc) /\ Permutation (fold_left (fun a x => ins_by key x a) l acc) (acc ++ l).
  Proof.
    induction l as [|x l IH]; intros acc Hs Hnd; simpl.
    - rewrite app_nil_r. split; [exact Hs | apply Permutation_refl].
    - assert (Hx : ~ In (key x) (map key acc)).
      { rewrite map_app in Hnd. simpl in Hnd. apply NoDup_remove_2 in Hnd. intro H. apply Hnd. apply in_or_app. left. exact H. }
      destruct (IH (ins_by key x acc)) as [H1 H2].
      + apply ins_sorted; assumption.
      + eapply Permutation_NoDup; [apply Permutation_map | exact Hnd].
        eapply Permutation_trans; [apply Permutation_sym; apply Permutation_middle|].
        apply (Permutation_app_tail l (Permutation_sym (ins_perm x acc))).
      + split; [exact H1|]. eapply Permutation_trans; [exact H2|].
        eapply Permutation_trans; [apply (Permutation_app_tail l (ins_perm x acc))|]. simpl. apply Permutation_middle.
  Qed.

  Lemma sort_by_spec l : NoDup (map key l) -> ssorted (sort_by key l) /\ Permutation (sort_by key l) l.
  Proof. intro H. unfold sort_by. apply (fold_ins_spec l []); [constructor | exact H]. Qed.

  (* two strictly sorted lists with the same elements are equal *)
  Lemma ssorted_perm_eq l : forall l', ssorted l -> ssorted l' -> Permutation l l' -> l = l'.
  Proof.
    induction l as [|x l IH]; intros l' Hs Hs' P.
    - apply Permutation_nil in P. subst. reflexivity.
    - destruct l' as [|y l']; [apply Permutation_sym, Permutation_nil in P; discriminate|].
      inversion Hs as [|? ? Hs1 Hall]; inversion Hs' as [|? ? Hs1' Hall']; subst.
      assert (x = y).
      { assert (Hx : In x (y :: l')) by (eapply Permutation_in; [exact P | left; reflexivity]).
        assert (Hy : In y (x :: l)) by (eapply Permutation_in; [apply Permutation_sym; exact P | left; reflexivity]).
        destruct Hx as [->|Hx]; [reflexivity|]. destruct Hy as [->|Hy]; [reflexivity|].
        rewrite Forall_forall in *. exfalso. apply (klt_irrefl (key x)).
        eapply klt_trans; [apply Hall; exact Hy | apply Hall'; exact Hx]. }
      subst y. f_equal. apply IH; [assumption | assumption | eapply Permutation_cons_inv; exact P].
  Qed.

  Theorem sort_by_perm_invariant l l' :
    NoDup (map key l) -> Permutation l l' -> sort_by key l = sort_by key l'.
  Proof.
    intros Hnd P.
    assert (Hnd' : NoDup (map key l')) by (eapply Permutation_NoDup; [apply Permutation_map; exact P | exact Hnd]).
    destruct (sort_by_spec l Hnd) as [S1 P1]. destruct (sort_by_spec l' Hnd') as [S2 P2].
    apply ssorted_perm_eq; [exact S1 | exact S2|].
    eapply Permutation_trans; [exact P1|]. eapply Permutation_trans; [exact P | apply Permutation_sym; exact P2].
  Qed.
End Sort.
