(* C15 - Refinement: a smaller typeset yields the projection of the larger one's answer.
   Stated for the reference walk (which the generated detect/infer are proved to compute,
   props/C12.v): [succB] enumerates the outgoing relations in typeset B's graph, [succA] those of
   the sub-typeset A, whose graph is the subgraph induced by A's types (that build_graph builds the
   induced subgraph is C14).  [xwalks] is a walk along which, at every visited node, exactly the
   followed relation accepts and the others reject without touching the state - the first
   sentence of C02, which is what makes the answer well defined. *)
From Coq Require Import List Bool ZArith.
Import ListNotations.
From V Require Import PyBase WalkSpec RefineTheory.

(* For every data, state, type system and pair A <= B: A's walk follows B's path exactly as long as
   it stays inside A, and stops where B's path leaves A (or where B stops): the path of A is a
   prefix of the path of B, all of it inside A, and either equal to it (same data) or followed in
   B's path by a type that A does not have.  For detect (identity relations only, A parent-closed)
   this says detect_A is the deepest type of B's detection path that belongs to A; for infer it
   says infer_B is reached from infer_A by continuing along B's relations. *)
Theorem C15_refinement :
  forall (T D St : Type) (succA succB : T -> res (list (edge T D St))) (inA : T -> bool),
    (forall t es, succB t = Ok es -> inA t = true ->
                  succA t = Ok (filter (fun e => inA (e_dst e)) es)) ->
  forall t d st path dB pB stB,
    xwalks succB t d st path (dB, pB, stB) -> inA t = true ->
    exists dA pA stA,
      xwalks succA t d st path (dA, pA, stA) /\
      is_prefix pA pB /\
      (pA = pB /\ dA = dB \/ exists next, is_prefix (pA ++ [next]) pB /\ inA next = false).
Proof. exact @refinement. Qed.
Print Assumptions C15_refinement.

(* an exclusive walk is a reference walk *)
Theorem C15_xwalks_are_walks :
  forall (T D St : Type) (succ : T -> res (list (edge T D St))) t d st path out,
    xwalks succ t d st path out -> walks succ t d st path out.
Proof. exact @xwalks_walks. Qed.

(* Non-vacuity: B = 0 -> {1 -> 3, 2}, A = {0, 1}; data 7 walks 0,1,3 in B and 0,1 in A *)
Definition exB (t : nat) : res (list (edge nat nat unit)) :=
  let mk v (p : nat -> bool) := mkEdge v (fun d st => Ok (p d, st)) (fun d st => Ok (d, st)) in
  Ok (match t with
      | 0 => [mk 1 (fun d => Nat.ltb 5 d); mk 2 (fun d => Nat.ltb d 3)]
      | 1 => [mk 3 (fun d => Nat.eqb d 7)]
      | _ => [] end).
Example C15_example :
  exists out, xwalks exB 0 7 tt [] out /\ snd (fst out) = [0; 1; 3].
Proof.
  eexists. split.
  - eapply xw_step with (pre := []) (post := [_]); [reflexivity | reflexivity | | reflexivity | reflexivity |].
    + repeat constructor.
    + eapply xw_step with (pre := []) (post := []); [reflexivity | reflexivity | constructor | reflexivity | reflexivity |].
      eapply xw_stop; [reflexivity | constructor].
  - reflexivity.
Qed.

(* ---- Part 2: the hypothesis above ("A's graph is the subgraph induced by A's types") is no longer a
   hypothesis: for ANY relation table with the table facts and ANY two closed lists of types A <= B
   (in any supply orders, any set iteration orders), the GENERATED constructor builds both typesets and
   the ACTUAL graphs refine - the full relation graphs (infer) and, when A has at least two types, the
   identity graphs (detect).  [succ_of X g] is the successor enumeration the generated traversal uses
   (bridge/Engine_bridge.v: traverse_graph_with_series = walk (succ_of X g)). *)
From Coq Require Import Permutation.
From V Require Import NxModel NxFacts Engine_gen Engine_bridge GraphWF AlgebraTheory GraphRefine Shipped_gen ShippedFacts ShippedGraph.

Theorem C15_constructed_typesets_refine :
  forall (T D St L F : Type) (X : ctx T D St L F) (rk : T -> nat), table_ok X rk ->
  forall typesA typesB w,
    closed X typesA -> closed X typesB -> (forall t, In t typesA -> In t typesB) ->
    exists tsA tsB wA wB,
      VT_init X (VT_blank X) typesA w = Ok (tt, tsA, wA) /\
      VT_init X (VT_blank X) typesB w = Ok (tt, tsB, wB) /\
      refines X (relation_graph tsA) (relation_graph tsB) typesA /\
      ((exists x, In x typesA /\ x <> Generic X) -> refines X (base_graph tsA) (base_graph tsB) typesA).
Proof. intros T D St L F X rk H. exact (constructed_typesets_refine X rk H). Qed.
Print Assumptions C15_constructed_typesets_refine.

(* [refines] is exactly the conclusion of C15_refinement, for the actual graphs *)
Theorem C15_refines_unfolded :
  forall (T D St L F : Type) (X : ctx T D St L F) (gA gB : graph T D St) (typesA : list T),
    refines X gA gB typesA <->
    (forall t d st path dB pB stB,
      xwalks (succ_of X gB) t d st path (dB, pB, stB) -> In t typesA ->
      exists dA pA stA,
        xwalks (succ_of X gA) t d st path (dA, pA, stA) /\
        is_prefix pA pB /\
        (pA = pB /\ dA = dB \/ exists next, is_prefix (pA ++ [next]) pB /\ ~ In next typesA)).
Proof. intros. reflexivity. Qed.

(* the shipped table (regenerated on this run) satisfies the hypotheses; StandardSet <= GeometrySet <= CompleteSet are instances *)
Theorem C15_shipped_instances :
  forall (si : list ty -> list ty) (rnd : list ty -> list (ty * ty * option style) -> Z),
    (forall l, NoDup l -> Permutation (si l) l) ->
    let X := shipped_ctx_with si rnd in
    table_ok X rk /\ closed X standard_set /\ closed X geometry_set /\ closed X complete_set /\
    (forall t, In t standard_set -> In t geometry_set) /\ (forall t, In t geometry_set -> In t complete_set).
Proof.
  intros si rnd Hsi X. split; [exact (shipped_table_ok si rnd Hsi)|].
  split; [apply shipped_closed; vm_compute; tauto|]. split; [apply shipped_closed; vm_compute; tauto|].
  split; [apply shipped_closed; vm_compute; tauto|].
  split; intros t Ht; vm_compute in Ht |- *; tauto.
Qed.
Print Assumptions C15_shipped_instances.
