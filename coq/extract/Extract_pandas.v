From Coq Require Extraction ExtrOcamlBasic.
From V Require Import RunnerPandas.
Extraction Language OCaml.
Extraction "model.ml" contains_vector.
