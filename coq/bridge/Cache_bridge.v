(* Bridge: the GENERATED LRUCacher (gen/Cache_gen.v, translated from utils/cache.py on this run)
   computes exactly the reference step spec_get.  Re-proved on every run against the
   regenerated text. *)
From Coq Require Import List Bool ZArith Lia.
Import ListNotations.
From V Require Import PyBase OdFacts LruSpec Cache_gen.
Open Scope py_scope.

Section CacheBridge.
  Context {A K V : Type} (K_eqb : K -> K -> bool).
  Hypothesis K_eqb_spec : forall x y, K_eqb x y = true <-> x = y.
  Variable h : A -> K.

  Definition lift_state (s : @LRUCacher A K V) (r : res (V * @od K V)) : res (V * @LRUCacher A K V) :=
    '(v, st) <- r ;; ret (v, set_cache s st).

  Lemma set_cache_cache (s : @LRUCacher A K V) st : cache (set_cache s st) = st.
  Proof. reflexivity. Qed.
  Lemma set_cache_twice (s : @LRUCacher A K V) st st' : set_cache (set_cache s st) st' = set_cache s st'.
  Proof. reflexivity. Qed.
  Lemma set_cache_max (s : @LRUCacher A K V) st : max_length (set_cache s st) = max_length s.
  Proof. reflexivity. Qed.

  Ltac norm := cbn [bind ret fst snd cache set_cache max_length hash_func value_func tl].

  Theorem get_eq_spec (s : @LRUCacher A K V) (a : A) :
    (forall x, hash_func s x = Ok (h x)) ->
    (1 <= max_length s)%Z ->
    LRUCacher_get K_eqb s a
    = lift_state s (spec_get K_eqb h (value_func s) (max_length s) (cache s) a).
  Proof.
    intros Hh Hcap.
    unfold LRUCacher_get, LRUCacher_get_key, LRUCacher_dgetitem, LRUCacher_dsetitem,
      lift_state, spec_get.
    rewrite Hh. cbn [bind ret].
    unfold od_contains.
    destruct (od_find K_eqb (cache s) (h a)) as [v|] eqn:E; cbn [negb].
    - (* hit *)
      unfold od_getitem, od_move_to_end. rewrite E. cbn [bind ret fst snd]. reflexivity.
    - (* miss *)
      destruct (value_func s a) as [v|e]; cbn [bind ret]; [|reflexivity].
      norm. rewrite (od_setitem_fresh K_eqb _ _ _ E).
      destruct (Z.gtb (py_len (cache s ++ [(h a, v)])) (max_length s)) eqn:G.
      + (* over capacity: the oldest entry goes *)
        destruct (cache s) as [|[k0 v0] st0] eqn:C.
        { exfalso. unfold py_len in G. simpl in G.
          destruct (Z.gtb_spec 1 (max_length s)); [lia | discriminate]. }
        cbn [app od_first_key]. norm.
        rewrite (od_delitem_first K_eqb K_eqb_spec). norm.
        pose proof (od_find_tl_none K_eqb _ _ E) as E0. cbn [tl] in E0.
        unfold od_getitem, od_move_to_end.
        rewrite (od_find_app_fresh K_eqb K_eqb_spec _ _ v E0). norm.
        rewrite (od_remove_app_fresh K_eqb K_eqb_spec _ _ v E0). reflexivity.
      + norm. unfold od_getitem, od_move_to_end.
        rewrite (od_find_app_fresh K_eqb K_eqb_spec _ _ v E). norm.
        rewrite (od_remove_app_fresh K_eqb K_eqb_spec _ _ v E). reflexivity.
  Qed.

  (* the closure created by lru_cache(hash_func, max_length)(func) *)
  Theorem lru_cache_call_eq (s : @LRUCacher A K V) a :
    lru_cache_call K_eqb s a = LRUCacher_get K_eqb s a.
  Proof.
    unfold lru_cache_call. destruct (LRUCacher_get K_eqb s a) as [[v s']|e]; reflexivity.
  Qed.

  Theorem lru_cache_new_eq (hf : A -> res K) ml (f : A -> res V) :
    lru_cache_new hf ml f = Ok (mkLRUCacher hf ml f []).
  Proof. reflexivity. Qed.
End CacheBridge.
