"""Driver: effect inventory of ALL of src/visions -> coq/gen/Effects_gen.v

For every function that writes a process-global cell (sys.stderr / sys.stdout assignment,
warnings.simplefilter / filterwarnings, numpy.seterr, pandas.set_option / options assignment,
os.chdir) the translator extracts the skeleton of its global effects in the effect language of
coq/theory/EffectsTheory.v.  Everything else in the body is opaque code that may raise.  It also
lists mutable default arguments and module-level mutable state (reported in evidence)."""
import ast
import os

from .py2coq import TransError

CELLS = {"sys.stderr": "CStderr", "sys.stdout": "CStdout"}
CALL_WRITES = {"warnings.simplefilter": "CWarnFilters", "warnings.filterwarnings": "CWarnFilters", "warnings.resetwarnings": "CWarnFilters",
               "np.seterr": "CNumpyErr", "numpy.seterr": "CNumpyErr", "np.seterrcall": "CNumpyErr", "pd.set_option": "CPandasOptions",
               "pandas.set_option": "CPandasOptions", "pd.reset_option": "CPandasOptions", "os.chdir": "CCwd"}
CONSTS = {"sys.__stderr__": 1, "sys.__stdout__": 2}


class Ex:
    def __init__(self):
        self.fresh = 0
        self.locals = {}

    def local(self, name):
        if name not in self.locals:
            self.locals[name] = len(self.locals) + 1
        return self.locals[name]

    def src(self, e):
        txt = ast.unparse(e)
        if txt in CONSTS:
            return f"SConst {CONSTS[txt]}"
        if isinstance(e, ast.Name) and e.id in self.locals:
            return f"SLocal {self.locals[e.id]}"
        self.fresh += 1
        return f"SFresh {self.fresh}"

    def touches(self, node):
        for n in ast.walk(node):
            if isinstance(n, ast.Attribute) and ast.unparse(n) in CELLS and isinstance(n.ctx, ast.Store):
                return True
            if isinstance(n, ast.Call) and ast.unparse(n.func) in CALL_WRITES:
                return True
            if isinstance(n, ast.Assign) and any(ast.unparse(t).startswith(("pd.options.", "pandas.options.")) for t in n.targets):
                return True
        return False

    def block(self, stmts):
        out = []
        for s in stmts:
            out += self.stmt(s)
        # merge consecutive opaque statements
        merged = []
        for e in out:
            if e == "EOpaque" and merged and merged[-1] == "EOpaque":
                continue
            merged.append(e)
        return merged

    def stmt(self, s):
        if isinstance(s, ast.Assign) and len(s.targets) == 1:
            t = ast.unparse(s.targets[0])
            if t in CELLS:
                return [f"EWrite {CELLS[t]} ({self.src(s.value)})"]
            if t.startswith(("pd.options.", "pandas.options.")):
                self.fresh += 1
                return [f"EWrite CPandasOptions (SFresh {self.fresh})"]
            if isinstance(s.targets[0], ast.Name) and ast.unparse(s.value) in CELLS:
                return [f"ESave {self.local(s.targets[0].id)} {CELLS[ast.unparse(s.value)]}"]
        if isinstance(s, ast.Expr) and isinstance(s.value, ast.Call) and ast.unparse(s.value.func) in CALL_WRITES:
            self.fresh += 1
            return [f"EWrite {CALL_WRITES[ast.unparse(s.value.func)]} (SFresh {self.fresh})"]
        if isinstance(s, ast.Try):
            body = self.block(s.body)
            handlers = []
            for h in s.handlers:
                handlers += self.block(h.body) or ["EOpaque"]
            fin = self.block(s.finalbody)
            return [f"ETry [{'; '.join(body)}] [{'; '.join(handlers)}] [{'; '.join(fin)}]"]
        if isinstance(s, ast.With):
            ctxs = [ast.unparse(i.context_expr) for i in s.items]
            inner = self.block(s.body)
            if any(c.startswith("warnings.catch_warnings") for c in ctxs):
                return [f"ECatchWarnings [{'; '.join(inner)}]"]
            return ["EOpaque"] + inner
        if isinstance(s, (ast.If, ast.For, ast.While)):
            if self.touches(s):
                # a conditional / repeated global write is over-approximated by both branches in sequence
                out = ["EOpaque"]
                for part in (s.body, getattr(s, "orelse", [])):
                    out += self.block(part)
                return out
            return ["EOpaque"]
        if isinstance(s, (ast.FunctionDef, ast.ClassDef, ast.Import, ast.ImportFrom, ast.Pass)):
            return []
        if isinstance(s, ast.Return) and not self.touches(s):
            return ["EOpaque"] if s.value is not None and not isinstance(s.value, (ast.Name, ast.Constant)) else []
        if self.touches(s):
            raise TransError(f"global write in an unsupported statement form: {ast.unparse(s)[:80]}")
        return ["EOpaque"]


def functions(tree):
    for n in ast.walk(tree):
        if isinstance(n, (ast.FunctionDef, ast.AsyncFunctionDef)):
            yield n


def own_body(fdef):
    """statements of the function itself (nested defs are separate functions)"""
    return fdef.body


def mutable_default(d):
    return isinstance(d, (ast.Dict, ast.List, ast.Set)) or (isinstance(d, ast.Call) and ast.unparse(d.func) in ("dict", "list", "set"))


def generate(repo):
    root = os.path.join(repo, "src", "visions")
    progs, defaults, module_state = [], [], []
    for dp, dn, fn in sorted(os.walk(root)):
        if "/test" in dp or "/dtypes" in dp:
            continue
        for f in sorted(fn):
            if not f.endswith(".py"):
                continue
            path = os.path.join(dp, f)
            rel = os.path.relpath(path, repo)
            tree = ast.parse(open(path).read())
            # module-level global writes
            ex = Ex()
            top = [s for s in tree.body if not isinstance(s, (ast.FunctionDef, ast.ClassDef))]
            if any(ex.touches(s) for s in top):
                progs.append((rel, "<module>", ex.block([s for s in top if ex.touches(s)])))
            for fd in functions(tree):
                for a, d in zip(reversed(fd.args.args), reversed(fd.args.defaults)):
                    if mutable_default(d):
                        defaults.append(f"{rel}:{fd.name}({a.arg}={ast.unparse(d)})")
                ex = Ex()
                direct = [s for s in fd.body]
                # only the function's own statements: nested function bodies are separate functions
                import copy
                fd2 = copy.deepcopy(fd)

                class Strip(ast.NodeTransformer):
                    def visit_FunctionDef(self, node):
                        return None
                fd2.body = [x for x in (Strip().visit(st) for st in fd2.body) if x is not None]
                if not fd2.body or not any(ex.touches(st) for st in fd2.body):
                    continue
                progs.append((rel, fd.name, ex.block(fd2.body)))
    out = ["(* GENERATED by vfw/gen_effects.py from every module of src/visions -- do not edit. *)",
           "From Coq Require Import List Bool ZArith.", "Import ListNotations.", "From V Require Import EffectsTheory.", ""]
    names = []
    for i, (rel, fn, prog) in enumerate(progs):
        nm = "prog_" + rel.replace("src/visions/", "").replace("/", "_").replace(".py", "") + "_" + fn.replace("<", "").replace(">", "")
        names.append(nm)
        out.append(f"(* {rel}:{fn} *)")
        out.append(f"Definition {nm} : list eff := [{'; '.join(prog)}].")
    out.append("")
    out.append("Definition all_progs : list (list eff) := [" + "; ".join(names) + "].")
    out.append(f"Definition n_mutable_defaults : nat := {len(defaults)}.")
    return {"Effects_gen.v": "\n".join(out) + "\n"}, {"translated": [f"{r}:{f} (global-effect skeleton)" for r, f, _ in progs],
                                                        "hand": [], "mutable_defaults": defaults, "programs": [(r, f, p) for r, f, p in progs]}
