"""C01 - detection is sound and most specific."""
import json
import random
import warnings

import numpy as np
import pandas as pd

from . import common as C
from . import oracle, streams

PROP = "C01"
PROP_FILE = "props/C01.v"
TARGETS = ["props/C01.vo"]


def check_one(ts, tsname, x, backend):
    """C01 on one sequence for one typeset; returns failures"""
    fails = []
    try:
        data, path, _ = ts.detect(x)
        t = ts.detect_type(x)
    except Exception:  # noqa   totality is C09's subject; C01 judges the answers that are given
        return []
    fails += judge(ts, tsname, x, backend, path, t, "")
    # ordinary use interleaves inference with detection on the same typeset object
    try:
        ts.infer_type(x)
        data, path, _ = ts.detect(x)
        t = ts.detect_type(x)
    except Exception:  # noqa
        return fails
    fails += judge(ts, tsname, x, backend, path, t, " (detect called after infer_type on the same typeset)")
    return fails


def judge(ts, tsname, x, backend, path, t, when):
    fails = []
    if isinstance(path, dict):
        return fails
    if t not in ts.types:
        fails.append({"what": f"detect_type returned {t} which is not in the typeset", "class": "not-in-typeset", "typeset": tsname, "backend": backend})
    if path[-1] is not t:
        fails.append({"what": f"detect_type {t} is not the last of the detect path {path}", "class": "type-vs-path", "typeset": tsname, "backend": backend})
    for p in path:
        try:
            ok = x in p
        except Exception as e:  # noqa
            fails.append({"what": f"`seq in {p}` raised {type(e).__name__}", "class": f"in-raises:{p}", "typeset": tsname, "backend": backend})
            continue
        if not ok:
            fails.append({"what": f"type {p} is on the detection path {path} but `seq in {p}` is False", "class": f"path-not-contains:{p}{when}",
                          "typeset": tsname, "backend": backend, "type": str(p)})
    for c in ts.base_graph.successors(t) if t in ts.base_graph else []:
        try:
            if x in c:
                fails.append({"what": f"detect_type is {t} but its identity child {c} contains the sequence (not most specific)",
                              "class": f"child-contains:{t}->{c}", "typeset": tsname, "backend": backend, "type": str(c)})
        except Exception:  # noqa
            pass
    return fails


def oracle_fn(ctx, item, s):
    fails = []
    for name, ts in ctx["typesets"].items():
        fails += check_one(ts, name, s, "pandas")
    # python list backend: same values as a list (all typesets)
    try:
        lst = list(s)
    except Exception:  # noqa
        lst = None
    if lst is not None and ctx.get("lists", True):
        for name, ts in list(ctx["typesets"].items())[:2]:
            fails += check_one(ts, name, lst, "list")
    if ctx.get("numpy", True):
        try:
            arr = s.to_numpy()
        except Exception:  # noqa
            arr = None
        if isinstance(arr, np.ndarray) and arr.ndim == 1:
            fails += check_one(ctx["typesets"]["StandardSet"], "StandardSet", arr, "numpy")
    if ctx.get("frames") and len(s) > 0:
        df = pd.DataFrame({"a": s.reset_index(drop=True), "b": s.reset_index(drop=True)})
        ts = ctx["typesets"]["CompleteSet"]
        try:
            tt = ts.detect_type(df)
            t1 = ts.detect_type(df["a"])
            if tt["a"] is not t1 or tt["b"] is not t1:
                fails.append({"what": f"DataFrame detect_type {tt} differs from the column's {t1}", "class": "frame-vs-column", "typeset": "CompleteSet", "backend": "pandas"})
        except Exception:  # noqa
            pass
        # columns of one dtype with different contents (an all-missing one among them), in both orders: every column is
        # judged by its own cells
        if len(s) <= 8:
            try:
                blank = pd.Series([None] * len(s), dtype=s.dtype)
            except Exception:  # noqa
                blank = None
            if blank is not None and str(blank.dtype) == str(s.dtype):
                for cols in (("a", "b"), ("b", "a")):
                    df2 = pd.DataFrame({c: (s.reset_index(drop=True) if c == "a" else blank) for c in cols})
                    try:
                        tt = ts.detect_type(df2)
                        for c in cols:
                            tc = ts.detect_type(df2[c])
                            if tt[c] is not tc:
                                fails.append({"what": f"DataFrame with columns {list(cols)} of dtype {s.dtype} (b all missing): detect_type(df)[{c!r}] = {tt[c]} but detect_type(df[{c!r}]) = {tc}",
                                              "class": "frame-vs-column:same-dtype", "typeset": "CompleteSet", "backend": "pandas"})
                                break
                    except Exception:  # noqa
                        pass
    return fails


def make_ctx(rnd, tier):
    tss = dict(streams.shipped_typesets())
    par = streams.identity_parent()
    for k in range(6 if tier == "quick" else 24):
        names = streams.random_closed_subset(rnd, par)
        if len(names) >= 2:
            tss["sub:" + ",".join(names)] = streams.typeset_from_names(names)
    return {"typesets": tss, "frames": True}


def replay(path):
    r = json.load(open(path))
    if "recipe" not in r:
        print("replay names a broken obligation, no input to re-run:", [o["name"] for o in r.get("broken_obligations", [])])
        return 1
    s = streams.materialise({"recipe": r["recipe"]})
    name = r.get("typeset", "CompleteSet")
    ts = streams.typeset_from_names(name[4:].split(",")) if name.startswith("sub:") else streams.shipped_typesets()[name]
    if r.get("class", "").startswith("frame-vs-column"):
        with warnings.catch_warnings():
            warnings.simplefilter("ignore")
            f = [x for x in oracle_fn({"typesets": dict(streams.shipped_typesets()), "frames": True, "lists": False, "numpy": False}, {"recipe": r["recipe"]}, s)
                 if x["class"].startswith("frame-vs-column")]
        print("replay:", [x["what"] for x in f] if f else "property holds on this input")
        return 1 if f else 0
    x = {"pandas": s, "list": list(s), "numpy": s.to_numpy()}[r.get("backend", "pandas")]
    f = check_one(ts, name, x, r.get("backend", "pandas"))
    print("replay:", f if f else "property holds on this input")
    return 1 if f else 0


def run(args):
    if args.replay:
        return replay(args.replay)
    run = C.Run(PROP, args.tier, args.seed)
    rnd = random.Random(args.seed)
    info = C.std_coq_phase(run, ["engine", "shipped", "pandas", "python"], TARGETS, PROP_FILE)
    broken = bool(run.failed_obligations())
    if args.tier == "quick":
        items = streams.all_streams(rnd, "quick", n_fam=None if not broken else 3000)
    else:       # sized so that the thorough tier ends within the hour (x ~30 typesets x 3 backends + frames)
        items = streams.all_streams(rnd, "quick", n_fam=6000, n_mixed=2000) + streams.bx_stream(2, rnd, limit=8000)
    ctx = make_ctx(rnd, args.tier)
    new, seen_known, kn = oracle.run_oracle(run, PROP, items, oracle_fn, ctx)
    nviol = oracle.report(run, PROP, new, seen_known, kn, replay_known=lambda e: replay_entry(e))
    if not nviol and run.failed_obligations():
        rep = {"broken_obligations": run.failed_obligations(),
               "searched": f"{run.cov.get('property_oracle_cases_on_impl')} sequences x {len(ctx['typesets'])} typesets x pandas/list/numpy on the implementation: no failing input"}
        if info["gen"].get("engine", {}).get("changed_vs_golden"):
            rep["model_diff_vs_golden"] = C.golden_diff("Engine_gen.v")
        run.violation(rep, no_input=True)
    run.cov["rule"] = ("repo series bank + corner list + file fixtures + family x encoding x null-sentinel x null-position x length x index grid (random) + mixed object columns; "
                       "each on shipped typesets and random parent-closed sub-typesets, as pandas Series, Python list and numpy array (StandardSet), plus a two-column DataFrame; "
                       "distinct_nontrivial = distinct (family, value pool, dtype, null placement) cells reached")
    run.cov["samples"] = [items[0]["recipe"], items[len(items) // 2]["recipe"], items[-1]["recipe"]]
    run.cov["typesets"] = list(ctx["typesets"])[:12]
    run.cov["trusted_base"] += [
        "translator vfw/py2coq.py + vfw/gen_engine.py (engine regenerated this run); coq/lib/NxModel.v, PyBase.v hand models",
        "theorem hypothesis contains_graph (every base_graph edge is guarded by the child's contains_op, a function of the sequence alone, with the identity transformer): "
        "established for the shipped types by the correspondence of C12 (hand model of VisionsBaseTypeMeta.relations) and exercised on the implementation by this check's oracle",
        "Python-side oracle (vfw/c01.py) and generators (vfw/streams.py)",
    ]
    return run.finish("proof")


def replay_entry(e):
    r = e.get("replay", {})
    if "recipe" not in r:
        return True
    s = streams.materialise({"recipe": r["recipe"]})
    name = r.get("typeset", "CompleteSet")
    ts = streams.typeset_from_names(name[4:].split(",")) if name.startswith("sub:") else streams.shipped_typesets()[name]
    x = {"pandas": s, "list": list(s), "numpy": s.to_numpy()}[r.get("backend", "pandas")]
    return bool(check_one(ts, name, x, r.get("backend", "pandas")))
