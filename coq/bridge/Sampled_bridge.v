(* Bridge for traverse_graph_with_sampled_series (GENERATED from typesets/typeset.py). *)
From Coq Require Import List Bool ZArith Lia.
Import ListNotations.
From V Require Import PyBase NxModel WalkSpec Engine_gen Engine_bridge.
Open Scope py_scope.

Section SampledBridge.
  Context {T D St L F : Type} (X : ctx T D St L F).

  (* re-validation of a path on the full data, hop by hop, stopping at the first relation that
     rejects; returns data, validated path, state and the type reached *)
  Fixpoint replay (g : graph T D St) (from : T) (d : D) (st : St) (todo done : list T)
    : res (D * list T * St * T) :=
    match todo with
    | [] => Ok (d, done, st, from)
    | to :: todo' =>
        ea <- g_edge (T_eqb X) g from to ;;
        '(b, st1) <- relationship (ea_relationship ea) d st ;;
        if negb b then Ok (d, done, st1, from)
        else '(d', st2) <- transformer (ea_relationship ea) d st1 ;;
             replay g to d' st2 todo' (done ++ [to])
    end.

  Definition sampled_spec fuel (t : T) (d : D) (g : graph T D St) (k : Z) (ost : option St)
    : res (D * list T * St) :=
    let st := match ost with Some s => s | None => empty_state X tt end in
    if orb (Z.ltb (seq_len X d) 1000) (Z.gtb k (seq_len X d))
    then walk (succ_of X g) fuel t d st []
    else
      '(_, path, st1) <- walk (succ_of X g) fuel t (seq_sample X d k) st [] ;;
      if Z.eqb (py_len path) 1 then Ok (d, path, st1)
      else from <- py_index path 0 ;;
           '(d', p', st', _) <- replay g from d st1 (py_slice path (Some 1%Z) None) [from] ;;
           Ok (d', p', st').

  Theorem sampled_eq_spec fuel t d g k ost :
    traverse_graph_with_sampled_series X fuel t d g k ost =
    ('(d', p', st') <- sampled_spec fuel t d g k ost ;; ret ((d', p', st'), st')).
  Proof.
    unfold traverse_graph_with_sampled_series, sampled_spec. cbn zeta.
    set (st := match ost with Some s => s | None => empty_state X tt end).
    destruct (orb (Z.ltb (seq_len X d) 1000) (Z.gtb k (seq_len X d))).
    - rewrite traverse_eq_walk_opt. unfold pack3.
      destruct (walk (succ_of X g) fuel t d st []) as [[[a b] c]|e]; reflexivity.
    - rewrite traverse_eq_walk_opt. unfold pack3.
      destruct (walk (succ_of X g) fuel t (seq_sample X d k) st []) as [[[a path] st1]|e]; cbn [bind ret]; [|reflexivity].
      destruct (Z.eqb (py_len path) 1); [reflexivity|].
      destruct (py_index path 0) as [from|e]; cbn [bind ret]; [|reflexivity].
      generalize (py_slice path (Some 1%Z) None). intro todo.
      generalize st1 d from [from]. clear.
      induction todo as [|to todo IH]; intros st d from done; cbn [for_each replay bind ret]; [reflexivity|].
      destruct (g_edge (T_eqb X) g from to) as [ea|e]; cbn [bind ret]; [|reflexivity].
      rewrite is_relation_eq.
      destruct (relationship (ea_relationship ea) d st) as [[b st1]|e]; cbn [bind ret]; [|reflexivity].
      destruct b; cbn [negb bind ret]; [|reflexivity].
      rewrite transform_eq.
      destruct (transformer (ea_relationship ea) d st1) as [[d' st2]|e]; cbn [bind ret]; [|reflexivity].
      apply IH.
  Qed.
End SampledBridge.
