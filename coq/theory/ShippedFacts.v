(* Facts about the shipped relation table, by computation on the table REGENERATED from
   types/*.py on this run (gen/Shipped_gen.v).  The table is finite: these are proofs. *)
From Coq Require Import List Bool ZArith Lia.
Import ListNotations.
From V Require Import PyBase NxModel Engine_gen Shipped_gen.

Definition is_identity (d : ty * bool * bool * bool) : bool := let '(_, inf, _, _) := d in negb inf.
Definition related (d : ty * bool * bool * bool) : ty := let '(r, _, _, _) := d in r.

Definition identity_parents (t : ty) : list ty := map related (filter is_identity (declared t)).

(* T1: Generic declares nothing; every other type declares exactly one identity relation *)
Definition T1 : bool :=
  forallb (fun t => if ty_eqb t tGeneric then match declared t with [] => true | _ => false end
                    else Nat.eqb (length (identity_parents t)) 1) all_types.

(* T2: following identity parents reaches Generic *)
Fixpoint climbs (fuel : nat) (t : ty) : bool :=
  match fuel with
  | O => false
  | S f => if ty_eqb t tGeneric then true
           else match identity_parents t with p :: _ => climbs f p | [] => false end
  end.
Definition T2 : bool := forallb (climbs (length all_types)) all_types.

(* T3: a rank that strictly increases along every declared relation (related -> declaring type):
   the length of the longest chain of declared sources above a type *)
Fixpoint rank (fuel : nat) (t : ty) : nat :=
  match fuel with
  | O => 0
  | S f => fold_left Nat.max (map (fun d => S (rank f (related d))) (declared t)) 0
  end.
Definition rk := rank (length all_types).
Definition T3 : bool :=
  forallb (fun t => forallb (fun d => Nat.ltb (rk (related d)) (rk t)) (declared t)) all_types.

(* at most one declared relation per (source, type) pair *)
Fixpoint nodupb (l : list ty) : bool :=
  match l with [] => true | x :: l' => andb (negb (existsb (ty_eqb x) l')) (nodupb l') end.
Definition T4_nodup_sources : bool := forallb (fun t => nodupb (map related (declared t))) all_types.

(* no shipped IdentityRelation passes an explicit relationship or transformer *)
Definition T5_identity_defaults : bool :=
  forallb (fun t => forallb (fun '(_, inf, er, et) => orb inf (andb (negb er) (negb et))) (declared t)) all_types.

Definition subset (a b : list ty) : bool := forallb (fun x => existsb (ty_eqb x) b) a.
Definition T6_nested : bool := andb (subset standard_set geometry_set) (subset geometry_set complete_set).

(* type names are pairwise distinct (ty_name is the rank of str(cls) among all names) *)
Definition T7_names_distinct : bool :=
  let ns := map ty_name all_types in
  (fix nd (l : list nat) := match l with [] => true | x :: l' => andb (negb (existsb (Nat.eqb x) l')) (nd l') end) ns.

(* a typeset given in its own declaration is parent-closed *)
Definition parent_closed (s : list ty) : bool :=
  forallb (fun t => forallb (fun p => existsb (ty_eqb p) s) (identity_parents t)) s.
Definition T8_shipped_sets_closed : bool :=
  andb (parent_closed standard_set) (andb (parent_closed geometry_set) (parent_closed complete_set)).

Lemma shipped_table_facts :
  T1 = true /\ T2 = true /\ T3 = true /\ T4_nodup_sources = true /\ T5_identity_defaults = true /\
  T6_nested = true /\ T7_names_distinct = true /\ T8_shipped_sets_closed = true.
Proof. vm_compute. repeat split. Qed.

Lemma ty_eqb_spec a b : ty_eqb a b = true <-> a = b.
Proof. split; [destruct a, b; simpl; intro H; (reflexivity || discriminate) | intros ->; destruct b; reflexivity]. Qed.
