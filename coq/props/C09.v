(* C09 - Totality.  Proved part: the pandas membership predicates REGENERATED from source never raise
   and always answer, for every abstract series (any dtype-fact tuple consistent on .cat, any values);
   Generic contains everything.  That guards/transformers of inference relations do not raise is
   decided on the implementation (their parsers are third-party code). *)
From Coq Require Import List Bool ZArith.
Import ListNotations.
From V Require Import PyBase Values Shipped_gen PandasContains_gen ContainsTheory TotalTheory.

Theorem C09_membership_is_total :
  forall t s, cat_ok (s_dtype s) = true -> exists b, pandas_contains t s = Ok b.
Proof. exact contains_never_raises. Qed.
Print Assumptions C09_membership_is_total.

Theorem C09_generic_is_the_catch_all : forall s, pandas_contains tGeneric s = Ok true.
Proof. exact Generic_contains_everything. Qed.

(* Python-list backend (REGENERATED backends/python/types/*.py over lib/PyValues.v): Generic is the catch-all for every list,
   so the walk of C01 (props/C01.v part 4) always has an answer inside the typeset: its path starts at Generic and only
   moves to types of the typeset. *)
From V Require PyValues PythonContains_gen PythonBag.
Theorem C09_python_list_generic_contains_every_list :
  forall l : PyValues.pseq, PythonContains_gen.python_contains tGeneric l = true.
Proof. exact PythonBag.python_generic_contains_everything. Qed.
Print Assumptions C09_python_list_generic_contains_every_list.
