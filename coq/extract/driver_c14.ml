(* mode (0: VisionsTypeset, 1: build_graph) then one type-index list per line (iteration order of set(types)) -> encoded construction result *)
open Conv
let () =
  try while true do
    let line = input_line stdin in
    let r = build_any (List.map z_of_int (ints_of_line line)) in
    print_endline (str_ints (List.map int_of_z r))
  done with End_of_file -> ()
