(* Bridge: the GENERATED traversal functions (gen/Engine_gen.v, translated from
   typesets/typeset.py, relations/relations.py, backends/pandas/traversal.py on this run)
   compute the reference walk of spec/WalkSpec.v over the successor lists of the graph. *)
From Coq Require Import List Bool ZArith Lia.
Import ListNotations.
From V Require Import PyBase NxModel WalkSpec Engine_gen.
Open Scope py_scope.

Section EngineBridge.
  Context {T D St L F : Type} (X : ctx T D St L F).

  Lemma bind_pair_eta {A B} (m : res (A * B)) :
    bind m (fun x => let '(a, b) := x in ret (a, b)) = m.
  Proof. destruct m as [[a b]|e]; reflexivity. Qed.

  (* TypeRelation.is_relation / transform with an explicit state just call the multimethod *)
  Lemma is_relation_eq (r : relation T D St) d st :
    TypeRelation_is_relation X r d (Some st) = relationship r d st.
  Proof. unfold TypeRelation_is_relation. cbn. apply bind_pair_eta. Qed.

  Lemma transform_eq (r : relation T D St) d st :
    TypeRelation_transform X r d (Some st) = transformer r d st.
  Proof. unfold TypeRelation_transform. cbn. apply bind_pair_eta. Qed.

  (* with state=None a fresh dict() is used *)
  Lemma is_relation_none (r : relation T D St) d :
    TypeRelation_is_relation X r d None = relationship r d (empty_state X tt).
  Proof. unfold TypeRelation_is_relation. cbn. apply bind_pair_eta. Qed.

  (* the outgoing relations of node t in graph g, as reference edges: successor order of the
     graph; guard and transformer are those of the relation stored on the edge *)
  Definition edge_of (g : graph T D St) (t v : T) : edge T D St :=
    mkEdge v
      (fun d st => ea <- g_edge (T_eqb X) g t v ;; relationship (ea_relationship ea) d st)
      (fun d st => ea <- g_edge (T_eqb X) g t v ;; transformer (ea_relationship ea) d st).

  Definition succ_of (g : graph T D St) (t : T) : res (list (edge T D St)) :=
    ns <- g_successors (T_eqb X) g t ;; ret (map (edge_of g t) ns).

  Definition pack3 (r : res (D * list T * St)) : res (D * list T * St * list T * St) :=
    '(d, p, st) <- r ;; ret ((d, p, st), p, st).

  Ltac step := cbn [bind ret e_guard e_trans e_dst].

  Theorem traverse_eq_walk fuel : forall t d g path st,
    traverse_graph_with_series X fuel t d g (Some path) (Some st)
    = pack3 (walk (succ_of g) fuel t d st path).
  Proof.
    induction fuel as [|fuel IH]; intros t d g path st; [reflexivity|].
    cbn [traverse_graph_with_series walk].
    remember (succ_of g) as sc eqn:Hsc.
    assert (Hs : sc t = (ns <- g_successors (T_eqb X) g t ;; ret (map (edge_of g t) ns))) by (subst sc; reflexivity).
    rewrite Hs. clear Hs.
    destruct (g_successors (T_eqb X) g t) as [ns|e]; cbn [bind ret]; [|reflexivity].
    generalize st. clear st.
    induction ns as [|v ns IHns]; intro st; cbn [for_each map first_accepting bind ret].
    - reflexivity.
    - set (rest := map (edge_of g t) ns) in *. unfold edge_of. unfold pack3 in *. step.
      destruct (g_edge (T_eqb X) g t v) as [ea|e]; step; [|reflexivity].
      rewrite is_relation_eq.
      destruct (relationship (ea_relationship ea) d st) as [[b st1]|e]; step; [|reflexivity].
      destruct b; step.
      + rewrite transform_eq.
        destruct (transformer (ea_relationship ea) d st1) as [[d' st2]|e]; step; [|reflexivity].
        rewrite IH, <- Hsc.
        destruct (walk sc fuel v d' st2 (path ++ [t])) as [[[a b] c]|e]; reflexivity.
      + subst rest. apply IHns.
  Qed.


  (* path / state default to a new list / a new dict() *)
  Theorem traverse_eq_walk_opt fuel t d g opath ostate :
    traverse_graph_with_series X fuel t d g opath ostate
    = pack3 (walk (succ_of g) fuel t d
               (match ostate with Some st => st | None => empty_state X tt end)
               (match opath with Some p => p | None => [] end)).
  Proof.
    rewrite <- traverse_eq_walk. destruct fuel; [reflexivity|].
    destruct opath, ostate; reflexivity.
  Qed.

  Definition fresh_walk (g : graph T D St) fuel (root : T) (d : D) : res (D * list T * St) :=
    walk (succ_of g) fuel root d (empty_state X tt) [].

  (* traverse_graph (singledispatch default) and its pd.Series registration *)
  Theorem traverse_graph_eq fuel d root g :
    traverse_graph X fuel d root g = fresh_walk g fuel root d.
  Proof.
    unfold traverse_graph, fresh_walk. cbn zeta. rewrite traverse_eq_walk_opt. unfold pack3.
    destruct (walk _ _ _ _ _ _) as [[[a b] c]|e]; reflexivity.
  Qed.

  Theorem traverse_graph_series_eq fuel d root g :
    _traverse_graph_series X fuel d root g = fresh_walk g fuel root d.
  Proof.
    unfold _traverse_graph_series, fresh_walk. cbn zeta. rewrite traverse_eq_walk_opt. unfold pack3.
    destruct (walk _ _ _ _ _ _) as [[[a b] c]|e]; reflexivity.
  Qed.

  (* the root is computed once and cached on the typeset object *)
  Definition root_of (ts : VisionsTypeset T D St) : res T :=
    match _root_node ts with
    | Some r => Ok r
    | None => find_root_node X (relation_graph ts)
    end.
  Definition with_root (ts : VisionsTypeset T D St) (r : T) : VisionsTypeset T D St :=
    match _root_node ts with Some _ => ts | None => set__root_node ts (Some r) end.

  Lemma VT_root_node_eq ts :
    VT_root_node X ts = (r <- root_of ts ;; ret (r, with_root ts r)).
  Proof.
    unfold VT_root_node, root_of, with_root. destruct ts as [[r|] rg bg tys]; cbn; [reflexivity|].
    destruct (find_root_node X rg); reflexivity.
  Qed.

  Theorem VT_detect_eq fuel ts d :
    VT_detect X fuel ts d =
    (r <- root_of ts ;; out <- fresh_walk (base_graph ts) fuel r d ;; ret (out, with_root ts r)).
  Proof.
    unfold VT_detect. cbn zeta. rewrite VT_root_node_eq.
    destruct (root_of ts) as [r|e]; cbn [bind ret]; [|reflexivity].
    rewrite traverse_graph_eq.
    assert (base_graph (with_root ts r) = base_graph ts) as -> by (unfold with_root; destruct ts as [[?|] ? ? ?]; reflexivity).
    destruct (fresh_walk (base_graph ts) fuel r d); reflexivity.
  Qed.

  Theorem VT_infer_eq fuel ts d :
    VT_infer X fuel ts d =
    (r <- root_of ts ;; out <- fresh_walk (relation_graph ts) fuel r d ;; ret (out, with_root ts r)).
  Proof.
    unfold VT_infer. cbn zeta. rewrite VT_root_node_eq.
    destruct (root_of ts) as [r|e]; cbn [bind ret]; [|reflexivity].
    rewrite traverse_graph_eq.
    assert (relation_graph (with_root ts r) = relation_graph ts) as -> by (unfold with_root; destruct ts as [[?|] ? ? ?]; reflexivity).
    destruct (fresh_walk (relation_graph ts) fuel r d); reflexivity.
  Qed.

  (* detect_type / infer_type / cast_* are projections of detect / infer *)
  Definition last_of (p : list T) : res T := py_index p (-1)%Z.

  Theorem VT_detect_type_eq fuel ts d :
    VT_detect_type X fuel ts d =
    ('(out, ts') <- VT_detect X fuel ts d ;; let '(_, p, _) := out in t <- last_of p ;; ret (t, ts')).
  Proof.
    unfold VT_detect_type, get_type_from_path_builtin, last_of. cbn zeta.
    destruct (VT_detect X fuel ts d) as [[[[a p] c] ts']|e]; cbn [bind ret]; [|reflexivity].
    destruct (py_index p (-1)); reflexivity.
  Qed.

  Theorem VT_infer_type_eq fuel ts d :
    VT_infer_type X fuel ts d =
    ('(out, ts') <- VT_infer X fuel ts d ;; let '(_, p, _) := out in t <- last_of p ;; ret (t, ts')).
  Proof.
    unfold VT_infer_type, get_type_from_path_builtin, last_of. cbn zeta.
    destruct (VT_infer X fuel ts d) as [[[[a p] c] ts']|e]; cbn [bind ret]; [|reflexivity].
    destruct (py_index p (-1)); reflexivity.
  Qed.

  Theorem VT_cast_to_detected_eq fuel ts d :
    VT_cast_to_detected X fuel ts d =
    ('(out, ts') <- VT_detect X fuel ts d ;; let '(x, _, _) := out in ret (x, ts')).
  Proof.
    unfold VT_cast_to_detected. cbn zeta.
    destruct (VT_detect X fuel ts d) as [[[[a p] c] ts']|e]; reflexivity.
  Qed.

  Theorem VT_cast_to_inferred_eq fuel ts d :
    VT_cast_to_inferred X fuel ts d =
    ('(out, ts') <- VT_infer X fuel ts d ;; let '(x, _, _) := out in ret (x, ts')).
  Proof.
    unfold VT_cast_to_inferred. cbn zeta.
    destruct (VT_infer X fuel ts d) as [[[[a p] c] ts']|e]; reflexivity.
  Qed.

  (* functional.py wrappers are the methods *)
  Theorem functional_eq fuel ts d :
    functional_detect_type X fuel d ts = VT_detect_type X fuel ts d /\
    functional_infer_type X fuel d ts = VT_infer_type X fuel ts d /\
    functional_cast_to_detected X fuel d ts = VT_cast_to_detected X fuel ts d /\
    functional_cast_to_inferred X fuel d ts = VT_cast_to_inferred X fuel ts d.
  Proof.
    unfold functional_detect_type, functional_infer_type, functional_cast_to_detected, functional_cast_to_inferred.
    cbn zeta. repeat split; apply bind_pair_eta.
  Qed.
End EngineBridge.
