(* C01 - Detection is sound and most specific.
   For every graph all of whose edges are identity relations guarded by the child's contains_op
   (a function of the sequence alone) with the identity transformer - which is what
   VisionsBaseTypeMeta.relations builds for every IdentityRelation declared without explicit
   relationship/transformer, i.e. every shipped one (computed from the regenerated relation table,
   gen/Shipped_gen.v) - and for EVERY sequence, state and successor order: what detect returns is
   the input itself, the state untouched, a path that starts at the root, follows graph edges,
   consists only of types that contain the sequence, and ends in a type none of whose successors
   contains it. *)
From Coq Require Import List Bool ZArith.
Import ListNotations.
From V Require Import PyBase NxModel WalkSpec Engine_gen Engine_bridge EngineTheory.
Open Scope py_scope.

Theorem C01_detect_sound_and_most_specific :
  forall (T D St L F : Type) (X : ctx T D St L F) (cont : T -> D -> bool) fuel ts d out ts',
    contains_graph X (base_graph ts) cont ->
    VT_detect X fuel ts d = Ok (out, ts') ->
    exists root rest,
      root_of X ts = Ok root /\
      out = (d, root :: rest, empty_state X tt) /\
      Forall (fun v => cont v d = true) rest /\
      chain X (base_graph ts) root rest /\
      (forall ns, g_successors (T_eqb X) (base_graph ts) (last rest root) = Ok ns ->
                  forall v, In v ns -> cont v d = false).
Proof.
  intros T D St L F X cont fuel ts d out ts' Hg H.
  rewrite VT_detect_eq in H.
  destruct (root_of X ts) as [root|e] eqn:R; cbn [bind ret] in H; [|discriminate].
  unfold fresh_walk in H.
  destruct (walk (succ_of X (base_graph ts)) fuel root d (empty_state X tt) []) as [o|e] eqn:W; cbn [bind ret] in H; [|discriminate].
  inversion H; subst. apply walk_walks in W.
  destruct (detect_walk_sound X (base_graph ts) cont Hg _ _ _ _ _ W) as [rest [-> [Hf [Hc Hl]]]].
  exists root, rest. repeat split; assumption.
Qed.
Print Assumptions C01_detect_sound_and_most_specific.

(* Non-vacuity: the hypothesis holds of a concrete 3-type graph built by the generated
   constructor, and detect on it returns a non-trivial path. *)
Definition ex_cont (t : nat) (d : list nat) : bool :=
  match t with 0 => true | 1 => forallb (fun x => Nat.ltb x 10) d | _ => forallb (fun x => Nat.ltb x 5) d end.
Definition ex_idrel (rt ty : nat) : relation nat (list nat) unit :=
  mkRel rt ty false (fun d st => Ok (ex_cont ty d, st)) (fun d st => Ok (d, st)).
Definition ex_ctx : ctx nat (list nat) unit nat unit :=
  mkCtx Nat.eqb Nat.eqb
    (fun t => match t with 1 => [ex_idrel 0 1] | 2 => [ex_idrel 1 2] | _ => [] end)
    (fun t d st => Ok (ex_cont t d, st)) (fun t => Nat.eqb t 0) 0 (fun l => l) (fun _ => tt)
    (fun d => Z.of_nat (length d)) (fun d _ => d) (fun _ => []) (fun _ _ => Raise KeyError) (fun _ => tt) (fun l => l)
    (fun _ _ => Raise KeyError) (fun t => Z.of_nat t) (fun _ _ => 0%Z).
Example C01_example :
  exists ts w, VT_init ex_ctx (VT_blank ex_ctx) [0; 1; 2] [] = Ok (tt, ts, w) /\
    (forall t v, In t [0;1;2] -> In v [0;1;2] -> forall ea, g_edge Nat.eqb (base_graph ts) t v = Ok ea ->
        ea_relationship ea = ex_idrel t v) /\
    (exists ts', VT_detect ex_ctx 4 ts [7; 3] = Ok (([7; 3], [0; 1], tt), ts')).
Proof.
  eexists. eexists. split; [vm_compute; reflexivity|]. split.
  - intros t v Ht Hv. simpl in Ht, Hv.
    repeat (destruct Ht as [<-|Ht]; [repeat (destruct Hv as [<-|Hv]; [vm_compute; intros ea H; inversion H; reflexivity|]); contradiction|]); contradiction.
  - eexists. vm_compute. reflexivity.
Qed.

(* ---- Part 2: no hypothesis on the graph.  For ANY relation table with the table facts whose identity relations use
   the default guard (the declaring type's contains_op, a function [cont] of the sequence) and the identity transformer,
   and ANY closed list of types: the generated constructor builds the typeset, and whatever detect returns on it is the
   input itself with a path from Generic along declared identity relations inside the typeset, every type of which
   contains the input, ending in a type none of whose identity children in the typeset contains it. *)
From Coq Require Import Permutation.
From V Require Import NxFacts Graph_bridge GraphWF AlgebraTheory DetectWF Values Shipped_gen ShippedFacts PandasContains_gen TotalTheory ShippedGraph PandasDetect.

Theorem C01_constructed_typesets :
  forall (T D St L F : Type) (X : ctx T D St L F) (rk : T -> nat), table_ok X rk ->
  forall cont : T -> D -> bool,
    (forall t r, In r (relations X t) -> inferential r = false ->
       (forall d st, relationship r d st = Ok (cont t d, st)) /\ (forall d st, transformer r d st = Ok (d, st))) ->
  forall types w fuel d,
    closed X types ->
    exists ts w', VT_init X (VT_blank X) types w = Ok (tt, ts, w') /\
      forall out ts', VT_detect X fuel ts d = Ok (out, ts') ->
      exists rest,
        out = (d, Generic X :: rest, empty_state X tt) /\
        Forall (fun v => cont v d = true) rest /\
        parent_chain X (Generic X) rest /\ Forall (fun v => In v types) rest /\
        (forall v, In v types -> identity_parent_of X (last rest (Generic X)) v -> cont v d = false).
Proof. intros T D St L F X rk H cont Hd. exact (detect_sound_for_constructed_typesets X rk H cont Hd). Qed.
Print Assumptions C01_constructed_typesets.

(* ---- Part 3: end to end in the model, for the pandas backend: the engine generated from typeset.py, the relation table
   generated from types/*.py and the membership predicates generated from backends/pandas/types/*.py, composed.  For EVERY
   abstract pandas series (dtype facts + value kinds; a categorical dtype has .cat), EVERY parent-closed list of shipped
   types containing Generic in ANY supply and set-iteration order, and ANY guards/transformers on the inference relations. *)
Theorem C01_pandas_end_to_end :
  forall (si : list ty -> list ty), (forall l, NoDup l -> Permutation (si l) l) ->
  forall (oguard : ty -> ty -> okseries -> unit -> res (bool * unit)) (otrans : ty -> ty -> okseries -> unit -> res (okseries * unit))
         types w fuel (d : okseries),
    In tGeneric types -> parent_closed types = true ->
    let X := pandas_ctx si oguard otrans in
    exists ts w', VT_init X (VT_blank X) types w = Ok (tt, ts, w') /\
      forall out ts', VT_detect X fuel ts d = Ok (out, ts') ->
      exists rest,
        out = (d, tGeneric :: rest, tt) /\
        Forall (fun v => pandas_contains v (proj1_sig d) = Ok true) rest /\
        parent_chain X tGeneric rest /\ Forall (fun v => In v types) rest /\
        (forall v, In v types -> identity_parent_of X (last rest tGeneric) v -> pandas_contains v (proj1_sig d) = Ok false).
Proof. intros si Hsi oguard otrans. exact (pandas_detect_sound si Hsi oguard otrans). Qed.
Print Assumptions C01_pandas_end_to_end.

(* non-vacuity: a float64 series without missing values is detected Generic -> Float by CompleteSet's constructor output *)
Definition ex_float_dtype : dfacts := mkDF false false false false false true false true false false false false false None.
Definition ex_float_series : okseries := exist _ (mkS ex_float_dtype [mkV KFloat false false false]) eq_refl.
Definition ex_ctx_pandas := pandas_ctx (fun l => l) (fun _ _ _ st => Ok (false, st)) (fun _ _ s st => Ok (s, st)).
Example C01_pandas_example :
  exists ts w, VT_init ex_ctx_pandas (VT_blank ex_ctx_pandas) complete_set [] = Ok (tt, ts, w) /\
    exists ts', VT_detect ex_ctx_pandas 30 ts ex_float_series = Ok ((ex_float_series, [tGeneric; tFloat], tt), ts').
Proof. eexists. eexists. split; [vm_compute; reflexivity|]. eexists. vm_compute. reflexivity. Qed.

(* ---- Part 4: the same composition for the Python-list backend: the membership predicates generated from
   backends/python/types/*.py over the abstract lists of lib/PyValues.v.  For EVERY list, EVERY parent-closed list of shipped
   types containing Generic in ANY supply and set-iteration order, and ANY guards/transformers on the inference relations. *)
From V Require PyValues PythonContains_gen PythonDetect.
Theorem C01_python_list_end_to_end :
  forall (si : list ty -> list ty), (forall l, NoDup l -> Permutation (si l) l) ->
  forall (oguard : ty -> ty -> PyValues.pseq -> unit -> res (bool * unit)) (otrans : ty -> ty -> PyValues.pseq -> unit -> res (PyValues.pseq * unit))
         types w fuel (d : PyValues.pseq),
    In tGeneric types -> parent_closed types = true ->
    let X := PythonDetect.python_ctx si oguard otrans in
    exists ts w', VT_init X (VT_blank X) types w = Ok (tt, ts, w') /\
      forall out ts', VT_detect X fuel ts d = Ok (out, ts') ->
      exists rest,
        out = (d, tGeneric :: rest, tt) /\
        Forall (fun v => PythonContains_gen.python_contains v d = true) rest /\
        parent_chain X tGeneric rest /\ Forall (fun v => In v types) rest /\
        (forall v, In v types -> identity_parent_of X (last rest tGeneric) v -> PythonContains_gen.python_contains v d = false).
Proof. intros si Hsi oguard otrans. exact (PythonDetect.python_detect_sound si Hsi oguard otrans). Qed.
Print Assumptions C01_python_list_end_to_end.

(* non-vacuity: a list of two non-negative Python ints is detected Generic -> Integer -> Count by CompleteSet's constructor output;
   the empty list stays at Generic *)
Definition ex_int_list : PyValues.pseq := [PyValues.mkP PyValues.PInt true true false false false; PyValues.mkP PyValues.PInt false true false false false].
Definition ex_ctx_python := PythonDetect.python_ctx (fun l => l) (fun _ _ _ st => Ok (false, st)) (fun _ _ s st => Ok (s, st)).
Example C01_python_list_example :
  exists ts w, VT_init ex_ctx_python (VT_blank ex_ctx_python) complete_set [] = Ok (tt, ts, w) /\
    (exists ts', VT_detect ex_ctx_python 30 ts ex_int_list = Ok ((ex_int_list, [tGeneric; tInteger; tCount], tt), ts')) /\
    (exists ts', VT_detect ex_ctx_python 30 ts [] = Ok (([], [tGeneric], tt), ts')).
Proof. eexists. eexists. split; [vm_compute; reflexivity|]. split; eexists; vm_compute; reflexivity. Qed.
