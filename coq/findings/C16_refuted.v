(* C16: the side conditions of props/C16.v cannot be dropped - witnesses, evaluated on the GENERATED
   predicates; each is replayed on the real code by the check (KNOWN_FINDINGS.json F16b, F16c). *)
From Coq Require Import List Bool ZArith.
Import ListNotations.
From V Require Import PyBase Values Shipped_gen PandasContains_gen ContainsTheory.

(* F16b: a categorical series of dates is a Date but not an Object *)
Definition cat_dtype : dfacts := mkDF false true false false false false false false false false false false false (Some false).
Example C16_Date_in_Object_refuted :
  exists s, In_type tDate s /\ pandas_contains tObject s = Ok false.
Proof. exists (mkS cat_dtype [mkV KDate false false false]). split; vm_compute; reflexivity. Qed.

(* F16c: an existing relative pathlib.Path is a File but not a Path *)
Definition obj_dtype : dfacts := mkDF false false false false false false false false true false false false false None.
Example C16_File_in_Path_refuted :
  exists s, In_type tFile s /\ pandas_contains tPath s = Ok false.
Proof. exists (mkS obj_dtype [mkV KPath false true false]). split; vm_compute; reflexivity. Qed.
