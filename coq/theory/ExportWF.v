(* ExportWF: the premises of ExportTheory.export_depends_on_sets_only DERIVED for two typesets built by
   the generated constructor from the same SET of types (GraphWF.wf_result): their relation graphs and
   their identity graphs are handed to pydot as the same ordered node list and ordered styled edge list. *)
From Coq Require Import List Bool ZArith Lia Permutation.
Import ListNotations.
From V Require Import PyBase NxModel NxFacts Engine_gen Graph_bridge GraphWF AlgebraTheory SortTheory ExportTheory.

Section ExportWF.
  Context {T D St L F : Type} (X : ctx T D St L F) (rk : T -> nat).
  Notation eqb := (T_eqb X).
  Hypothesis Heq : forall a b, eqb a b = true <-> a = b.
  Hypothesis Hinj : forall a b, type_name X a = type_name X b -> a = b.
  Variables (n1 n2 : list T) (wa wb wa' wb' : list (warning T)) (ts1 ts2 : VisionsTypeset T D St).
  Hypothesis W1 : wf_result X rk n1 wa ts1 wa'.
  Hypothesis W2 : wf_result X rk n2 wb ts2 wb'.
  Hypothesis Hmem : forall t, In t n1 <-> In t n2.

  Let same := result_determined_by_type_set X rk n1 n2 wa wb ts1 ts2 wa' wb' W1 W2 Hmem.

  Lemma styles_perm (g1 g2 : graph T D St) :
    Permutation (g_edges eqb g1) (g_edges eqb g2) -> Permutation (edge_styles X g1) (edge_styles X g2).
  Proof. intro P. unfold edge_styles. cbv zeta. apply Permutation_map. exact P. Qed.

  Theorem relation_graphs_export_equal :
    export_graph X (relation_graph ts1) = export_graph X (relation_graph ts2).
  Proof.
    destruct same as [_ [Erel _]].
    pose proof (wf_nodes _ _ _ _ _ _ W1) as N1. pose proof (wf_nodes _ _ _ _ _ _ W2) as N2.
    destruct (wf_nodups _ _ _ _ _ _ W1) as [D1 _]. destruct (wf_nodups _ _ _ _ _ _ W2) as [D2 _].
    destruct (wf_graph _ _ _ _ _ _ W1) as [_ [K1 _]]. destruct (wf_graph _ _ _ _ _ _ W2) as [_ [K2 _]].
    apply (export_depends_on_sets_only X Heq); [| | | |exact Hinj].
    - rewrite N1, N2. apply NoDup_Permutation; assumption.
    - apply styles_perm. apply g_edges_perm; try assumption; try (rewrite N1; exact D1); try (rewrite N2; exact D2).
      + intro u. rewrite N1, N2. apply Hmem.
      + intros u v _. apply Erel.
    - rewrite N1. exact D1.
    - apply g_edge_pairs_nodup; [rewrite N1; exact D1 | exact K1].
  Qed.

  Theorem identity_graphs_export_equal :
    export_graph X (base_graph ts1) = export_graph X (base_graph ts2).
  Proof.
    destruct same as [_ [_ Ebase]].
    destruct (wf_nodups _ _ _ _ _ _ W1) as [_ D1]. destruct (wf_nodups _ _ _ _ _ _ W2) as [_ D2].
    destruct (wf_graph _ _ _ _ _ _ W1) as [_ [_ K1]]. destruct (wf_graph _ _ _ _ _ _ W2) as [_ [_ K2]].
    assert (Hn : forall v, In v (g_nodes (base_graph ts1)) <-> In v (g_nodes (base_graph ts2))).
    { intro v. rewrite (wf_base_nodes_gen _ _ _ _ _ _ W1 v), (wf_base_nodes_gen _ _ _ _ _ _ W2 v).
      split; (intros [[u [a E]]|[u [a E]]]; [left | right]; exists u, a); rewrite ?Ebase in *; try exact E; rewrite Ebase; exact E. }
    apply (export_depends_on_sets_only X Heq); [| | | |exact Hinj].
    - apply NoDup_Permutation; assumption.
    - apply styles_perm. apply g_edges_perm; try assumption. intros u v _. apply Ebase.
    - exact D1.
    - apply g_edge_pairs_nodup; assumption.
  Qed.
End ExportWF.
