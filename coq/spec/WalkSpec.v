(* Reference semantics of a visions traversal ("start at the root, repeatedly follow the
   outgoing relation that accepts the current data, apply its transformer, stop when none
   accepts, report the visited path"), independent of networkx and of the generated code. *)
From Coq Require Import List Bool ZArith Lia.
Import ListNotations.
From V Require Import PyBase.
Open Scope py_scope.

Section Walk.
  Context {T D St : Type}.

  Record edge := mkEdge {
    e_dst : T;
    e_guard : D -> St -> res (bool * St);
    e_trans : D -> St -> res (D * St)
  }.

  (* outgoing relations of a node, in the order the engine enumerates them *)
  Variable succ : T -> res (list edge).

  (* evaluate the guards in order, threading the state; stop at the first that accepts *)
  Fixpoint first_accepting (es : list edge) (d : D) (st : St) : res (option edge * St) :=
    match es with
    | [] => Ok (None, st)
    | e :: es' =>
        '(b, st') <- e_guard e d st ;;
        if b then Ok (Some e, st') else first_accepting es' d st'
    end.

  Fixpoint walk (fuel : nat) (t : T) (d : D) (st : St) (path : list T) : res (D * list T * St) :=
    match fuel with
    | O => Raise OutOfFuel
    | S fuel' =>
        let path := path ++ [t] in
        es <- succ t ;;
        '(o, st1) <- first_accepting es d st ;;
        match o with
        | None => Ok (d, path, st1)
        | Some e =>
            '(d', st2) <- e_trans e d st1 ;;
            walk fuel' (e_dst e) d' st2 path
        end
    end.

  (* The same thing as a relation, without fuel: [steps t d st path d' path' st'] *)
  Inductive rejects : list edge -> D -> St -> St -> Prop :=
  | rej_nil d st : rejects [] d st st
  | rej_cons e es d st st1 st2 :
      e_guard e d st = Ok (false, st1) -> rejects es d st1 st2 -> rejects (e :: es) d st st2.

  Inductive walks : T -> D -> St -> list T -> D * list T * St -> Prop :=
  | walks_stop t d st path es st1 :
      succ t = Ok es -> rejects es d st st1 -> walks t d st path (d, path ++ [t], st1)
  | walks_step t d st path es pre e post st1 st2 d' st3 out :
      succ t = Ok es -> es = pre ++ e :: post ->
      rejects pre d st st1 -> e_guard e d st1 = Ok (true, st2) ->
      e_trans e d st2 = Ok (d', st3) ->
      walks (e_dst e) d' st3 (path ++ [t]) out ->
      walks t d st path out.

  Lemma first_accepting_none es d st st1 :
    first_accepting es d st = Ok (None, st1) <-> rejects es d st st1.
  Proof.
    revert st; induction es as [|e es IH]; intro st; simpl.
    - split; intro H; [inversion H; constructor | inversion H; reflexivity].
    - destruct (e_guard e d st) as [[b st']|x] eqn:G; simpl.
      + destruct b.
        * split; intro H; [discriminate | inversion H; subst; congruence].
        * rewrite IH. split; intro H; [econstructor; eauto | inversion H; subst].
          match goal with H1 : e_guard e d st = Ok (false, ?s) |- _ => rewrite G in H1; inversion H1; subst; assumption end.
      + split; intro H; [discriminate | inversion H; subst; congruence].
  Qed.

  Lemma first_accepting_some es d st e st2 :
    first_accepting es d st = Ok (Some e, st2) <->
    exists pre post st1, es = pre ++ e :: post /\ rejects pre d st st1 /\ e_guard e d st1 = Ok (true, st2).
  Proof.
    revert st; induction es as [|e0 es IH]; intro st; simpl.
    - split; [discriminate | intros [pre [post [st1 [H _]]]]; destruct pre; discriminate].
    - destruct (e_guard e0 d st) as [[b st']|x] eqn:G; simpl.
      + destruct b.
        * split.
          -- intro H; inversion H; subst. exists [], es, st. repeat split; [constructor | assumption].
          -- intros [pre [post [st1 [E [R Gd]]]]]. destruct pre as [|p pre]; simpl in E; inversion E; subst.
             ++ inversion R; subst. congruence.
             ++ inversion R; subst. congruence.
        * rewrite IH. split.
          -- intros [pre [post [st1 [E [R Gd]]]]]. exists (e0 :: pre), post, st1. subst. repeat split; [econstructor; eauto | assumption].
          -- intros [pre [post [st1 [E [R Gd]]]]]. destruct pre as [|p pre]; simpl in E; inversion E; subst.
             ++ inversion R; subst. congruence.
             ++ inversion R; subst. exists pre, post, st1. repeat split; try assumption.
                match goal with H1 : e_guard p d st = Ok (false, ?s) |- _ => rewrite G in H1; inversion H1; subst; assumption end.
      + split; [discriminate|]. intros [pre [post [st1 [E [R Gd]]]]].
        destruct pre as [|p pre]; simpl in E; inversion E; subst; inversion R; subst; congruence.
  Qed.

  (* the functional walk is sound for the relational one *)
  Theorem walk_walks fuel : forall t d st path out,
    walk fuel t d st path = Ok out -> walks t d st path out.
  Proof.
    induction fuel as [|fuel IH]; intros t d st path out H; simpl in H; [discriminate|].
    destruct (succ t) as [es|x] eqn:Sc; simpl in H; [|discriminate].
    destruct (first_accepting es d st) as [[o st1]|x] eqn:FA; simpl in H; [|discriminate].
    destruct o as [e|].
    - destruct (e_trans e d st1) as [[d' st2]|x] eqn:Tr; simpl in H; [|discriminate].
      apply first_accepting_some in FA. destruct FA as [pre [post [st0 [E [R G]]]]].
      eapply walks_step; eauto.
    - inversion H; subst. apply first_accepting_none in FA. eapply walks_stop; eauto.
  Qed.

  (* and complete, given enough fuel: a relational walk of n hops is found with fuel > n *)
  Theorem walks_walk t d st path out :
    walks t d st path out -> exists n, forall fuel, n < fuel -> walk fuel t d st path = Ok out.
  Proof.
    induction 1 as [t d st path es st1 Sc R | t d st path es pre e post st1 st2 d' st3 out Sc E R G Tr W [n IH]].
    - exists 0. intros fuel Hf. destruct fuel; [lia|]. simpl. rewrite Sc. simpl.
      apply first_accepting_none in R. rewrite R. reflexivity.
    - exists (S n). intros fuel Hf. destruct fuel; [lia|]. simpl. rewrite Sc. simpl.
      assert (FA : first_accepting es d st = Ok (Some e, st2)).
      { apply first_accepting_some. exists pre, post, st1. auto. }
      rewrite FA. simpl. rewrite Tr. simpl. apply IH. lia.
  Qed.

  (* the relational walk is deterministic (it is a function of the enumeration order) *)
  Lemma rejects_fun es d st s1 s2 : rejects es d st s1 -> rejects es d st s2 -> s1 = s2.
  Proof.
    intro H; revert s2; induction H; intros s2' H2; inversion H2; subst; [reflexivity|].
    match goal with A : e_guard e d st = _, B : e_guard e d st = _ |- _ => rewrite A in B; inversion B; subst end.
    auto.
  Qed.
End Walk.
Arguments edge : clear implicits.
