(* C15 - Refinement: a smaller typeset yields the projection of the larger one's answer.
   Stated for the reference walk (which the generated detect/infer are proved to compute,
   props/C12.v): [succB] enumerates the outgoing relations in typeset B's graph, [succA] those of
   the sub-typeset A, whose graph is the subgraph induced by A's types (that build_graph builds the
   induced subgraph is C14).  [xwalks] is a walk along which, at every visited node, exactly the
   followed relation accepts and the others reject without touching the state - the first
   sentence of C02, which is what makes the answer well defined. *)
From Coq Require Import List Bool ZArith.
Import ListNotations.
From V Require Import PyBase WalkSpec RefineTheory.

(* For every data, state, type system and pair A <= B: A's walk follows B's path exactly as long as
   it stays inside A, and stops where B's path leaves A (or where B stops): the path of A is a
   prefix of the path of B, all of it inside A, and either equal to it (same data) or followed in
   B's path by a type that A does not have.  For detect (identity relations only, A parent-closed)
   this says detect_A is the deepest type of B's detection path that belongs to A; for infer it
   says infer_B is reached from infer_A by continuing along B's relations. *)
Theorem C15_refinement :
  forall (T D St : Type) (succA succB : T -> res (list (edge T D St))) (inA : T -> bool),
    (forall t es, succB t = Ok es -> inA t = true ->
                  succA t = Ok (filter (fun e => inA (e_dst e)) es)) ->
  forall t d st path dB pB stB,
    xwalks succB t d st path (dB, pB, stB) -> inA t = true ->
    exists dA pA stA,
      xwalks succA t d st path (dA, pA, stA) /\
      is_prefix pA pB /\
      (pA = pB /\ dA = dB \/ exists next, is_prefix (pA ++ [next]) pB /\ inA next = false).
Proof. exact @refinement. Qed.
Print Assumptions C15_refinement.

(* an exclusive walk is a reference walk *)
Theorem C15_xwalks_are_walks :
  forall (T D St : Type) (succ : T -> res (list (edge T D St))) t d st path out,
    xwalks succ t d st path out -> walks succ t d st path out.
Proof. exact @xwalks_walks. Qed.

(* Non-vacuity: B = 0 -> {1 -> 3, 2}, A = {0, 1}; data 7 walks 0,1,3 in B and 0,1 in A *)
Definition exB (t : nat) : res (list (edge nat nat unit)) :=
  let mk v (p : nat -> bool) := mkEdge v (fun d st => Ok (p d, st)) (fun d st => Ok (d, st)) in
  Ok (match t with
      | 0 => [mk 1 (fun d => Nat.ltb 5 d); mk 2 (fun d => Nat.ltb d 3)]
      | 1 => [mk 3 (fun d => Nat.eqb d 7)]
      | _ => [] end).
Example C15_example :
  exists out, xwalks exB 0 7 tt [] out /\ snd (fst out) = [0; 1; 3].
Proof.
  eexists. split.
  - eapply xw_step with (pre := []) (post := [_]); [reflexivity | reflexivity | | reflexivity | reflexivity |].
    + repeat constructor.
    + eapply xw_step with (pre := []) (post := []); [reflexivity | reflexivity | constructor | reflexivity | reflexivity |].
      eapply xw_stop; [reflexivity | constructor].
  - reflexivity.
Qed.
