(* PythonBag: the Python-list backend's membership predicates (REGENERATED from source,
   gen/PythonContains_gen.v) are functions of the SET of elements of the list; hence invariant under
   permutation of the rows and k-fold repetition (C11, Python-list part); the empty list is in no
   identity child of Generic (C07, Python-list part). *)
From Coq Require Import List Bool Permutation.
Import ListNotations.
From V Require Import PyValues Shipped_gen PythonContains_gen.

Definition same_elements (l l' : pseq) : Prop := forall x, In x l <-> In x l'.

Lemma forallb_same (p : pval -> bool) l l' : same_elements l l' -> forallb p l = forallb p l'.
Proof.
  intro H. apply eq_true_iff_eq. rewrite !forallb_forall. split; intros Hp x Hx; apply Hp, H, Hx.
Qed.

Lemma existsb_same (p : pval -> bool) l l' : same_elements l l' -> existsb p l = existsb p l'.
Proof.
  intro H. apply eq_true_iff_eq. rewrite !existsb_exists.
  split; intros [x [Hx Hp]]; exists x; (split; [apply H, Hx | exact Hp]).
Qed.

Lemma filter_same (q : pval -> bool) l l' : same_elements l l' -> same_elements (filter q l) (filter q l').
Proof.
  intros H x. rewrite !filter_In. split; intros [Hx Hq]; (split; [apply H, Hx | exact Hq]).
Qed.

(* every occurrence of the list in an unfolded predicate is under forallb / existsb, possibly through filter *)
Ltac same_solver l l' H :=
  repeat match goal with
  | |- context [forallb ?p (filter ?q l)] => rewrite (forallb_same p (filter q l) (filter q l') (filter_same q l l' H))
  | |- context [existsb ?p (filter ?q l)] => rewrite (existsb_same p (filter q l) (filter q l') (filter_same q l l' H))
  | |- context [forallb ?p l] => rewrite (forallb_same p l l' H)
  | |- context [existsb ?p l] => rewrite (existsb_same p l l' H)
  end; reflexivity.

Theorem python_contains_same_elements :
  forall t l l', same_elements l l' -> python_contains t l = python_contains t l'.
Proof.
  intros t l l' H.
  destruct t;
    cbv - [forallb existsb filter negb andb orb pv_isinstance p_truthy p_nonneg p_abs p_exists p_image];
    same_solver l l' H.
Qed.

Lemma perm_same (l l' : pseq) : Permutation l l' -> same_elements l l'.
Proof. intros H x. split; intro Hx; [exact (Permutation_in x H Hx) | exact (Permutation_in x (Permutation_sym H) Hx)]. Qed.

Fixpoint rep (k : nat) (l : pseq) : pseq := match k with O => [] | S k' => l ++ rep k' l end.

Lemma rep_same k l : same_elements (rep (S k) l) l.
Proof.
  induction k as [|k IH]; intro x; simpl in *.
  - rewrite app_nil_r. tauto.
  - rewrite in_app_iff. specialize (IH x). simpl in IH. tauto.
Qed.

Theorem python_contains_permutation t l l' : Permutation l l' -> python_contains t l = python_contains t l'.
Proof. intro H. apply python_contains_same_elements, perm_same, H. Qed.

Theorem python_contains_repetition t k l : python_contains t (rep (S k) l) = python_contains t l.
Proof. apply python_contains_same_elements, rep_same. Qed.

(* the empty list: no type declared with an identity edge from Generic contains it *)
Definition generic_identity_child (t : ty) : bool :=
  existsb (fun d => match d with (src, inferential, _, _) => ty_eqb src tGeneric && negb inferential end) (declared t).

Definition mem_ty (t : ty) (l : list ty) : bool := existsb (ty_eqb t) l.

(* for every shipped typeset (complete_set is the largest; + EmailAddress is already in it) *)
Theorem python_empty_in_no_child_of_generic :
  forall t, mem_ty t complete_set = true -> generic_identity_child t = true -> python_contains t [] = false.
Proof. intros t; destruct t; vm_compute; congruence. Qed.

(* Numeric, which no shipped typeset includes, is a child of Generic that does contain the empty list
   (all(...) over nothing, no sequence_not_empty): a typeset built with Numeric types [] as Numeric *)
Example python_empty_numeric_refuted :
  generic_identity_child tNumeric = true /\ mem_ty tNumeric complete_set = false /\ python_contains tNumeric [] = true.
Proof. vm_compute. repeat split. Qed.

Theorem python_generic_contains_everything : forall l, python_contains tGeneric l = true.
Proof. reflexivity. Qed.

(* non-vacuity: lists on which the answers are not constant *)
Example python_bag_nonvacuous :
  let i := mkP PInt true true false false false in
  let s := mkP PStr true false false false false in
  let z := mkP PInt false true false false false in
  python_contains tInteger [i; i] = true /\ python_contains tInteger [i; s] = false /\
  python_contains tObject [i; s] = true /\ python_contains tObject [s; i] = true /\
  python_contains tString [s; z] = true /\ python_contains tString [z; s] = true /\
  generic_identity_child tInteger = true /\ generic_identity_child tCount = false.
Proof. vm_compute. repeat split. Qed.
