(* C20 - The LRU cache helper is transparent and bounded.
   Property theorems only: each is closed by [exact] of a lemma proved elsewhere and followed
   by Print Assumptions.  The objects are the GENERATED closure of utils/cache.py
   (gen/Cache_gen.v): [fresh h f cap] is what lru_cache(hash_func, max_length)(func) builds,
   [gen_run] calls it once per element of the history. *)
From Coq Require Import List Bool ZArith.
Import ListNotations.
From V Require Import PyBase LruSpec Cache_gen LruImpl.

(* For every key type with a decidable equality, every capacity >= 1, every wrapped function
   [f] and key function [h] that does not conflate calls with different results, and EVERY
   history of calls on which f returns: each call returns exactly f's value; the cache never
   holds more than cap entries nor two entries for a key; its keys are, in order, the [cap]
   most recently used distinct keys of the history (so the evicted key is always the least
   recently used one); every cached value is f's value for that key. *)
Theorem C20_transparent_bounded_lru :
  forall (A K V : Type) (K_eqb : K -> K -> bool),
    (forall x y, K_eqb x y = true <-> x = y) ->
  forall (h : A -> K) (f : A -> res V) (cap : Z),
    (1 <= cap)%Z -> (forall a b, h a = h b -> f a = f b) ->
  forall hist : list A,
    (forall a, In a hist -> exists v, f a = Ok v) ->
    exists vs s',
      gen_run K_eqb (fresh h f cap) hist = Ok (vs, s') /\
      map (@Ok V) vs = map f hist /\
      (Z.of_nat (length (cache s')) <= cap)%Z /\
      NoDup (map fst (cache s')) /\
      map fst (cache s') = lru_keys K_eqb (Z.to_nat cap) (map h hist) /\
      (forall k v, In (k, v) (cache s') -> forall a, h a = k -> f a = Ok v).
Proof. exact @lru_all_histories. Qed.
Print Assumptions C20_transparent_bounded_lru.

(* The wrapped function is consulted only on a miss: two wrapped functions that agree on the
   calls that are misses of an abstract LRU cache of that capacity produce the same results
   and the same cache contents, whatever they would return on the hits. *)
Theorem C20_recompute_only_on_miss :
  forall (A K V : Type) (K_eqb : K -> K -> bool),
    (forall x y, K_eqb x y = true <-> x = y) ->
  forall (h : A -> K) (f f' : A -> res V) (cap : Z) (hist : list A),
    (1 <= cap)%Z ->
    (forall a, In a (misses_from K_eqb h (Z.to_nat cap) [] hist) -> f a = f' a) ->
    match gen_run K_eqb (fresh h f cap) hist, gen_run K_eqb (fresh h f' cap) hist with
    | Ok (vs, s), Ok (vs', s') => vs = vs' /\ cache s = cache s'
    | Raise e, Raise e' => e = e'
    | _, _ => False
    end.
Proof. exact @lru_recompute_only_on_miss. Qed.
Print Assumptions C20_recompute_only_on_miss.

(* Non-vacuity: a concrete history over 4 keys with capacity 2 meets every hypothesis and the
   conclusion can be computed. *)
Example C20_example :
  let f := fun n : nat => Ok (n * n) in
  exists s', gen_run Nat.eqb (fresh (fun n => n) f 2) [1; 2; 1; 3; 2; 4]
             = Ok ([1; 4; 1; 9; 4; 16], s') /\ map fst (cache s') = [2; 4]
             /\ lru_keys Nat.eqb 2 [1; 2; 1; 3; 2; 4] = [2; 4]
             /\ misses_from Nat.eqb (fun n => n) 2 [] [1; 2; 1; 3; 2; 4] = [1; 2; 3; 2; 4].
Proof. eexists. vm_compute. repeat split. Qed.
