"""C16 - membership is upward closed: types are nested sets."""
import json
import random
import warnings

import numpy as np

from . import absmodel
from . import common as C
from . import gen_shipped, oracle, streams

PROP = "C16"
PROP_FILE = "props/C16.v"
TARGETS = ["props/C16.vo", "findings/C16_refuted.vo", "extract/RunnerPandas.vo"]


def type_table():
    import visions
    names = ["Generic"] + sorted(n for n in gen_shipped.shipped_types(C.REPO) if n != "Generic")
    return names, [getattr(visions.types, n) for n in names]


def check_one(x, names, types, par, backend, ts):
    """upward closure + 'containing types = detection path' on one sequence"""
    fails = []
    vec = absmodel.real_vector(x, types)
    inn = {n for n, v in zip(names, vec) if v == 1}
    for n in sorted(inn):
        p = par.get(n)
        if p is not None and p not in inn:
            fails.append({"what": f"sequence is contained in {n} but not in its identity parent {p}", "class": f"closure:{n}->{p}", "child": n, "parent": p, "backend": backend})
    if ts is not None and not fails:
        try:
            path = {t.__name__ for t in ts.detect(x)[1]}
        except Exception:  # noqa
            path = None
        if path is not None:
            tsn = {t.__name__ for t in ts.types}
            if (inn & tsn) != path:
                fails.append({"what": f"types of the typeset containing the sequence {sorted(inn & tsn)} differ from the detection path {sorted(path)}",
                              "class": "chain-vs-path:" + ",".join(sorted((inn & tsn) ^ path)), "backend": backend})
    return fails, vec


def fs_history(ctx):
    """File-system histories for the types whose membership reads the disk (Path > File > Image): membership is asked while
    the files exist, a file is removed / replaced / created, and membership is asked again.  Whatever the history, a
    sequence contained in a type is contained in its identity parent at that moment."""
    import os
    import pathlib
    import shutil
    import tempfile
    import pandas as pd
    txt, png = streams.fixtures()
    fails = []
    d = tempfile.mkdtemp(prefix="c16fs")
    try:
        a, b, c = os.path.join(d, "a.png"), os.path.join(d, "b.png"), os.path.join(d, "c.txt")
        l, sub = os.path.join(d, "link.png"), os.path.join(d, "sub")          # a symbolic link to an image, a directory
        steps = [("create a.png b.png c.txt, link.png -> a.png, sub/", lambda: (shutil.copy(png, a), shutil.copy(png, b), shutil.copy(txt, c), os.symlink(a, l), os.mkdir(sub))),
                 ("remove b.png", lambda: os.remove(b)),
                 ("replace a.png by text", lambda: shutil.copy(txt, a)),
                 ("re-create b.png", lambda: shutil.copy(png, b)),
                 ("remove everything", lambda: [os.remove(x) for x in (a, b, c, l) if os.path.lexists(x)])]
        seqs = {"[a, b]": [a, b], "[b, a]": [b, a], "[a]": [a], "[b]": [b], "[c]": [c], "[a, c]": [a, c], "[b, c, a]": [b, c, a], "[c, b, a, b]": [c, b, a, b],
                "[link]": [l], "[link, a]": [l, a], "[sub]": [sub], "[sub, a]": [sub, a]}
        done = []
        for desc, act in steps:
            act()
            done.append(desc)
            for nm, ps in seqs.items():
                for mk, label in ((lambda ps: pd.Series([pathlib.Path(x) for x in ps]), "pandas"), (lambda ps: [pathlib.Path(x) for x in ps], "list")):
                    x = mk(ps)
                    vec = absmodel.real_vector(x, ctx["types"])
                    inn = {n for n, v in zip(ctx["names"], vec) if v == 1}
                    for n in sorted(inn):
                        p_ = ctx["par"].get(n)
                        if p_ is not None and p_ not in inn:
                            fails.append({"what": f"after the file-system history {done}, the paths {nm} are contained in {n} but not in its identity parent {p_}",
                                          "class": f"closure-after-fs-history:{n}->{p_}", "child": n, "parent": p_, "backend": label, "history": "fs"})
    finally:
        shutil.rmtree(d, ignore_errors=True)
    return fails


def oracle_fn(ctx, item, s):
    fails, vec = check_one(s, ctx["names"], ctx["types"], ctx["par"], "pandas", ctx["complete"])
    ctx["vectors"].append((item, s, vec))
    if ctx.get("numpy", True):
        arrs = []
        try:
            arrs.append(s.to_numpy())
        except Exception:  # noqa
            pass
        if item["family"] in ("bx", "special", "cross") and len(s) <= 3:
            # numpy-only dtypes: fixed-width unicode / bytes, object
            for dt in ("U", "S", object):
                try:
                    arrs.append(np.array(list(s), dtype=dt))
                except Exception:  # noqa
                    pass
        for arr in arrs:
            if isinstance(arr, np.ndarray) and arr.ndim == 1:
                f2, _ = check_one(arr, ctx["np_names"], ctx["np_types"], ctx["par"], "numpy", None)
                for f in f2:
                    f["numpy_dtype"] = str(arr.dtype)
                    f["numpy_expr"] = f"np.array(list({item['recipe']}), dtype={arr.dtype.str!r})"
                fails += f2
    return fails


def replay(path):
    r = json.load(open(path))
    if r.get("history") == "fs":
        names, types = type_table()
        with warnings.catch_warnings():
            warnings.simplefilter("ignore")
            f = fs_history({"names": names, "types": types, "par": streams.identity_parent()})
        print("replay:", [x["what"] for x in f][:3] if f else "property holds on this history")
        return 1 if f else 0
    if "recipe" not in r:
        print("replay names a broken obligation, no input to re-run:", [o["name"] for o in r.get("broken_obligations", [])])
        return 1
    f = replay_entry({"replay": r})
    print("replay:", [x["what"] for x in f] if f else "property holds on this input")
    return 1 if f else 0


def replay_entry(e):
    r = e.get("replay", {})
    if "recipe" not in r:
        return [True]
    names, types = type_table()
    s = streams.materialise({"recipe": r["recipe"]})
    x = s.to_numpy() if r.get("backend") == "numpy" else s
    with warnings.catch_warnings():
        warnings.simplefilter("ignore")
        fs, _ = check_one(x, names, types, streams.identity_parent(), r.get("backend", "pandas"), streams.shipped_typesets()["CompleteSet"])
    if e.get("classifier"):
        from . import known
        fs = [f for f in fs if getattr(known, e["classifier"])(dict(f, recipe=r["recipe"]))]
    return fs


def numpy_types():
    import visions
    names = ["Generic", "Boolean", "Complex", "DateTime", "Float", "Integer", "Object", "String", "TimeDelta"]
    return names, [getattr(visions.types, n) for n in names]


def run(args):
    if args.replay:
        return replay(args.replay)
    run = C.Run(PROP, args.tier, args.seed)
    rnd = random.Random(args.seed)
    info = C.std_coq_phase(run, ["shipped", "pandas"], TARGETS, PROP_FILE, finding_files=[])
    deep = args.tier == "thorough" or bool(run.failed_obligations())
    items = streams.all_streams(rnd, "quick", n_fam=12000 if deep else 1500, n_mixed=4000 if deep else 500)
    names, types = type_table()
    npn, npt = numpy_types()
    ctx = {"names": names, "types": types, "par": streams.identity_parent(), "complete": streams.shipped_typesets()["CompleteSet"],
           "np_names": npn, "np_types": npt, "vectors": []}
    new, seen_known, kn = oracle.run_oracle(run, PROP, items, oracle_fn, ctx)
    with warnings.catch_warnings():
        warnings.simplefilter("ignore")
        new += [f for f in fs_history(ctx) if oracle.classify(PROP, f, kn) is None][:3]
    run.cov["fs_histories"] = "create/remove/replace/re-create image and text files between membership tests of Path/File/Image (pandas + list)"
    # ---- correspondence: generated predicates (extracted) vs `series in T` for all 24 types
    if info["build_ok"] and info["gen"]["pandas"]["ok"]:
        ok, out = C.build_driver("pandas")
        run.oblig("extract+link driver pandas (ExtrOcamlBasic)", "correspondence", ok, out[-400:])
        if ok:
            lines, meta, outside, bad_facts = [], [], 0, []
            for it, s, vec in ctx["vectors"]:
                try:
                    with warnings.catch_warnings():
                        warnings.simplefilter("ignore")
                        a = absmodel.abstract(s)
                except absmodel.OutsideUniverse:
                    outside += 1
                    continue
                except Exception:  # noqa
                    outside += 1
                    continue
                if a[3] and not a[6]:
                    bad_facts.append(it["recipe"])        # dfacts_ok: unsigned implies integer
                lines.append(" ".join(map(str, a)))
                meta.append((it, vec))
            res = C.run_driver("pandas", lines)
            mism = []
            for (it, vec), line in zip(meta, res):
                m = [int(x) for x in line.split(",")]
                if m != vec:
                    d = [(n, a, b) for n, a, b in zip(names, m, vec) if a != b]
                    mism.append({"recipe": it["recipe"], "differences (type, model, implementation)": d})
            run.oblig(f"correspondence: generated contains_ops (extracted) vs `series in T` for all {len(names)} shipped types on {len(lines)} abstracted series "
                      f"({outside} generated series fall outside the model's universe and are only judged by the oracle)", "correspondence", not mism, mism[:3])
            run.oblig("measured dtype facts satisfy dfacts_ok (unsigned-integer dtypes are integer dtypes) on every abstracted series", "correspondence", not bad_facts, bad_facts[:2])
            run.cov["traces_validated_against_impl"] = len(lines)
            run.cov["disagreements_checked"] = len(mism)
            run.cov["outside_model_universe"] = outside
    nviol = oracle.report(run, PROP, new, seen_known, kn, replay_known=lambda e: bool(replay_entry(e)))
    if not nviol and run.failed_obligations():
        rep = {"broken_obligations": run.failed_obligations(),
               "searched": f"{run.cov.get('property_oracle_cases_on_impl')} sequences x all identity edges (pandas and numpy) on the implementation: no new failing input"}
        if info["gen"].get("pandas", {}).get("changed_vs_golden"):
            rep["model_diff_vs_golden"] = C.golden_diff("PandasContains_gen.v")
        run.violation(rep, no_input=True)
    run.cov["rule"] = ("shared streams incl. every value pool under every dtype; for each sequence `in T` for all 24 types: child => parent for every identity edge, containing types = detection path; "
                       "same on numpy arrays for the types the numpy backend implements; distinct_nontrivial = distinct (family, pool, dtype, nulls) cells")
    run.cov["samples"] = [items[7]["recipe"], items[-3]["recipe"]]
    run.cov["trusted_base"] += [
        "translators vfw/gen_pandas.py (series_utils.py decorators, every pandas contains_op) and vfw/gen_shipped.py - regenerated this run",
        "coq/lib/Values.v: abstraction of a Series to (answers of the pandas.api.types predicates, value kinds with flags); vfw/absmodel.py computes it and checks hasnans/dropna/iteration agree with pandas on every series",
        "measured, not verified: isinstance / class-name / hasattr facts per value kind (gen/PandasContains_gen.v k_*), astype(str) behaviour (str_roundtrip_all), dfacts_ok",
        "objects with adversarial __eq__/__class__/__getattr__, and series whose dtype predicates change under dropna, are outside the model's universe (counted in evidence)",
        "numpy backend: oracle only (no Coq model of the numpy predicates yet)",
    ]
    return run.finish("proof")
