(* Corners outside C20's quantifier (capacity >= 1, distinct keys), stated so they are not hidden. *)
From Coq Require Import List Bool ZArith.
Import ListNotations.
From V Require Import PyBase LruSpec Cache_gen LruImpl.

(* max_length = 0: the freshly stored entry is evicted at once and get raises KeyError. *)
Example lru_cap0_refuted :
  exists hist, gen_run Nat.eqb (fresh (fun n : nat => n) (fun n => Ok n) 0) hist = Raise KeyError.
Proof. exists [1]. vm_compute. reflexivity. Qed.

(* a key function that conflates two calls with different results breaks transparency. *)
Example lru_collision_refuted :
  exists hist vs s, gen_run Nat.eqb (fresh (fun _ : nat => 0) (fun n => Ok n) 2) hist = Ok (vs, s)
                    /\ map (@Ok nat) vs <> map (fun n => Ok n) hist.
Proof. exists [1; 2]. eexists. eexists. split; [vm_compute; reflexivity | discriminate]. Qed.
