(* Theorems about the reference LRU (spec/LruSpec.v): for every history of calls,
   transparency, capacity bound, LRU eviction order and "f matters only at misses". *)
From Coq Require Import List Bool ZArith Lia.
Import ListNotations.
From V Require Import PyBase LruSpec.
Open Scope py_scope.

Section LruTheory.
  Context {A K V : Type} (K_eqb : K -> K -> bool).
  Hypothesis K_eqb_spec : forall x y, K_eqb x y = true <-> x = y.
  Variable h : A -> K.

  Lemma K_eqb_refl k : K_eqb k k = true.
  Proof. apply K_eqb_spec; reflexivity. Qed.

  Lemma K_eqb_false x y : K_eqb x y = false <-> x <> y.
  Proof.
    split; intro H.
    - intro E. apply K_eqb_spec in E. congruence.
    - destruct (K_eqb x y) eqn:E; [|reflexivity]. apply K_eqb_spec in E. contradiction.
  Qed.

  Lemma mem_key_In k l : mem_key K_eqb k l = true <-> In k l.
  Proof.
    unfold mem_key. rewrite existsb_exists. split.
    - intros [x [Hx E]]. apply K_eqb_spec in E. subst. exact Hx.
    - intro H. exists k. split; [exact H | apply K_eqb_refl].
  Qed.

  Lemma find_none (st : @od K V) k : od_find K_eqb st k = None <-> ~ In k (map fst st).
  Proof.
    induction st as [|[k' v'] st IH]; simpl.
    - split; auto.
    - destruct (K_eqb k k') eqn:E.
      + apply K_eqb_spec in E. subst. split; [discriminate | intro H; exfalso; apply H; left; reflexivity].
      + apply K_eqb_false in E. rewrite IH. split; intro H.
        * intros [H1|H1]; [congruence | contradiction].
        * intro H1. apply H. right. exact H1.
  Qed.

  Lemma find_some (st : @od K V) k v : od_find K_eqb st k = Some v -> In (k, v) st.
  Proof.
    induction st as [|[k' v'] st IH]; simpl; [discriminate|].
    destruct (K_eqb k k') eqn:E.
    - apply K_eqb_spec in E. subst. intro H; inversion H; subst. left; reflexivity.
    - intro H. right. apply IH. exact H.
  Qed.

  Lemma find_mem (st : @od K V) k :
    mem_key K_eqb k (map fst st) = match od_find K_eqb st k with Some _ => true | None => false end.
  Proof.
    destruct (od_find K_eqb st k) eqn:E.
    - apply mem_key_In. apply find_some in E. apply in_map with (f := fst) in E. exact E.
    - apply find_none in E. destruct (mem_key K_eqb k (map fst st)) eqn:M; [|reflexivity].
      apply mem_key_In in M. contradiction.
  Qed.

  Lemma keys_remove (st : @od K V) k :
    map fst (od_remove K_eqb st k) = remove_key K_eqb k (map fst st).
  Proof.
    induction st as [|[k' v'] st IH]; simpl; [reflexivity|].
    destruct (K_eqb k k'); simpl; [reflexivity | rewrite IH; reflexivity].
  Qed.

  Lemma In_remove_key x k l : In x (remove_key K_eqb k l) -> In x l.
  Proof.
    induction l as [|y l IH]; simpl; [auto|].
    destruct (K_eqb k y); simpl; intro H; [right; exact H|].
    destruct H as [H|H]; [left; exact H | right; apply IH; exact H].
  Qed.

  Lemma In_od_remove (x : K * V) k st : In x (od_remove K_eqb st k) -> In x st.
  Proof.
    induction st as [|[k' v'] st IH]; simpl; [auto|].
    destruct (K_eqb k k'); simpl; intro H; [right; exact H|].
    destruct H as [H|H]; [left; exact H | right; apply IH; exact H].
  Qed.

  Lemma NoDup_remove_key k l : NoDup l -> NoDup (remove_key K_eqb k l) /\ ~ In k (remove_key K_eqb k l).
  Proof.
    induction l as [|y l IH]; simpl; intro ND.
    - split; [constructor | auto].
    - inversion ND as [|? ? Hy ND']; subst. destruct (K_eqb k y) eqn:E.
      + apply K_eqb_spec in E. subst. split; assumption.
      + apply K_eqb_false in E. destruct (IH ND') as [IH1 IH2]. split.
        * constructor; [|exact IH1]. intro H. apply Hy. eapply In_remove_key. exact H.
        * intros [H|H]; [congruence | contradiction].
  Qed.

  Lemma length_remove_key k l : In k l -> S (length (remove_key K_eqb k l)) = length l.
  Proof.
    induction l as [|y l IH]; simpl; [contradiction|].
    destruct (K_eqb k y) eqn:E; [reflexivity|]. apply K_eqb_false in E.
    intros [H|H]; [congruence|]. simpl. rewrite IH; auto.
  Qed.

  Lemma NoDup_app_single (l : list K) k : NoDup l -> ~ In k l -> NoDup (l ++ [k]).
  Proof.
    induction l as [|y l IH]; simpl; intros ND Hk.
    - constructor; [auto | constructor].
    - inversion ND; subst. constructor.
      + rewrite in_app_iff. simpl. intros [H|[H|[]]]; [contradiction|]. apply Hk. left. symmetry. exact H.
      + apply IH; [assumption|]. intro H. apply Hk. right. exact H.
  Qed.

  Lemma map_tl {X Y} (g : X -> Y) (l : list X) : map g (tl l) = tl (map g l).
  Proof. destruct l; reflexivity. Qed.

  Lemma NoDup_tl (l : list K) : NoDup l -> NoDup (tl l).
  Proof. destruct l; simpl; [auto|]. intro H; inversion H; assumption. Qed.

  (* -------------------------------------------------------------------------------- *)
  Section WithF.
    Variable f : A -> res V.
    Variable cap : Z.
    Hypothesis cap_pos : (1 <= cap)%Z.
    (* the key function does not conflate two calls with different results *)
    Hypothesis f_respects_key : forall a b, h a = h b -> f a = f b.

    Definition Inv (st : @od K V) : Prop :=
      NoDup (map fst st) /\
      (Z.of_nat (length st) <= cap)%Z /\
      (forall k v, In (k, v) st -> forall a, h a = k -> f a = Ok v).

    Lemma Inv_nil : Inv [].
    Proof. repeat split; simpl; [constructor | lia | intros k v []]. Qed.

    Lemma spec_get_step st a v0 :
      Inv st -> f a = Ok v0 ->
      exists st', spec_get K_eqb h f cap st a = Ok (v0, st') /\ Inv st' /\
                  map fst st' = touch K_eqb (Z.to_nat cap) (map fst st) (h a).
    Proof.
      intros [ND [Hlen Hval]] Hf. unfold spec_get, touch. rewrite find_mem.
      destruct (od_find K_eqb st (h a)) as [v|] eqn:E.
      - (* hit *)
        pose proof (find_some _ _ _ E) as Hin.
        assert (v = v0) as -> by (specialize (Hval _ _ Hin a eq_refl); congruence).
        eexists. split; [reflexivity|]. split.
        + destruct (NoDup_remove_key (h a) _ ND) as [ND1 ND2]. repeat split.
          * rewrite map_app, keys_remove. simpl. apply NoDup_app_single; assumption.
          * rewrite app_length. simpl.
            assert (S (length (od_remove K_eqb st (h a))) = length st) as L.
            { rewrite <- (map_length fst), keys_remove, <- (map_length fst st).
              apply length_remove_key. apply in_map with (f := fst) in Hin. exact Hin. }
            lia.
          * intros k v Hkv b Hb. apply in_app_iff in Hkv. destruct Hkv as [Hkv|[Hkv|[]]].
            -- apply (Hval k v); [eapply In_od_remove; exact Hkv | exact Hb].
            -- injection Hkv as Hk1 Hv1. rewrite <- Hv1. rewrite (f_respects_key b a); [exact Hf | congruence].
        + rewrite map_app, keys_remove. reflexivity.
      - (* miss *)
        apply find_none in E. rewrite Hf. simpl.
        eexists. split; [reflexivity|].
        assert (Hk : Nat.ltb (Z.to_nat cap) (length (map fst st ++ [h a]))
                     = Z.gtb (py_len (st ++ [(h a, v0)])) cap).
        { unfold py_len. rewrite !app_length, map_length. simpl.
          destruct (Nat.ltb_spec (Z.to_nat cap) (length st + 1));
            destruct (Z.gtb_spec (Z.of_nat (length st + 1)) cap); try reflexivity; lia. }
        assert (ND' : NoDup (map fst (st ++ [(h a, v0)]))).
        { rewrite map_app. simpl. apply NoDup_app_single; assumption. }
        assert (Hval' : forall k v, In (k, v) (st ++ [(h a, v0)]) -> forall b, h b = k -> f b = Ok v).
        { intros k v Hkv b Hb. apply in_app_iff in Hkv. destruct Hkv as [Hkv|[Hkv|[]]].
          - apply (Hval k v); assumption.
          - injection Hkv as Hk1 Hv1. rewrite <- Hv1. rewrite (f_respects_key b a); [exact Hf | congruence]. }
        rewrite Hk. destruct (Z.gtb (py_len (st ++ [(h a, v0)])) cap) eqn:G.
        + split.
          * repeat split.
            -- rewrite map_tl. apply NoDup_tl. exact ND'.
            -- unfold py_len in G. rewrite app_length in G. simpl in G.
               destruct st as [|p st]; simpl in *; [lia|]. rewrite app_length. simpl. lia.
            -- intros k v Hkv. apply Hval'. destruct (st ++ [(h a, v0)]); simpl in *; [contradiction | right; exact Hkv].
          * rewrite map_tl, map_app. reflexivity.
        + split.
          * repeat split; [exact ND' | | exact Hval'].
            unfold py_len in G. destruct (Z.gtb_spec (Z.of_nat (length (st ++ [(h a, v0)]))) cap); [discriminate | lia].
          * rewrite map_app. reflexivity.
    Qed.

    (* every history of calls on which f is defined *)
    Lemma spec_run_correct hist : forall st,
      Inv st -> (forall a, In a hist -> exists v, f a = Ok v) ->
      exists vs st', spec_run K_eqb h f cap st hist = Ok (vs, st') /\
                     map (@Ok V) vs = map f hist /\ Inv st' /\
                     map fst st' = fold_left (touch K_eqb (Z.to_nat cap)) (map h hist) (map fst st).
    Proof.
      induction hist as [|a hist IH]; intros st HI Hf; simpl.
      - exists [], st. repeat split; try reflexivity; apply HI.
      - destruct (Hf a (or_introl eq_refl)) as [v0 Hv0].
        destruct (spec_get_step st a v0 HI Hv0) as [st1 [E1 [HI1 K1]]].
        destruct (IH st1 HI1 (fun b Hb => Hf b (or_intror Hb))) as [vs [st2 [E2 [R2 [HI2 K2]]]]].
        exists (v0 :: vs), st2. rewrite E1. simpl. rewrite E2. simpl.
        repeat split; try apply HI2.
        + rewrite R2, Hv0. reflexivity.
        + rewrite K2, K1. reflexivity.
    Qed.
  End WithF.

  (* f is consulted only at the misses of the abstract LRU: two wrapped functions that agree
     there give the same run (results and cache contents), whatever they do elsewhere. *)
  Lemma spec_run_only_misses (f f' : A -> res V) cap hist : forall st,
    (forall a, In a (misses_from K_eqb h (Z.to_nat cap) (map fst st) hist) -> f a = f' a) ->
    (1 <= cap)%Z ->
    (* lock-step: both runs keep the same contents, hence the same keys *)
    spec_run K_eqb h f cap st hist = spec_run K_eqb h f' cap st hist.
  Proof.
    induction hist as [|a hist IH]; intros st Hagree Hc; simpl; [reflexivity|].
    simpl in Hagree. rewrite find_mem in Hagree.
    assert (E : spec_get K_eqb h f cap st a = spec_get K_eqb h f' cap st a).
    { unfold spec_get. destruct (od_find K_eqb st (h a)); [reflexivity|].
      rewrite (Hagree a) by (simpl; left; reflexivity). reflexivity. }
    rewrite E. destruct (spec_get K_eqb h f' cap st a) as [[v st1]|e] eqn:G; simpl; [|reflexivity].
    rewrite (IH st1); [reflexivity | | exact Hc].
    intros b Hb. apply Hagree. apply in_or_app. right.
    (* keys of st1 = touch (keys st) (h a) : recomputed directly from spec_get *)
    assert (K1 : map fst st1 = touch K_eqb (Z.to_nat cap) (map fst st) (h a)).
    { clear - G K_eqb_spec. unfold spec_get in G. unfold touch. rewrite find_mem.
      destruct (od_find K_eqb st (h a)) as [v1|].
      - inversion G; subst. rewrite map_app, keys_remove. reflexivity.
      - destruct (f' a) as [v1|]; simpl in G; [|discriminate]. inversion G; subst.
        assert (Hk : Nat.ltb (Z.to_nat cap) (length (map fst st ++ [h a]))
                     = Z.gtb (py_len (st ++ [(h a, v)])) cap).
        { unfold py_len. rewrite !app_length, map_length. simpl.
          destruct (Nat.ltb_spec (Z.to_nat cap) (length st + 1));
            destruct (Z.gtb_spec (Z.of_nat (length st + 1)) cap); try reflexivity; lia. }
        rewrite Hk. destruct (Z.gtb _ _); [rewrite map_tl|]; rewrite map_app; reflexivity. }
    rewrite <- K1. exact Hb.
  Qed.
End LruTheory.
