(* Facts about the insertion-ordered dict model, used by bridge proofs. *)
From Coq Require Import List Bool ZArith Lia.
Import ListNotations.
From V Require Import PyBase.

Section OdFacts.
  Context {K V : Type} (eqb : K -> K -> bool).
  Hypothesis eqb_spec : forall x y, eqb x y = true <-> x = y.

  Lemma eqb_refl k : eqb k k = true.
  Proof. apply eqb_spec; reflexivity. Qed.

  Lemma od_contains_find (d : @od K V) k :
    od_contains eqb d k = match od_find eqb d k with Some _ => true | None => false end.
  Proof. reflexivity. Qed.

  Lemma od_setitem_fresh (d : @od K V) k v :
    od_find eqb d k = None -> od_setitem eqb d k v = d ++ [(k, v)].
  Proof.
    induction d as [|[k' v'] d IH]; simpl; [reflexivity|].
    destruct (eqb k k'); [discriminate|]. intro H. rewrite IH; auto.
  Qed.

  Lemma od_find_app_fresh (d : @od K V) k v :
    od_find eqb d k = None -> od_find eqb (d ++ [(k, v)]) k = Some v.
  Proof.
    induction d as [|[k' v'] d IH]; simpl.
    - rewrite eqb_refl. reflexivity.
    - destruct (eqb k k'); [discriminate | exact IH].
  Qed.

  Lemma od_remove_app_fresh (d : @od K V) k v :
    od_find eqb d k = None -> od_remove eqb (d ++ [(k, v)]) k = d.
  Proof.
    induction d as [|[k' v'] d IH]; simpl.
    - rewrite eqb_refl. reflexivity.
    - destruct (eqb k k'); [discriminate|]. intro H. rewrite IH; auto.
  Qed.

  Lemma od_find_tl_none (d : @od K V) k : od_find eqb d k = None -> od_find eqb (tl d) k = None.
  Proof. destruct d as [|[k' v'] d]; simpl; [auto|]. destruct (eqb k k'); [discriminate | auto]. Qed.

  Lemma od_delitem_first k v (d : @od K V) : od_delitem eqb ((k, v) :: d) k = Ok d.
  Proof. unfold od_delitem, od_contains. simpl. rewrite eqb_refl. reflexivity. Qed.
End OdFacts.
