(* C08 - A DataFrame is typed as independent columns; functional API equals the methods.
   Object: the GENERATED _traverse_graph_dataframe / VisionsTypeset.* / functional.* . *)
From Coq Require Import List Bool ZArith.
Import ListNotations.
From V Require Import PyBase NxModel WalkSpec Engine_gen Engine_bridge Frame_bridge EngineTheory.
Open Scope py_scope.

(* what typeset.detect / typeset.infer return for ONE Series [s] on graph [g] *)
Definition series_result {T D St L F} (X : ctx T D St L F) g fuel root (s : D) :=
  walk (succ_of X g) fuel root s (empty_state X tt) [].

(* For every frame with unique column labels, every type system and every graph: the data,
   path and state components of the frame result are - label for label, in the original column
   order - the results of traversing each column on its own as a Series (new path, new state
   dict per column; no column's result mentions another column).  Re-assembly of the data is
   pd.DataFrame(dict of the per-column results) [frame_of_dict]. *)
Theorem C08_frame_is_independent_columns :
  forall (T D St L F : Type) (X : ctx T D St L F),
    (forall a b, L_eqb X a b = true <-> a = b) ->
  forall fuel df root g,
    NoDup (frame_columns X df) ->
    _traverse_graph_dataframe X fuel df root g =
    (cols <- map_res (fun col => s <- frame_getitem X df col ;;
                                r <- series_result X g fuel root s ;; ret (col, r))
                     (frame_columns X df) ;;
     ret (frame_of_dict X (map (fun kv => (fst kv, fst (fst (snd kv)))) cols),
          map (fun kv => (fst kv, snd (fst (snd kv)))) cols,
          map (fun kv => (fst kv, snd (snd kv))) cols)).
Proof. intros T D St L F X HL fuel df root g ND. exact (dataframe_is_columns X HL fuel df root g ND). Qed.
Print Assumptions C08_frame_is_independent_columns.

(* the typeset methods on a frame run that traversal from the typeset's root on base_graph /
   relation_graph, and on a Series they run [series_result] on the same root and graph *)
Theorem C08_methods_on_frames_and_series :
  forall (T D St L F : Type) (X : ctx T D St L F) fuel ts df s,
    VT_detect_frame X fuel ts df =
      (r <- root_of X ts ;; out <- _traverse_graph_dataframe X fuel df r (base_graph ts) ;; ret (out, with_root ts r)) /\
    VT_infer_frame X fuel ts df =
      (r <- root_of X ts ;; out <- _traverse_graph_dataframe X fuel df r (relation_graph ts) ;; ret (out, with_root ts r)) /\
    VT_detect X fuel ts s =
      (r <- root_of X ts ;; out <- series_result X (base_graph ts) fuel r s ;; ret (out, with_root ts r)) /\
    VT_infer X fuel ts s =
      (r <- root_of X ts ;; out <- series_result X (relation_graph ts) fuel r s ;; ret (out, with_root ts r)).
Proof.
  intros.
  exact (conj (VT_detect_frame_eq X fuel ts df) (conj (VT_infer_frame_eq X fuel ts df)
        (conj (VT_detect_eq X fuel ts s) (VT_infer_eq X fuel ts s)))).
Qed.
Print Assumptions C08_methods_on_frames_and_series.

(* functional.detect_type / infer_type / cast_to_detected / cast_to_inferred are the methods *)
Theorem C08_functional_equals_methods :
  forall (T D St L F : Type) (X : ctx T D St L F) fuel ts d,
    functional_detect_type X fuel d ts = VT_detect_type X fuel ts d /\
    functional_infer_type X fuel d ts = VT_infer_type X fuel ts d /\
    functional_cast_to_detected X fuel d ts = VT_cast_to_detected X fuel ts d /\
    functional_cast_to_inferred X fuel d ts = VT_cast_to_inferred X fuel ts d.
Proof. intros. exact (functional_eq X fuel ts d). Qed.
Print Assumptions C08_functional_equals_methods.

(* Non-vacuity: a two-column frame over the example type system of C12. *)
Definition fx_rel (rt ty : nat) (g : list nat -> bool) : relation nat (list nat) (list nat) :=
  mkRel rt ty false (fun d st => Ok (g d, st ++ [ty])) (fun d st => Ok (d, st)).
Definition fx_ctx : ctx nat (list nat) (list nat) nat (list (nat * list nat)) :=
  mkCtx Nat.eqb Nat.eqb
    (fun t => match t with
              | 1 => [fx_rel 0 1 (forallb (fun x => Nat.ltb x 10))]
              | 2 => [fx_rel 0 2 (forallb (fun x => Nat.leb 10 x))]
              | _ => [] end)
    (fun _ _ st => Ok (true, st)) (fun t => Nat.eqb t 0) 0 (fun l => l) (fun _ => [])
    (fun d => Z.of_nat (length d)) (fun d _ => d) (map fst) (fun f c => od_getitem Nat.eqb f c) (fun l => l) (fun l => l)
    (fun _ _ => Raise KeyError) (fun t => Z.of_nat t) (fun _ _ => 0%Z).
Example C08_example :
  exists ts w, VT_init fx_ctx (VT_blank fx_ctx) [0; 1; 2] [] = Ok (tt, ts, w) /\
    NoDup (frame_columns fx_ctx [(7, [1; 2]); (5, [11])]) /\
    exists ts', VT_detect_frame fx_ctx 4 ts [(7, [1; 2]); (5, [11])]
                = Ok (([(7, [1; 2]); (5, [11])], [(7, [0; 1]); (5, [0; 2])], [(7, [1]); (5, [1; 2])]), ts').
Proof.
  eexists. eexists. split; [vm_compute; reflexivity|]. split.
  - repeat constructor; simpl; intuition discriminate.
  - eexists. vm_compute. reflexivity.
Qed.
