(* DetectWF: detection soundness (C01) for typesets built by the generated constructor, with no hypothesis on the
   graph: the hypotheses are on the relation TABLE (table facts + identity relations use the default guard =
   the declaring type's contains_op and the identity transformer). *)
From Coq Require Import List Bool ZArith Lia Permutation Arith.
Import ListNotations.
From V Require Import PyBase NxModel NxFacts WalkSpec Engine_gen Engine_bridge Graph_bridge EngineTheory GraphWF AlgebraTheory.
Open Scope py_scope.

Section DetectWF.
  Context {T D St L F : Type} (X : ctx T D St L F) (rk : T -> nat) (H : table_ok X rk).
  Variable cont : T -> D -> bool.
  (* T5: identity relations are declared without explicit relationship / transformer *)
  Hypothesis Hdefault : forall t r, In r (relations X t) -> inferential r = false ->
    (forall d st, relationship r d st = Ok (cont t d, st)) /\ (forall d st, transformer r d st = Ok (d, st)).

  Definition identity_parent_of (u v : T) : Prop := exists r, In r (relations X v) /\ related_type r = u /\ inferential r = false.

  Fixpoint parent_chain (a : T) (rest : list T) : Prop :=
    match rest with
    | [] => True
    | b :: rest' => identity_parent_of a b /\ parent_chain b rest'
    end.

  Lemma eqs : forall a b, T_eqb X a b = true <-> a = b.
  Proof. destruct H as [Heq _]. exact Heq. Qed.

  Section Built.
    Variables (nodes : list T) (w w' : list (warning T)) (ts : VisionsTypeset T D St).
    Hypothesis W : wf_result X rk nodes w ts w'.
    Hypothesis HinG : In (Generic X) nodes.

    Lemma base_contains_graph : contains_graph X (base_graph ts) cont.
    Proof.
      intros t v ea E. unfold g_edge in E. destruct (g_has_node (T_eqb X) (base_graph ts) t); [|discriminate].
      unfold od_getitem in E. destruct (od_find (T_eqb X) (adj_of (T_eqb X) (base_graph ts) t) v) as [a|] eqn:Ef; [|discriminate].
      inversion E; subst a. apply (wf_base_edges _ _ _ _ _ _ W) in Ef. destruct Ef as [_ [_ [r [Hr [_ [Hinf Ea]]]]]].
      subst ea. cbn [ea_relationship]. assert (Hv : type_ r = v) by (destruct H as [_ [Hty _]]; apply Hty; exact Hr).
      exact (Hdefault v r Hr Hinf).
    Qed.

    Lemma succ_edge a b : is_succ X (base_graph ts) a b -> exists ea, edge_at (T_eqb X) (base_graph ts) a b = Some ea.
    Proof.
      intros [ns [Hs Hin]]. unfold g_successors in Hs. destruct (g_has_node (T_eqb X) (base_graph ts) a); [|discriminate].
      inversion Hs; subst ns. apply (key_in_iff (T_eqb X) eqs) in Hin.
      destruct (edge_at (T_eqb X) (base_graph ts) a b) as [ea|]; [exists ea; reflexivity | exfalso; apply Hin; reflexivity].
    Qed.

    Lemma chain_parent_chain a rest : chain X (base_graph ts) a rest -> parent_chain a rest /\ Forall (fun v => In v nodes) rest.
    Proof.
      revert a. induction rest as [|b rest IH]; intros a Hc; [split; [exact I | constructor]|].
      destruct Hc as [Hs Hc]. destruct (succ_edge a b Hs) as [ea E]. apply (wf_base_edges _ _ _ _ _ _ W) in E.
      destruct E as [_ [Hb [r [Hr [Er [Hinf _]]]]]]. destruct (IH b Hc) as [P Fa].
      split; [split; [exists r; auto | exact P] | constructor; assumption].
    Qed.

    Lemma last_in (rest : list T) : Forall (fun v => In v nodes) rest -> In (last rest (Generic X)) nodes.
    Proof.
      induction rest as [|x l IH]; intro Fa; [exact HinG|]. inversion Fa; subst. destruct l as [|y l']; [assumption|]. apply IH. assumption.
    Qed.

    Theorem detect_on_constructed fuel d out ts' :
      VT_detect X fuel ts d = Ok (out, ts') ->
      exists rest,
        out = (d, Generic X :: rest, empty_state X tt) /\
        Forall (fun v => cont v d = true) rest /\                      (* sound: every type on the path contains the data *)
        parent_chain (Generic X) rest /\ Forall (fun v => In v nodes) rest /\   (* the path follows identity relations inside the typeset *)
        (forall v, In v nodes -> identity_parent_of (last rest (Generic X)) v -> cont v d = false).   (* most specific *)
    Proof.
      intro Hd. rewrite VT_detect_eq in Hd.
      assert (Hroot : root_of X ts = Ok (Generic X)) by (unfold root_of; rewrite (wf_root _ _ _ _ _ _ W); reflexivity).
      rewrite Hroot in Hd. cbn [bind ret] in Hd. unfold fresh_walk in Hd.
      destruct (walk (succ_of X (base_graph ts)) fuel (Generic X) d (empty_state X tt) []) as [o|e] eqn:Wk; cbn [bind ret] in Hd; [|discriminate].
      inversion Hd; subst. apply walk_walks in Wk.
      destruct (detect_walk_sound X (base_graph ts) cont base_contains_graph _ _ _ _ _ Wk) as [rest [-> [Hf [Hc Hl]]]].
      exists rest. split; [reflexivity|]. split; [exact Hf|].
      destruct (chain_parent_chain (Generic X) rest Hc) as [P Fa]. split; [exact P|]. split; [exact Fa|].
      intros v Hv [r [Hr [Er Hinf]]].
      pose proof (last_in rest Fa) as Hlast.
      assert (E : edge_at (T_eqb X) (base_graph ts) (last rest (Generic X)) v = Some (mkEA r Solid)).
      { apply (wf_base_edges _ _ _ _ _ _ W). split; [exact Hlast|]. split; [exact Hv|]. exists r. auto. }
      assert (Hn : In (last rest (Generic X)) (g_nodes (base_graph ts))).
      { apply (wf_base_nodes_gen _ _ _ _ _ _ W). right. exists v, (mkEA r Solid). exact E. }
      apply (Hl _ (successors_spec (T_eqb X) eqs (base_graph ts) _ Hn)).
      apply (key_in_iff (T_eqb X) eqs). rewrite E. discriminate.
    Qed.
  End Built.

  (* packaged: construct, then detect *)
  Theorem detect_sound_for_constructed_typesets types w fuel d :
    closed X types ->
    exists ts w', VT_init X (VT_blank X) types w = Ok (tt, ts, w') /\
      forall out ts', VT_detect X fuel ts d = Ok (out, ts') ->
      exists rest,
        out = (d, Generic X :: rest, empty_state X tt) /\
        Forall (fun v => cont v d = true) rest /\
        parent_chain (Generic X) rest /\ Forall (fun v => In v types) rest /\
        (forall v, In v types -> identity_parent_of (last rest (Generic X)) v -> cont v d = false).
  Proof.
    intros [HG HP]. destruct H as [Heq [Hty [Hperm [Hgen [HG0 [Huniq [Hone Hrk]]]]]]].
    destruct (typeset_well_formed X rk Heq Hty Hperm Hgen HG0 Huniq Hone Hrk types w HG HP) as [ts [w' [E W]]].
    exists ts, w'. split; [exact E|]. intros out ts' Hd.
    assert (HinG : In (Generic X) (mkset X types)) by (apply (proj2 (mkset_in X Heq Hperm _ _)); exact HG).
    destruct (detect_on_constructed (mkset X types) w w' ts W HinG fuel d out ts' Hd) as [rest [A [B [C0 [D0 E0]]]]].
    exists rest. split; [exact A|]. split; [exact B|]. split; [exact C0|]. split.
    - rewrite Forall_forall in *. intros v Hv. apply (proj1 (mkset_in X Heq Hperm _ _)). apply D0. exact Hv.
    - intros v Hv Hp. apply E0; [apply (proj2 (mkset_in X Heq Hperm _ _)); exact Hv | exact Hp].
  Qed.
End DetectWF.
