(* The generated lru_cache closure, over whole call histories, against the reference LRU. *)
From Coq Require Import List Bool ZArith Lia.
Import ListNotations.
From V Require Import PyBase OdFacts LruSpec LruTheory Cache_gen Cache_bridge.
Open Scope py_scope.

Section LruImpl.
  Context {A K V : Type} (K_eqb : K -> K -> bool).
  Hypothesis K_eqb_spec : forall x y, K_eqb x y = true <-> x = y.
  Variable h : A -> K.

  (* calling the wrapped function once per element of [hist], threading the closure cell *)
  Fixpoint gen_run (s : @LRUCacher A K V) (hist : list A) : res (list V * @LRUCacher A K V) :=
    match hist with
    | [] => Ok ([], s)
    | a :: hist' =>
        '(v, s1) <- lru_cache_call K_eqb s a ;;
        '(vs, s2) <- gen_run s1 hist' ;;
        Ok (v :: vs, s2)
    end.

  Lemma gen_run_eq_spec hist : forall s,
    (forall x, hash_func s x = Ok (h x)) -> (1 <= max_length s)%Z ->
    gen_run s hist =
    ('(vs, st) <- spec_run K_eqb h (value_func s) (max_length s) (cache s) hist ;; ret (vs, set_cache s st)).
  Proof.
    induction hist as [|a hist IH]; intros s Hh Hc; simpl.
    - destruct s; reflexivity.
    - rewrite (lru_cache_call_eq K_eqb), (get_eq_spec K_eqb K_eqb_spec h s a Hh Hc).
      unfold lift_state.
      destruct (spec_get K_eqb h (value_func s) (max_length s) (cache s) a) as [[v st1]|e]; simpl; [|reflexivity].
      rewrite (IH (set_cache s st1)) by (simpl; assumption). simpl.
      destruct (spec_run K_eqb h (value_func s) (max_length s) st1 hist) as [[vs st2]|e]; simpl; reflexivity.
  Qed.

  Section Main.
    Variable f : A -> res V.
    Variable cap : Z.
    Hypothesis cap_pos : (1 <= cap)%Z.
    Hypothesis f_respects_key : forall a b, h a = h b -> f a = f b.

    Definition fresh : @LRUCacher A K V := mkLRUCacher (fun x => Ok (h x)) cap f [].

    Theorem lru_all_histories hist :
      (forall a, In a hist -> exists v, f a = Ok v) ->
      exists vs s',
        gen_run fresh hist = Ok (vs, s') /\
        map (@Ok V) vs = map f hist /\                                  (* transparent *)
        (Z.of_nat (length (cache s')) <= cap)%Z /\                      (* bounded *)
        NoDup (map fst (cache s')) /\
        map fst (cache s') = lru_keys K_eqb (Z.to_nat cap) (map h hist) /\  (* LRU order *)
        (forall k v, In (k, v) (cache s') -> forall a, h a = k -> f a = Ok v).
    Proof.
      intro Hf.
      destruct (spec_run_correct K_eqb K_eqb_spec h f cap cap_pos f_respects_key hist [] (Inv_nil h f cap cap_pos) Hf)
        as [vs [st' [E [R [[ND [L Hv]] Kk]]]]].
      exists vs, (set_cache fresh st'). split.
      - rewrite gen_run_eq_spec by (simpl; auto). simpl. rewrite E. reflexivity.
      - simpl. repeat split; assumption.
    Qed.
  End Main.

  (* the wrapped function only matters at the misses of the abstract LRU *)
  Theorem lru_recompute_only_on_miss (f f' : A -> res V) cap hist :
    (1 <= cap)%Z ->
    (forall a, In a (misses_from K_eqb h (Z.to_nat cap) [] hist) -> f a = f' a) ->
    match gen_run (fresh f cap) hist, gen_run (fresh f' cap) hist with
    | Ok (vs, s), Ok (vs', s') => vs = vs' /\ cache s = cache s'
    | Raise e, Raise e' => e = e'
    | _, _ => False
    end.
  Proof.
    intros Hc Hag.
    rewrite !gen_run_eq_spec by (simpl; auto). simpl.
    rewrite (spec_run_only_misses K_eqb K_eqb_spec h f f' cap hist [] Hag Hc).
    destruct (spec_run K_eqb h f' cap [] hist) as [[vs st]|e]; simpl; auto.
  Qed.
End LruImpl.
