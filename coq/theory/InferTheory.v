(* Composition theorems for inference (C03, C04, C05, C06) over the reference walk of a relation
   graph: what the per-relation obligations (L1 lands-in-target, L4 does-not-re-fire, identity
   transformers on identity edges) give for whole traversals. *)
From Coq Require Import List Bool ZArith Lia.
Import ListNotations.
From V Require Import PyBase NxModel WalkSpec Engine_gen Engine_bridge EngineTheory Sampled_bridge SampledTheory.
Open Scope py_scope.

Section InferTheory.
  Context {T D St L F : Type} (X : ctx T D St L F).
  Variable g : graph T D St.
  Variable cont : T -> D -> bool.

  (* the data a traversal returns has been through exactly the transformers of the returned path,
     each applied only after its guard accepted the data as it was at that point *)
  Theorem walk_is_guarded_composition fuel root d st dout p st' :
    walk (succ_of X g) fuel root d st [] = Ok (dout, p, st') ->
    exists hops, p = root :: hops /\ follows X g root d hops dout.
  Proof.
    intro H. apply walk_walks in H. apply (walks_follows X g) in H. exact H.
  Qed.

  (* C03 (first half): if every relation, whenever it is taken, lands in its target type, and the root
     contains the input, then the cast data is contained in the inferred type *)
  Hypothesis lands : forall from to ea d st st1 d' st2,
    g_edge (T_eqb X) g from to = Ok ea ->
    relationship (ea_relationship ea) d st = Ok (true, st1) ->
    transformer (ea_relationship ea) d st1 = Ok (d', st2) -> cont to d' = true.

  Theorem cast_in_inferred_type fuel root d st dout p st' :
    cont root d = true ->
    walk (succ_of X g) fuel root d st [] = Ok (dout, p, st') ->
    cont (last p root) dout = true.
  Proof.
    intros Hc H. destruct (walk_is_guarded_composition _ _ _ _ _ _ _ H) as [hops [-> Hf]].
    rewrite last_cons. exact (follows_lands X g cont lands root d hops dout Hf Hc).
  Qed.
End InferTheory.

Section NoOp.
  Context {T D St L F : Type} (X : ctx T D St L F).
  Variable g : graph T D St.

  (* C05 (identity part) / C04 (second half): a traversal along which every relation taken has the
     identity transformer hands back the very data it was given *)
  Inductive identity_hops : T -> list T -> Prop :=
  | ih_nil t : identity_hops t []
  | ih_cons from to ea hops :
      g_edge (T_eqb X) g from to = Ok ea ->
      (forall d st, transformer (ea_relationship ea) d st = Ok (d, st)) ->
      identity_hops to hops -> identity_hops from (to :: hops).

  Lemma follows_identity from d hops dout :
    follows X g from d hops dout -> identity_hops from hops -> dout = d.
  Proof.
    induction 1 as [t d | from to ea d st st1 d' st2 hops dout GE RG TR Hf IH]; intro Hi; [reflexivity|].
    inversion Hi as [|? ? ea' ? GE' Hid Hi']; subst.
    rewrite GE in GE'. inversion GE'; subst ea'.
    rewrite Hid in TR. inversion TR; subst. apply IH. exact Hi'.
  Qed.

  Theorem noop_traversal_returns_input fuel root d st dout hops st' :
    walk (succ_of X g) fuel root d st [] = Ok (dout, root :: hops, st') ->
    identity_hops root hops -> dout = d.
  Proof.
    intros H Hi. destruct (walk_is_guarded_composition X g _ _ _ _ _ _ _ H) as [hops' [E Hf]].
    inversion E; subst hops'. exact (follows_identity root d hops dout Hf Hi).
  Qed.
End NoOp.

Section Stable.
  Context {T D St : Type}.
  Variable succ : T -> res (list (edge T D St)).

  Lemma rejects_any_state (es : list (edge T D St)) (d : D) (st st1 : St) :
    (forall e, In e es -> forall s b s1, e_guard e d s = Ok (b, s1) -> s1 = s /\ forall s2, e_guard e d s2 = Ok (b, s2)) ->
    rejects es d st st1 -> forall st', rejects es d st' st'.
  Proof.
    intros Hpure R. induction R as [d st | e es d st st1 st2 G R IH]; intro st'; [constructor|].
    destruct (Hpure e (or_introl eq_refl) st false st1 G) as [_ Hany].
    econstructor; [apply Hany|]. apply IH. intros x Hx. apply Hpure. right. exact Hx.
  Qed.

  Lemma walks_longer t0 d0 s0 p0 o : walks succ t0 d0 s0 p0 o -> length (snd (fst o)) > length p0.
  Proof.
    induction 1; simpl; [rewrite app_length; simpl; lia|].
    rewrite app_length in IHwalks. simpl in IHwalks. lia.
  Qed.

  (* C04 (first half): where a traversal stopped, a later traversal that arrives with the same data (and
     any state - the guards ignore it) stops as well: the same relations reject *)
  Theorem stop_is_stable (t : T) (d : D) (st st' : St) (path path' : list T) :
    (forall es, succ t = Ok es -> forall e, In e es -> forall s b s1, e_guard e d s = Ok (b, s1) -> s1 = s /\ forall s2, e_guard e d s2 = Ok (b, s2)) ->
    walks succ t d st path (d, path ++ [t], st) ->
    walks succ t d st' path' (d, path' ++ [t], st').
  Proof.
    intros Hpure W. inversion W as [? ? ? ? es st1 Sc R | ? ? ? ? es pre e post st1 st2 d' st3 out Sc E R G Tr W'].
    - subst. eapply walks_stop; [exact Sc|]. eapply rejects_any_state; [apply (Hpure es Sc) | exact R].
    - exfalso. subst. pose proof (walks_longer _ _ _ _ _ W') as Hlen. simpl in Hlen.
      rewrite !app_length in Hlen. simpl in Hlen. lia.
  Qed.
End Stable.
