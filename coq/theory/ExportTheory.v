(* C19: what the generated export code hands to pydot depends only on the SET of nodes and the SET of
   styled edges of the typeset's graph, provided type names are pairwise distinct on its nodes: two
   graphs with permuted node and edge lists (different supply orders) are exported identically. *)
From Coq Require Import List Bool ZArith Lia Permutation.
Import ListNotations.
From V Require Import PyBase NxModel Engine_gen SortTheory.
Open Scope py_scope.

Section Export.
  Context {T D St L F : Type} (X : ctx T D St L F).
  Hypothesis T_eqb_spec : forall a b, T_eqb X a b = true <-> a = b.

  Definition export_graph (g : graph T D St) : digraph T (option style) :=
    fold_left (fun G e => g_add_edge (T_eqb X) G (fst e) (snd e) (style_get X (edge_styles X g) e))
              (sort_edges X (edge_pairs X g))
              (g_add_nodes_from (T_eqb X) g_empty (sort_nodes X (g_nodes g))).

  Lemma NoDup_map_inj {A B} (f : A -> B) l :
    NoDup l -> (forall a b, In a l -> In b l -> f a = f b -> a = b) -> NoDup (map f l).
  Proof.
    induction l as [|x l IH]; intros Hnd Hinj; simpl; [constructor|].
    inversion Hnd; subst. constructor.
    - intro Hin. apply in_map_iff in Hin. destruct Hin as [y [E Hy]].
      assert (y = x) by (apply Hinj; [right; exact Hy | left; reflexivity | exact E]). subst. contradiction.
    - apply IH; [assumption|]. intros a b Ha Hb. apply Hinj; right; assumption.
  Qed.

  Lemma find_unique {A} (p : A -> bool) l l' x :
    Permutation l l' -> In x l -> p x = true -> (forall y, In y l -> p y = true -> y = x) -> find p l = Some x /\ find p l' = Some x.
  Proof.
    intros P Hin Hp Hu.
    assert (G : forall m, (forall y, In y m -> p y = true -> y = x) -> In x m -> find p m = Some x).
    { induction m as [|y m IH]; intros Hm Hi; [contradiction|]. simpl. destruct (p y) eqn:E.
      - rewrite (Hm y (or_introl eq_refl) E). reflexivity.
      - destruct Hi as [->|Hi]; [congruence|]. apply IH; [intros z Hz; apply Hm; right; exact Hz | exact Hi]. }
    split; [apply G; assumption|]. apply G.
    - intros y Hy. apply Hu. eapply Permutation_in; [apply Permutation_sym; exact P | exact Hy].
    - eapply Permutation_in; eauto.
  Qed.

  Lemma fold_left_ext_in {A B} (f g : A -> B -> A) l a :
    (forall acc x, In x l -> f acc x = g acc x) -> fold_left f l a = fold_left g l a.
  Proof.
    revert a; induction l as [|x l IH]; intros a H; [reflexivity|]. simpl.
    rewrite (H a x (or_introl eq_refl)). apply IH. intros acc y Hy. apply H. right. exact Hy.
  Qed.

  Theorem export_depends_on_sets_only (g1 g2 : graph T D St) :
    Permutation (g_nodes g1) (g_nodes g2) ->
    Permutation (edge_styles X g1) (edge_styles X g2) ->
    NoDup (g_nodes g1) -> NoDup (edge_pairs X g1) ->
    (forall a b, type_name X a = type_name X b -> a = b) ->          (* distinct names *)
    export_graph g1 = export_graph g2.
  Proof.
    intros Pn Pe Hn He Hinj. unfold export_graph.
    assert (Pp : Permutation (edge_pairs X g1) (edge_pairs X g2)).
    { assert (E : forall g, edge_pairs X g = map fst (edge_styles X g)).
      { intro g. unfold edge_pairs, edge_styles. rewrite map_map. reflexivity. }
      rewrite !E. apply Permutation_map. exact Pe. }
    assert (Sn : sort_nodes X (g_nodes g1) = sort_nodes X (g_nodes g2)).
    { unfold sort_nodes. apply sort_by_perm_invariant; [|exact Pn].
      apply NoDup_map_inj; [exact Hn|]. intros a b _ _ H. inversion H. apply Hinj. assumption. }
    assert (Se : sort_edges X (edge_pairs X g1) = sort_edges X (edge_pairs X g2)).
    { unfold sort_edges. apply sort_by_perm_invariant; [|exact Pp].
      apply NoDup_map_inj; [exact He|]. intros [a b] [c d] _ _ H. simpl in H. inversion H. f_equal; apply Hinj; assumption. }
    rewrite Sn, Se. apply fold_left_ext_in. intros acc e Hin. f_equal.
    (* the style looked up for an edge is the same in both graphs *)
    assert (Hin1 : In e (edge_pairs X g1)).
    { eapply Permutation_in; [apply Permutation_sym; exact Pp|].
      destruct (sort_by_spec (fun e0 : T * T => (type_name X (fst e0), type_name X (snd e0))) (edge_pairs X g2)) as [_ P2].
      - eapply Permutation_NoDup; [apply Permutation_map; exact Pp|].
        apply NoDup_map_inj; [exact He|]. intros [a b] [c d] _ _ H. simpl in H. inversion H. f_equal; apply Hinj; assumption.
      - eapply Permutation_in; [exact P2 | exact Hin]. }
    unfold style_get.
    assert (E1 : edge_pairs X g1 = map fst (edge_styles X g1)) by (unfold edge_pairs, edge_styles; rewrite map_map; reflexivity).
    rewrite E1 in Hin1, He. apply in_map_iff in Hin1. destruct Hin1 as [[e' st] [Ee Hes]]. simpl in Ee. subst e'.
    destruct (find_unique (fun x => andb (T_eqb X (fst (fst x)) (fst e)) (T_eqb X (snd (fst x)) (snd e))) _ _ (e, st) Pe Hes) as [F1 F2].
    - simpl. rewrite !(proj2 (T_eqb_spec _ _) eq_refl). reflexivity.
    - intros [e2 st2] Hy Hp. simpl in Hp. apply andb_true_iff in Hp. destruct Hp as [Ha Hb].
      apply T_eqb_spec in Ha. apply T_eqb_spec in Hb.
      assert (e2 = e) by (destruct e2, e; simpl in *; congruence). subst e2.
      (* same pair, NoDup pairs -> same entry *)
      clear - He Hes Hy. induction (edge_styles X g1) as [|z l IH]; [contradiction|].
      simpl in He. inversion He as [|? ? Hnz Hnd]; subst.
      destruct Hes as [->|Hes], Hy as [Hy|Hy].
      + congruence.
      + exfalso. apply Hnz. apply in_map_iff. exists (e, st2). split; [reflexivity | exact Hy].
      + subst z. exfalso. apply Hnz. apply in_map_iff. exists (e, st). split; [reflexivity | exact Hes].
      + apply IH; assumption.
    - rewrite F1, F2. reflexivity.
  Qed.
End Export.
