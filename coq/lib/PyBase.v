(* PyBase: the small Python-semantics prelude that translated (generated) code runs against.
   Exceptions as values, the [res] monad, python-style loops with early return, and the
   insertion-ordered dict (OrderedDict / dict) model.  Hand-written, trusted as a MODEL of
   Python; OrderedDict operations are checked against collections.OrderedDict on every run
   by the correspondence harness (vfw/c20.py). *)
From Coq Require Import List Bool ZArith Lia.
Import ListNotations.

Inductive exn : Type :=
| KeyError | IndexError | ValueError | TypeError | AttributeError | StopIteration
| NotImplementedError | NetworkXError | NetworkXUnfeasible | AssertionError | OverflowError | DispatchError
| OutOfFuel | OtherExn.

Definition exn_eqb (a b : exn) : bool :=
  match a, b with
  | KeyError, KeyError | IndexError, IndexError | ValueError, ValueError
  | TypeError, TypeError | AttributeError, AttributeError | StopIteration, StopIteration
  | NotImplementedError, NotImplementedError | NetworkXError, NetworkXError
  | NetworkXUnfeasible, NetworkXUnfeasible
  | AssertionError, AssertionError | OverflowError, OverflowError
  | DispatchError, DispatchError | OutOfFuel, OutOfFuel | OtherExn, OtherExn => true
  | _, _ => false
  end.

Lemma exn_eqb_eq a b : exn_eqb a b = true <-> a = b.
Proof. destruct a, b; simpl; split; intro H; try reflexivity; try discriminate. Qed.

Inductive res (A : Type) : Type :=
| Ok (a : A)
| Raise (e : exn).
Arguments Ok {A} a.
Arguments Raise {A} e.

Definition ret {A} (a : A) : res A := Ok a.
Definition bind {A B} (m : res A) (f : A -> res B) : res B :=
  match m with Ok a => f a | Raise e => Raise e end.

Declare Scope py_scope.
Delimit Scope py_scope with py.
Notation "x <- m ;; k" := (bind m (fun x => k))
  (at level 61, m at next level, right associativity) : py_scope.
Notation "' p <- m ;; k" := (bind m (fun x => let p := x in k))
  (at level 61, p pattern, m at next level, right associativity) : py_scope.
Open Scope py_scope.

(* try: body except (e1, ...): handler *)
Definition try_catch {A} (body : res A) (caught : list exn) (handler : res A) : res A :=
  match body with
  | Ok a => Ok a
  | Raise e => if existsb (exn_eqb e) caught then handler else Raise e
  end.

(* try/finally where the finaliser acts on a threaded state [S] that both the body and
   the finaliser see; used for the global-cell record of C10. *)

Lemma bind_ok {A B} (m : res A) (f : A -> res B) b :
  bind m f = Ok b <-> exists a, m = Ok a /\ f a = Ok b.
Proof.
  destruct m as [a|e]; simpl; split.
  - intro H; exists a; auto.
  - intros [a' [Ha Hf]]; inversion Ha; subst; auto.
  - discriminate.
  - intros [a' [Ha _]]; discriminate.
Qed.

Lemma bind_ret_l {A B} (a : A) (f : A -> res B) : bind (ret a) f = f a.
Proof. reflexivity. Qed.

Lemma bind_ret_r {A} (m : res A) : bind m ret = m.
Proof. destruct m; reflexivity. Qed.

Lemma bind_assoc {A B C} (m : res A) (f : A -> res B) (g : B -> res C) :
  bind (bind m f) g = bind m (fun a => bind (f a) g).
Proof. destruct m; reflexivity. Qed.

(* ------------------------------------------------------------------------------------ *)
(* for-loops with early return.  The loop body maps the current item and the tuple of   *)
(* loop-carried variables to either [LReturn r] (a python `return r` inside the loop),  *)
(* [LBreak vars] or [LContinue vars].                                                   *)
Inductive loop_step (R V : Type) : Type :=
| LReturn (r : R)
| LBreak (v : V)
| LContinue (v : V).
Arguments LReturn {R V} r.
Arguments LBreak {R V} v.
Arguments LContinue {R V} v.

Inductive loop_out (R V : Type) : Type :=
| LoopReturned (r : R)
| LoopDone (v : V).
Arguments LoopReturned {R V} r.
Arguments LoopDone {R V} v.

Fixpoint for_each {X R V} (xs : list X) (v : V) (body : X -> V -> res (loop_step R V))
  : res (loop_out R V) :=
  match xs with
  | [] => Ok (LoopDone v)
  | x :: xs' =>
      match body x v with
      | Raise e => Raise e
      | Ok (LReturn r) => Ok (LoopReturned r)
      | Ok (LBreak v') => Ok (LoopDone v')
      | Ok (LContinue v') => for_each xs' v' body
      end
  end.

(* all(...) / any(...) over a list with a predicate that may raise: python evaluates left
   to right and stops at the first decisive element. *)
Fixpoint py_all {X} (p : X -> res bool) (xs : list X) : res bool :=
  match xs with
  | [] => Ok true
  | x :: xs' => b <- p x ;; if b then py_all p xs' else Ok false
  end.

Fixpoint py_any {X} (p : X -> res bool) (xs : list X) : res bool :=
  match xs with
  | [] => Ok false
  | x :: xs' => b <- p x ;; if b then Ok true else py_any p xs'
  end.

Fixpoint map_res {X Y} (f : X -> res Y) (xs : list X) : res (list Y) :=
  match xs with
  | [] => Ok []
  | x :: xs' => y <- f x ;; ys <- map_res f xs' ;; Ok (y :: ys)
  end.

Lemma py_all_pure {X} (p : X -> bool) xs :
  py_all (fun x => Ok (p x)) xs = Ok (forallb p xs).
Proof. induction xs as [|x xs IH]; simpl; [reflexivity|]. destruct (p x); simpl; auto. Qed.

Lemma py_any_pure {X} (p : X -> bool) xs :
  py_any (fun x => Ok (p x)) xs = Ok (existsb p xs).
Proof. induction xs as [|x xs IH]; simpl; [reflexivity|]. destruct (p x); simpl; auto. Qed.

Lemma map_res_pure {X Y} (f : X -> Y) xs :
  map_res (fun x => Ok (f x)) xs = Ok (map f xs).
Proof. induction xs as [|x xs IH]; simpl; [reflexivity|]. rewrite IH. reflexivity. Qed.

(* ------------------------------------------------------------------------------------ *)
(* Insertion-ordered dict (dict / collections.OrderedDict): association list, oldest    *)
(* first, keys pairwise distinct.                                                       *)
Section OD.
  Context {K V : Type} (eqb : K -> K -> bool).

  Definition od := list (K * V).

  Fixpoint od_find (d : od) (k : K) : option V :=
    match d with
    | [] => None
    | (k', v) :: d' => if eqb k k' then Some v else od_find d' k
    end.

  Definition od_contains (d : od) (k : K) : bool :=
    match od_find d k with Some _ => true | None => false end.

  Definition od_getitem (d : od) (k : K) : res V :=
    match od_find d k with Some v => Ok v | None => Raise KeyError end.

  Fixpoint od_remove (d : od) (k : K) : od :=
    match d with
    | [] => []
    | (k', v) :: d' => if eqb k k' then d' else (k', v) :: od_remove d' k
    end.

  (* d[k] = v : an existing key keeps its position *)
  Fixpoint od_setitem (d : od) (k : K) (v : V) : od :=
    match d with
    | [] => [(k, v)]
    | (k', v') :: d' => if eqb k k' then (k', v) :: d' else (k', v') :: od_setitem d' k v
    end.

  Definition od_delitem (d : od) (k : K) : res od :=
    if od_contains d k then Ok (od_remove d k) else Raise KeyError.

  Definition od_move_to_end (d : od) (k : K) : res od :=
    match od_find d k with
    | Some v => Ok (od_remove d k ++ [(k, v)])
    | None => Raise KeyError
    end.

  (* next(iter(d)) *)
  Definition od_first_key (d : od) : res K :=
    match d with [] => Raise StopIteration | (k, _) :: _ => Ok k end.

  Definition od_len (d : od) : Z := Z.of_nat (length d).

  Definition od_keys (d : od) : list K := map fst d.
End OD.

(* {k: v for ...}: later values overwrite earlier ones, a key keeps its first position *)
Definition od_of_pairs {K V} (eqb : K -> K -> bool) (l : list (K * V)) : @od K V :=
  fold_left (fun d kv => od_setitem eqb d (fst kv) (snd kv)) l [].

(* python ints *)
Definition py_len {X} (l : list X) : Z := Z.of_nat (length l).

(* python list indexing and slicing (negative indices count from the end) *)
Definition py_index {X} (l : list X) (i : Z) : res X :=
  let n := Z.of_nat (length l) in
  let j := if Z.ltb i 0 then (i + n)%Z else i in
  if orb (Z.ltb j 0) (Z.leb n j) then Raise IndexError
  else match nth_error l (Z.to_nat j) with Some x => Ok x | None => Raise IndexError end.

Definition py_clip (n i : Z) : Z :=
  let j := if Z.ltb i 0 then (i + n)%Z else i in
  if Z.ltb j 0 then 0%Z else if Z.ltb n j then n else j.

Definition py_slice {X} (l : list X) (lo hi : option Z) : list X :=
  let n := Z.of_nat (length l) in
  let a := match lo with None => 0%Z | Some i => py_clip n i end in
  let b := match hi with None => n | Some i => py_clip n i end in
  firstn (Z.to_nat (b - a)) (skipn (Z.to_nat a) l).

Fixpoint py_enumerate_from {X} (i : Z) (l : list X) : list (Z * X) :=
  match l with
  | [] => []
  | x :: l' => (i, x) :: py_enumerate_from (i + 1)%Z l'
  end.
Definition py_enumerate {X} (l : list X) : list (Z * X) := py_enumerate_from 0%Z l.

(* a loop whose body never returns or breaks ends with LoopDone (or raises) *)
Lemma for_each_continue {X V} (l : list X) (body : X -> V -> res (loop_step unit V)) :
  (forall x v, match body x v with Ok (LContinue _) => True | Raise _ => True | _ => False end) ->
  forall v, match for_each l v body with Ok (LoopDone _) => True | Raise _ => True | _ => False end.
Proof.
  intro H. induction l as [|x l IH]; intro v; simpl; [exact I|].
  specialize (H x v). destruct (body x v) as [[r|v'|v']|e]; try contradiction; [apply IH | exact I].
Qed.
