(* C16 - Membership is upward closed: types are nested sets.
   Objects: the pandas contains_ops REGENERATED from backends/pandas/types/*.py and series_utils.py
   (gen/PandasContains_gen.v) over the abstract series of lib/Values.v: any dtype-fact tuple (a
   superset of pandas dtypes), any list of value kinds with flags, any length.  One theorem per
   identity edge of the regenerated relation table whose parent is not Generic; side conditions
   are exactly the recorded findings (findings/C16_refuted.v). *)
From Coq Require Import List Bool ZArith.
Import ListNotations.
From V Require Import PyBase Values Shipped_gen PandasContains_gen ShippedFacts ContainsTheory.

Theorem C16_Generic_contains_everything : forall s, In_type tGeneric s.
Proof. exact Generic_contains_everything. Qed.

Theorem C16_Count_in_Integer : forall s, dfacts_ok (s_dtype s) = true -> In_type tCount s -> In_type tInteger s.
Proof. exact Count_in_Integer. Qed.

Theorem C16_Ordinal_in_Categorical : forall s, In_type tOrdinal s -> In_type tCategorical s.
Proof. exact Ordinal_in_Categorical. Qed.

Theorem C16_Image_in_File : forall s, In_type tImage s -> In_type tFile s.
Proof. exact Image_in_File. Qed.

Theorem C16_String_in_Object : forall s, In_type tString s -> In_type tObject s.
Proof. exact String_in_Object. Qed.

(* the eight other children of Object do not look at the dtype: closed whenever the dtype is one
   Object accepts (object, or a non-categorical string dtype); otherwise refuted (F16b) *)
Theorem C16_children_in_Object :
  forall s t, In t [tDate; tTime; tURL; tUUID; tEmailAddress; tGeometry; tIPAddress; tPath] ->
    object_like (s_dtype s) = true -> In_type t s -> In_type tObject s.
Proof. exact children_in_Object. Qed.

(* File -> Path holds unless an existing RELATIVE path is present (F16c) *)
Theorem C16_File_in_Path :
  forall s, (forall v, In v (s_vals (norm s)) -> v_exists v = true -> v_abs v = true) ->
    In_type tFile s -> In_type tPath s.
Proof. exact File_in_Path. Qed.

(* every identity edge of the regenerated table is covered by one of the theorems above *)
Definition covered (child parent : ty) : bool :=
  match parent, child with
  | tGeneric, _ => true
  | tInteger, tCount | tCategorical, tOrdinal | tFile, tImage | tPath, tFile | tObject, tString => true
  | tObject, (tDate | tTime | tURL | tUUID | tEmailAddress | tGeometry | tIPAddress | tPath) => true
  | _, _ => false
  end.
Theorem C16_all_identity_edges_covered :
  forallb (fun t => forallb (fun p => covered t p) (identity_parents t)) all_types = true.
Proof. vm_compute. reflexivity. Qed.

Print Assumptions C16_Count_in_Integer.
Print Assumptions C16_String_in_Object.
Print Assumptions C16_children_in_Object.
Print Assumptions C16_File_in_Path.
Print Assumptions C16_Image_in_File.
Print Assumptions C16_Ordinal_in_Categorical.

(* Non-vacuity: an object series of two strings and a missing value is a String (hence an Object) *)
Definition ex_obj : dfacts := mkDF false false false false false false false false true false false false false None.
Definition ex_s : series := mkS ex_obj [mkV KStr false false false; mkV KNone false false false; mkV KStr false false false].
Example C16_example : In_type tString ex_s /\ In_type tObject ex_s /\ object_like (s_dtype ex_s) = true.
Proof. repeat split; vm_compute; reflexivity. Qed.
