(* Executable instance of the GENERATED Python-list membership predicates for the correspondence
   harness: an abstract list is decoded from integers, 6 per element. *)
From Coq Require Import List Bool ZArith.
Import ListNotations.
From V Require Import PyValues Shipped_gen PythonContains_gen.
Open Scope Z_scope.

Definition pkind_of_Z (z : Z) : pkind :=
  nth (Z.to_nat z)
      [PNone; PBool; PInt; PFloat; PComplex; PNumber; PStr; PBytes; PDatetime; PDate; PTime; PTimedelta;
       PPurePath; PPath; PUrl; PIP; PUUID; PEmail; PGeom; POther] POther.

Definition pb (z : Z) : bool := negb (Z.eqb z 0).

Fixpoint pvals_of (l : list Z) (fuel : nat) : pseq :=
  match fuel, l with
  | S f, k :: t :: n :: a :: e :: i :: rest => mkP (pkind_of_Z k) (pb t) (pb n) (pb a) (pb e) (pb i) :: pvals_of rest f
  | _, _ => []
  end.

(* membership in every shipped type, in the order of all_types: 0 False, 1 True *)
Definition python_contains_vector (l : list Z) : list Z :=
  let s := pvals_of l (length l) in
  map (fun t => if python_contains t s then 1 else 0) all_types.
