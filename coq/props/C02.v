(* C02 - Decidable traversal: the answer does not depend on type enumeration order.
   Engine part (this file): for the reference walk - which the generated detect/infer compute,
   props/C12.v - if along the walk exactly the followed relation accepts and the others reject
   without touching the state, then every re-enumeration of the successors (the model of the
   address-dependent iteration order of Python's set of classes and of graph insertion order)
   gives the same data, the same path and the same state. *)
From Coq Require Import List Bool ZArith Permutation.
Import ListNotations.
From V Require Import PyBase WalkSpec RefineTheory.

Theorem C02_order_independent :
  forall (T D St : Type) (succ1 succ2 : T -> res (list (edge T D St))),
    (forall t es1, succ1 t = Ok es1 -> exists es2, succ2 t = Ok es2 /\ Permutation es1 es2) ->
  forall t d st path out,
    xwalks succ1 t d st path out -> xwalks succ2 t d st path out.
Proof. exact @order_independent. Qed.
Print Assumptions C02_order_independent.

Theorem C02_exclusive_walk_is_the_walk :
  forall (T D St : Type) (succ : T -> res (list (edge T D St))) t d st path out,
    xwalks succ t d st path out -> walks succ t d st path out.
Proof. exact @xwalks_walks. Qed.

(* without exclusivity the answer does depend on the order: two successors that both accept *)
Example C02_overlap_is_order_dependent :
  let mk v := mkEdge (T:=nat) (D:=nat) (St:=unit) v (fun d st => Ok (true, st)) (fun d st => Ok (d, st)) in
  let s1 (t : nat) := Ok (match t with 0 => [mk 1; mk 2] | _ => [] end) in
  let s2 (t : nat) := Ok (match t with 0 => [mk 2; mk 1] | _ => [] end) in
  walk s1 3 0 5 tt [] = Ok (5, [0; 1], tt) /\ walk s2 3 0 5 tt [] = Ok (5, [0; 2], tt).
Proof. split; reflexivity. Qed.

(* ---- Part 2: for typesets built by the GENERATED constructor the premise "the same relations in another order" is a
   theorem (theory/GraphRefine.v on top of C14's well-formedness theorem): for ANY relation table with the table facts and
   ANY two closed lists holding the same types - whatever the supply orders and the iteration orders of Python's sets -
   both typesets are built and their ACTUAL graphs have the same exclusive walks (data, path, state): over the full
   relation graph (infer) and over the identity graph (detect).  What remains a hypothesis is exclusivity itself
   ([xwalks]): a property of the guards, decided on the implementation (and refuted for the recorded overlaps F02a-e). *)
From V Require Import NxModel Engine_gen Engine_bridge GraphWF AlgebraTheory GraphRefine.

Theorem C02_constructed_typesets_are_order_independent :
  forall (T D St L F : Type) (X : ctx T D St L F) (rk : T -> nat), table_ok X rk ->
  forall types1 types2 w1 w2,
    closed X types1 -> (forall t, In t types1 <-> In t types2) ->
    exists ts1 ts2 w1' w2',
      VT_init X (VT_blank X) types1 w1 = Ok (tt, ts1, w1') /\
      VT_init X (VT_blank X) types2 w2 = Ok (tt, ts2, w2') /\
      (forall t d st path out, xwalks (succ_of X (relation_graph ts1)) t d st path out <-> xwalks (succ_of X (relation_graph ts2)) t d st path out) /\
      (forall t d st path out, xwalks (succ_of X (base_graph ts1)) t d st path out <-> xwalks (succ_of X (base_graph ts2)) t d st path out).
Proof. intros T D St L F X rk H. exact (constructed_order_independent X rk H). Qed.
Print Assumptions C02_constructed_typesets_are_order_independent.
