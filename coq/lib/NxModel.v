(* NxModel: networkx.DiGraph exactly as far as visions uses it.  Hand-written MODEL of a
   third-party library, checked against networkx on random operation sequences by the
   correspondence harness on every run (vfw/nxcorr.py).

   A DiGraph is its insertion-ordered node dict and, per node, the insertion-ordered dict of
   successors with the edge attribute record.  Iteration orders are part of the model because
   visions' answers depend on them (first accepting successor wins; root = first source). *)
From Coq Require Import List Bool ZArith Lia.
Import ListNotations.
From V Require Import PyBase.
Open Scope py_scope.

Section Nx.
  Context {N A : Type} (eqb : N -> N -> bool).

  Record digraph := mkG {
    g_nodes : list N;                      (* insertion order of G._node *)
    g_adj : list (N * list (N * A))        (* G._adj : node -> (successor -> attributes) *)
  }.

  Definition g_empty : digraph := mkG [] [].

  Definition memb (x : N) (l : list N) : bool := existsb (eqb x) l.

  Definition g_has_node (g : digraph) (n : N) : bool := memb n (g_nodes g).

  Definition g_add_node (g : digraph) (n : N) : digraph :=
    if g_has_node g n then g else mkG (g_nodes g ++ [n]) (g_adj g ++ [(n, [])]).

  Definition g_add_nodes_from (g : digraph) (ns : list N) : digraph := fold_left g_add_node ns g.

  Definition adj_of (g : digraph) (n : N) : list (N * A) :=
    match od_find eqb (g_adj g) n with Some l => l | None => [] end.

  (* G.add_edge(u, v, **attrs): both endpoints are created if missing (u first); the attribute
     dict of an existing edge is updated in place and keeps its position.  visions always
     passes the same two keys, so "update" is replacement of the record. *)
  Definition g_add_edge (g : digraph) (u v : N) (a : A) : digraph :=
    let g1 := g_add_node (g_add_node g u) v in
    mkG (g_nodes g1) (od_setitem eqb (g_adj g1) u (od_setitem eqb (adj_of g1 u) v a)).

  (* G.successors(n): NetworkXError for a node that is not in the graph *)
  Definition g_successors (g : digraph) (n : N) : res (list N) :=
    if g_has_node g n then Ok (map fst (adj_of g n)) else Raise NetworkXError.

  (* G[u][v] : KeyError when missing *)
  Definition g_edge (g : digraph) (u v : N) : res A :=
    if g_has_node g u then od_getitem eqb (adj_of g u) v else Raise KeyError.

  Definition g_edges (g : digraph) : list (N * N * A) :=
    flat_map (fun n => map (fun '(v, a) => (n, v, a)) (adj_of g n)) (g_nodes g).

  Definition g_has_edge (g : digraph) (u v : N) : bool :=
    match od_find eqb (adj_of g u) v with Some _ => true | None => false end.

  Definition in_degree (g : digraph) (n : N) : nat :=
    length (filter (fun '(u, v, _) => eqb v n) (g_edges g)).

  Definition out_degree (g : digraph) (n : N) : nat := length (adj_of g n).

  (* nx.isolates(G): nodes with no in- and no out-edges, in node order *)
  Definition g_isolates (g : digraph) : list N :=
    filter (fun n => andb (Nat.eqb (in_degree g n) 0) (Nat.eqb (out_degree g n) 0)) (g_nodes g).

  Definition g_remove_nodes_from (g : digraph) (ns : list N) : digraph :=
    mkG (filter (fun n => negb (memb n ns)) (g_nodes g))
        (map (fun '(n, l) => (n, filter (fun '(v, _) => negb (memb v ns)) l))
             (filter (fun '(n, _) => negb (memb n ns)) (g_adj g))).

  (* G.edge_subgraph(edges): a view whose nodes are the endpoints of [es] that are nodes of G
     and whose edges are the edges of G listed in [es].  The successor order of every node is
     the original adjacency order (FilterAdjacency.__getitem__ filters the original dict).
     NOT modelled: the iteration order of the view's NODE set, which networkx takes from the hash
     order of the induced node set when that set is less than half of G (FilterAtlas.__iter__);
     visions never depends on it (root and export use the full graph / sort), and the
     correspondence compares the view's nodes as a set. *)
  Definition g_edge_subgraph (g : digraph) (es : list (N * N)) : digraph :=
    let listed u v := existsb (fun '(a, b) => andb (eqb a u) (eqb b v)) es in
    let endpoint n := existsb (fun '(a, b) => orb (eqb a n) (eqb b n)) es in
    mkG (filter endpoint (g_nodes g))
        (map (fun '(n, l) => (n, filter (fun '(v, _) => andb (listed n v) (endpoint v)) l))
             (filter (fun '(n, _) => endpoint n) (g_adj g))).

  (* next(nx.topological_sort(G)): the first node, in node order, with in-degree 0.
     StopIteration on the empty graph; NetworkXUnfeasible (modelled as NetworkXError) when every
     node has a predecessor (a cycle). *)
  Definition g_first_source (g : digraph) : res N :=
    match g_nodes g with
    | [] => Raise StopIteration
    | _ => match filter (fun n => Nat.eqb (in_degree g n) 0) (g_nodes g) with
           | n :: _ => Ok n
           | [] => Raise NetworkXUnfeasible
           end
    end.

  (* list(nx.simple_cycles(G)) non-empty?  Kahn: repeatedly delete the nodes of in-degree 0;
     a cycle exists iff something is left after |nodes| rounds. *)
  Fixpoint kahn (fuel : nat) (g : digraph) : digraph :=
    match fuel with
    | O => g
    | S f => kahn f (g_remove_nodes_from g (filter (fun n => Nat.eqb (in_degree g n) 0) (g_nodes g)))
    end.
  Definition g_has_cycle (g : digraph) : bool :=
    match g_nodes (kahn (length (g_nodes g)) g) with [] => false | _ => true end.

  Definition g_copy (g : digraph) : digraph := g.
End Nx.
Arguments digraph : clear implicits.
Arguments mkG {N A}.
Arguments g_empty {N A}.
