(* C17 - Spark columns are typed from their schema alone.
   Objects: the GENERATED Spark contains_ops and registration list (gen/Spark_gen.v, from
   backends/spark/types/*.py and its __init__.py), the GENERATED engine and Spark traversal
   (gen/Engine_gen.v), the GENERATED relation table (gen/Shipped_gen.v).  A Spark DataFrame is
   modelled by its schema only - rows are not an input of the model, which is the claim. *)
From Coq Require Import List Bool ZArith.
Import ListNotations.
From V Require Import PyBase NxModel Engine_gen Shipped_gen Spark_gen.
Open Scope py_scope.

(* relations as VisionsBaseTypeMeta.relations builds them, dispatched on a Spark DataFrame:
   identity guard = the type's Spark contains_op (registered one, else the multimethod's base
   implementation); inference relations have no Spark implementation (default_relation) *)
Definition spark_relations (t : ty) : list (relation ty sdf unit) :=
  map (fun '(r, inf, _, _) =>
         mkRel r t inf
               (if (inf : bool) then (fun _ _ => Raise NotImplementedError)
                else (fun d st => b <- spark_contains t d ;; ret (b, st)))
               (fun d st => Ok (d, st)))
      (declared t).

(* a frame = its schema; df.select(col) = the one-column frame of that field *)
Definition spark_ctx : ctx ty sdf unit Z sdf :=
  mkCtx ty_eqb Z.eqb spark_relations (fun t d st => b <- spark_contains t d ;; ret (b, st))
        (fun t => ty_eqb t tGeneric) tGeneric (fun l => l) (fun _ => tt)
        (fun _ => 0%Z) (fun d _ => d)
        (fun f => map f_name f)
        (fun f c => match find (fun x => Z.eqb (f_name x) c) f with Some x => Ok [x] | None => Raise KeyError end)
        (fun _ => [])
        (fun l => l)
        (fun f c => match find (fun x => Z.eqb (f_name x) c) f with Some x => Ok [x] | None => Raise KeyError end)
        (fun t => Z.of_nat (ty_name t)) (fun _ _ => 0%Z).

Definition detect_type_col (types : list ty) (col : sdf) : res ty :=
  '(_, ts, _) <- VT_init spark_ctx (VT_blank spark_ctx) types [] ;;
  '(t, _) <- VT_detect_type spark_ctx 30 ts col ;;
  ret t.

(* the documented map *)
Definition doc_map (has_date : bool) (tau : sparkty) : ty :=
  match tau with
  | SByte | SShort | SInteger | SLong => tInteger
  | SFloat | SDouble | SDecimal _ _ => tFloat
  | SBoolean => tBoolean
  | SString => tString
  | SDate => if has_date then tDate else tObject
  | STimestamp => tDateTime
  | SArray _ _ | SMap _ _ _ | SStruct _ => tObject
  | _ => tGeneric
  end.

(* For every Spark SQL type expression (any nesting), column name and nullable flag: StandardSet
   and StandardSet + Date type the column by the documented map; the rows never enter. *)
Theorem C17_standard_set :
  forall tau name nullable,
    detect_type_col standard_set [mkField name tau nullable] = Ok (doc_map false tau).
Proof. intros tau name nullable. destruct tau; vm_compute; reflexivity. Qed.
Print Assumptions C17_standard_set.

Theorem C17_standard_set_with_date :
  forall tau name nullable,
    detect_type_col (standard_set ++ [tDate]) [mkField name tau nullable] = Ok (doc_map true tau).
Proof. intros tau name nullable. destruct tau; vm_compute; reflexivity. Qed.
Print Assumptions C17_standard_set_with_date.

(* a typeset without DateTime / Float answers with the nearest included ancestor *)
Theorem C17_nearest_ancestor :
  forall name nullable,
    detect_type_col [tGeneric; tObject; tString; tInteger] [mkField name STimestamp nullable] = Ok tGeneric /\
    detect_type_col [tGeneric; tObject; tInteger] [mkField name SString nullable] = Ok tObject /\
    detect_type_col [tGeneric; tObject; tInteger] [mkField name SDouble nullable] = Ok tGeneric.
Proof. intros. repeat split; vm_compute; reflexivity. Qed.

(* the complete set of shipped types gives the same answers except Date (and never Count etc.,
   which have no Spark implementation) *)
Theorem C17_complete_set :
  forall tau name nullable,
    detect_type_col complete_set [mkField name tau nullable] = Ok (doc_map true tau).
Proof. intros tau name nullable. destruct tau; vm_compute; reflexivity. Qed.

(* Whole frames: the cast result is the input frame itself, whatever its columns *)
Section Frames.
  Context {T D St L F : Type} (X : ctx T D St L F).
  Theorem C17_frame_result_is_input fuel (df : F) root g out :
    _traverse_graph_spark_dataframe X fuel df root g = Ok out -> fst (fst out) = df.
  Proof.
    unfold _traverse_graph_spark_dataframe. cbn zeta.
    destruct (map_res _ (frame_columns X df)) as [cols|e]; cbn [bind ret]; [|discriminate].
    match goal with |- context [for_each ?l ?v ?b] => pose proof (for_each_continue l b) as Hc end.
    match type of Hc with ?P -> _ => assert (Hp : P) end.
    { intros [k [[s p] st]] [[[a b] c] u]. cbn. exact I. }
    specialize (Hc Hp ([], [], [], tt)).
    match goal with |- context [for_each ?l ?v ?b] => destruct (for_each l v b) as [[r|[[[b1 b2] b3] u]]|e] end;
      try contradiction; cbn [bind ret]; [|discriminate].
    intro H; inversion H; reflexivity.
  Qed.
End Frames.
Print Assumptions C17_frame_result_is_input.
