(* AlgebraTheory: the typeset algebra (GENERATED __add__/__sub__/replace/Type.__add__) as set algebra,
   on top of the well-formedness theorem of GraphWF.v. *)
From Coq Require Import List Bool ZArith Lia Permutation Arith.
Import ListNotations.
From V Require Import PyBase NxModel NxFacts Engine_gen Graph_bridge GraphWF.
Open Scope py_scope.

Section Algebra.
  Context {T D St L F : Type} (X : ctx T D St L F) (rk : T -> nat).
  Notation eqb := (T_eqb X).
  Notation VTS := (VisionsTypeset T D St).
  Hypothesis Heq : forall a b, eqb a b = true <-> a = b.
  Hypothesis Hty : forall t r, In r (relations X t) -> type_ r = t.
  Hypothesis Hperm : forall l, NoDup l -> Permutation (set_iter X l) l.
  Hypothesis Hgen : forall t, is_generic X t = true <-> t = Generic X.
  Hypothesis HG : relations X (Generic X) = [].
  Hypothesis Huniq : forall t r r', In r (relations X t) -> In r' (relations X t) -> related_type r = related_type r' -> r = r'.
  Hypothesis Hone : forall t r r', In r (relations X t) -> In r' (relations X t) -> inferential r = false -> inferential r' = false -> r = r'.
  Hypothesis Hrk : forall t r, In r (relations X t) -> rk (related_type r) < rk t.

  (* a set of types a typeset can be built from: contains Generic and every identity parent *)
  Definition closed (S : list T) : Prop :=
    In (Generic X) S /\
    forall t, In t S -> t <> Generic X -> exists r, In r (relations X t) /\ inferential r = false /\ In (related_type r) S.

  Lemma closed_ext S S' : (forall t, In t S <-> In t S') -> closed S -> closed S'.
  Proof.
    intros E [HG' Hp]. split; [apply E; exact HG'|]. intros t Ht Hne. apply E in Ht.
    destruct (Hp t Ht Hne) as [r [A [B C0]]]. exists r. split; [exact A|]. split; [exact B | apply E; exact C0].
  Qed.

  Notation min := (mkset_in X Heq Hperm).

  (* the constructor on a set expression *)
  Definition built (S : list T) (w : list (warning T)) (ts : VTS) (w' : list (warning T)) : Prop :=
    (forall t, In t (types ts) <-> In t S) /\ _root_node ts = Some (Generic X) /\
    wf_result X rk (mkset X (mkset X S)) w ts w'.

  Lemma init_on_set S w : closed S ->
    exists ts w', VT_init X (VT_blank X) (mkset X S) w = Ok (tt, ts, w') /\ built S w ts w'.
  Proof.
    intros [HG' Hp].
    destruct (typeset_well_formed X rk Heq Hty Hperm Hgen HG Huniq Hone Hrk (mkset X S) w) as [ts [w' [E W]]].
    - apply (proj2 (min _ _)). exact HG'.
    - intros t Ht Hne. apply (proj1 (min _ _)) in Ht. destruct (Hp t Ht Hne) as [r [A [B C0]]].
      exists r. split; [exact A|]. split; [exact B | apply (proj2 (min _ _)); exact C0].
    - exists ts, w'. split; [exact E|]. split; [|split; [exact (wf_root _ _ _ _ _ _ W) | exact W]].
      intro t. split; intro H.
      + apply (Permutation_in _ (wf_types _ _ _ _ _ _ W)) in H. apply (proj1 (min _ _)) in H. apply (proj1 (min _ _)) in H. exact H.
      + apply (Permutation_in _ (Permutation_sym (wf_types _ _ _ _ _ _ W))). apply (proj2 (min _ _)). apply (proj2 (min _ _)). exact H.
  Qed.

  (* what the right operand contributes *)
  Definition operand_types (o : T + VTS) : list T := match o with inl t => [t] | inr ts => types ts end.

  Lemma get_other_type self o : exists l, VT_get_other_type X self o = Ok l /\ forall t, In t l <-> In t (operand_types o).
  Proof.
    unfold VT_get_other_type. cbv zeta. destruct o as [t|ts]; cbn [ret operand_types].
    - exists (mkset X [t]). split; [reflexivity|]. intro x. apply min.
    - exists (mkset X (types ts)). split; [reflexivity|]. intro x. apply min.
  Qed.

  (* ---- + is union *)
  Theorem add_is_union self o w :
    closed (types self ++ operand_types o) ->
    exists ts w', VT_add X self o w = Ok (ts, w') /\
      (forall t, In t (types ts) <-> In t (types self) \/ In t (operand_types o)) /\
      _root_node ts = Some (Generic X) /\
      exists S, (forall t, In t S <-> In t (types self) \/ In t (operand_types o)) /\ built S w ts w'.
  Proof.
    intro Hc. unfold VT_add. cbv zeta. destruct (get_other_type self o) as [l [El Hl]]. rewrite El. cbn [bind].
    assert (Hc' : closed (types self ++ l)).
    { apply (closed_ext (types self ++ operand_types o)); [|exact Hc]. intro t. rewrite !in_app_iff, Hl. tauto. }
    destruct (init_on_set (types self ++ l) w Hc') as [ts [w' [E B]]]. rewrite E. cbn [bind ret].
    exists ts, w'. split; [reflexivity|]. destruct B as [B1 [B2 B3]].
    assert (M : forall t, In t (types self ++ l) <-> In t (types self) \/ In t (operand_types o)) by (intro t; rewrite in_app_iff, Hl; tauto).
    split; [intro t; rewrite B1; apply M|]. split; [exact B2|].
    exists (types self ++ l). split; [exact M|]. split; [exact B1|]. split; assumption.
  Qed.

  Lemma set_diff_in a b t : In t (set_diff X a b) <-> In t a /\ ~ In t b.
  Proof.
    unfold set_diff. cbv zeta. rewrite filter_In. split; intros [H1 H2]; split; try exact H1.
    - apply negb_true_iff in H2. apply (memb_false eqb Heq). exact H2.
    - apply negb_true_iff. apply (memb_false eqb Heq). exact H2.
  Qed.

  (* ---- - is difference *)
  Theorem sub_is_difference self o w :
    closed (set_diff X (types self) (operand_types o)) ->
    exists ts w', VT_sub X self o w = Ok (ts, w') /\
      (forall t, In t (types ts) <-> In t (types self) /\ ~ In t (operand_types o)) /\
      _root_node ts = Some (Generic X) /\
      exists S, (forall t, In t S <-> In t (types self) /\ ~ In t (operand_types o)) /\ built S w ts w'.
  Proof.
    intro Hc. unfold VT_sub. cbv zeta. destruct (get_other_type self o) as [l [El Hl]]. rewrite El. cbn [bind].
    assert (M : forall t, In t (set_diff X (types self) l) <-> In t (types self) /\ ~ In t (operand_types o)).
    { intro t. rewrite set_diff_in, Hl. tauto. }
    assert (Hc' : closed (set_diff X (types self) l)).
    { apply (closed_ext (set_diff X (types self) (operand_types o))); [|exact Hc]. intro t. rewrite M, set_diff_in. tauto. }
    destruct (init_on_set _ w Hc') as [ts [w' [E B]]]. rewrite E. cbn [bind ret].
    exists ts, w'. split; [reflexivity|]. destruct B as [B1 [B2 B3]].
    split; [intro t; rewrite B1; apply M|]. split; [exact B2|].
    exists (set_diff X (types self) l). split; [exact M|]. split; [exact B1|]. split; assumption.
  Qed.

  (* ---- in-place forms are the pure forms *)
  Theorem iadd_is_add self o w : VT_iadd X self o w = VT_add X self o w.
  Proof. unfold VT_iadd. cbv zeta. destruct (VT_add X self o w) as [[a b]|e]; reflexivity. Qed.
  Theorem isub_is_sub self o w : VT_isub X self o w = VT_sub X self o w.
  Proof. unfold VT_isub. cbv zeta. destruct (VT_sub X self o w) as [[a b]|e]; reflexivity. Qed.

  (* ---- replace is substitution (KeyError when [old] is absent and differs from [new]) *)
  Theorem replace_is_substitution self old new w :
    (In old (types self) \/ old = new) ->
    closed (set_diff X (types self ++ [new]) [old]) ->
    exists ts w', VT_replace X self old new w = Ok (ts, w') /\
      (forall t, In t (types ts) <-> (In t (types self) \/ t = new) /\ t <> old) /\
      _root_node ts = Some (Generic X).
  Proof.
    intros Hold Hc. unfold VT_replace, set_remove. cbv zeta.
    set (A := mkset X (mkset X (types self) ++ [new])).
    assert (MA : forall t, In t A <-> In t (types self) \/ t = new).
    { intro t. unfold A. rewrite min, in_app_iff, min. simpl. intuition. }
    assert (Hin : memb eqb old A = true).
    { apply (memb_In eqb Heq). apply MA. destruct Hold as [H|H]; [left; exact H | right; exact H]. }
    rewrite Hin. cbn [bind].
    assert (M : forall t, In t (set_diff X A [old]) <-> (In t (types self) \/ t = new) /\ t <> old).
    { intro t. rewrite set_diff_in, MA. simpl. intuition. }
    assert (Hc' : closed (set_diff X A [old])).
    { apply (closed_ext (set_diff X (types self ++ [new]) [old])); [|exact Hc]. intro t. rewrite M, set_diff_in, in_app_iff. simpl. intuition. }
    destruct (init_on_set _ w Hc') as [ts [w' [E B]]]. rewrite E. cbn [bind ret].
    exists ts, w'. split; [reflexivity|]. destruct B as [B1 [B2 _]]. split; [intro t; rewrite B1; apply M | exact B2].
  Qed.

  Theorem replace_absent_raises self old new w :
    ~ In old (types self) -> old <> new -> VT_replace X self old new w = Raise KeyError.
  Proof.
    intros H1 H2. unfold VT_replace, set_remove. cbv zeta.
    assert (Hin : memb eqb old (mkset X (mkset X (types self) ++ [new])) = false).
    { apply (memb_false eqb Heq). rewrite min, in_app_iff, min. simpl. intuition. }
    rewrite Hin. reflexivity.
  Qed.

  (* ---- Type + Type = {Generic, T, U} *)
  Theorem type_plus_type t u w :
    closed [Generic X; t; u] ->
    exists ts w', Type_add X t u w = Ok (ts, w') /\
      (forall x, In x (types ts) <-> x = Generic X \/ x = t \/ x = u) /\ _root_node ts = Some (Generic X).
  Proof.
    intro Hc. unfold Type_add. cbv zeta. cbn [py_any bind ret].
    destruct (is_generic X t) eqn:Et; cbn [bind ret negb].
    - apply Hgen in Et. subst t.
      assert (Hc' : closed [Generic X; u]) by (apply (closed_ext [Generic X; Generic X; u]); [intro x; simpl; tauto | exact Hc]).
      destruct (init_on_set _ w Hc') as [ts [w' [E [B1 [B2 _]]]]]. rewrite E. cbn [bind ret].
      exists ts, w'. split; [reflexivity|]. split; [intro x; rewrite B1; simpl; intuition | exact B2].
    - destruct (is_generic X u) eqn:Eu; cbn [bind ret negb].
      + apply Hgen in Eu. subst u.
        assert (Hc' : closed [t; Generic X]) by (apply (closed_ext [Generic X; t; Generic X]); [intro x; simpl; tauto | exact Hc]).
        destruct (init_on_set _ w Hc') as [ts [w' [E [B1 [B2 _]]]]]. rewrite E. cbn [bind ret].
        exists ts, w'. split; [reflexivity|]. split; [intro x; rewrite B1; simpl; intuition | exact B2].
      + destruct (init_on_set _ w Hc) as [ts [w' [E [B1 [B2 _]]]]]. rewrite E. cbn [bind ret].
        exists ts, w'. split; [reflexivity|]. split; [intro x; rewrite B1; simpl; intuition | exact B2].
  Qed.

  (* ---- a constructed typeset is determined by its SET of types: graphs, styles, root *)
  Theorem result_determined_by_type_set n1 n2 wa wb ts1 ts2 w1 w2 :
    wf_result X rk n1 wa ts1 w1 -> wf_result X rk n2 wb ts2 w2 -> (forall t, In t n1 <-> In t n2) ->
    _root_node ts1 = _root_node ts2 /\
    (forall u v, edge_at eqb (relation_graph ts1) u v = edge_at eqb (relation_graph ts2) u v) /\
    (forall u v, edge_at eqb (base_graph ts1) u v = edge_at eqb (base_graph ts2) u v).
  Proof.
    intros W1 W2 Hin. split; [rewrite (wf_root _ _ _ _ _ _ W1), (wf_root _ _ _ _ _ _ W2); reflexivity|]. split.
    - intros u v. destruct (edge_at eqb (relation_graph ts1) u v) as [a|] eqn:Ea.
      + symmetry. apply (wf_edges _ _ _ _ _ _ W2). apply (wf_edges _ _ _ _ _ _ W1) in Ea.
        destruct Ea as [Hu [Hv Hr]]. split; [apply Hin; exact Hu|]. split; [apply Hin; exact Hv | exact Hr].
      + destruct (edge_at eqb (relation_graph ts2) u v) as [b|] eqn:Eb; [|reflexivity].
        apply (wf_edges _ _ _ _ _ _ W2) in Eb. destruct Eb as [Hu [Hv Hr]].
        assert (K : edge_at eqb (relation_graph ts1) u v = Some b)
          by (apply (wf_edges _ _ _ _ _ _ W1); split; [apply Hin; exact Hu|]; split; [apply Hin; exact Hv | exact Hr]).
        congruence.
    - intros u v. destruct (edge_at eqb (base_graph ts1) u v) as [a|] eqn:Ea.
      + symmetry. apply (wf_base_edges _ _ _ _ _ _ W2). apply (wf_base_edges _ _ _ _ _ _ W1) in Ea.
        destruct Ea as [Hu [Hv Hr]]. split; [apply Hin; exact Hu|]. split; [apply Hin; exact Hv | exact Hr].
      + destruct (edge_at eqb (base_graph ts2) u v) as [b|] eqn:Eb; [|reflexivity].
        apply (wf_base_edges _ _ _ _ _ _ W2) in Eb. destruct Eb as [Hu [Hv Hr]].
        assert (K : edge_at eqb (base_graph ts1) u v = Some b)
          by (apply (wf_base_edges _ _ _ _ _ _ W1); split; [apply Hin; exact Hu|]; split; [apply Hin; exact Hv | exact Hr]).
        congruence.
  Qed.

  Definition same_typeset (ts1 ts2 : VTS) : Prop :=
    (forall t, In t (types ts1) <-> In t (types ts2)) /\ _root_node ts1 = _root_node ts2 /\
    (forall u v, edge_at eqb (relation_graph ts1) u v = edge_at eqb (relation_graph ts2) u v) /\
    (forall u v, edge_at eqb (base_graph ts1) u v = edge_at eqb (base_graph ts2) u v).

  Lemma built_same S1 S2 wa wb ts1 ts2 w1 w2 :
    built S1 wa ts1 w1 -> built S2 wb ts2 w2 -> (forall t, In t S1 <-> In t S2) -> same_typeset ts1 ts2.
  Proof.
    intros [A1 [A2 A3]] [B1 [B2 B3]] E. split; [intro t; rewrite A1, B1; apply E|].
    apply (result_determined_by_type_set _ _ _ _ _ _ _ _ A3 B3). intro t. rewrite !min. apply E.
  Qed.

  (* ---- set laws *)
  Theorem add_commutes a b w ra wa rb wb :
    closed (types a ++ types b) ->
    VT_add X a (inr b) w = Ok (ra, wa) -> VT_add X b (inr a) w = Ok (rb, wb) -> same_typeset ra rb.
  Proof.
    intros Hc Ea Eb.
    destruct (add_is_union a (inr b) w Hc) as [ts [w' [E [_ [_ [S [MS B]]]]]]]. rewrite Ea in E. inversion E; subst ts w'.
    assert (Hc' : closed (types b ++ types a)) by (apply (closed_ext (types a ++ types b)); [intro t; rewrite !in_app_iff; tauto | exact Hc]).
    destruct (add_is_union b (inr a) w Hc') as [ts [w' [E' [_ [_ [S' [MS' B']]]]]]]. rewrite Eb in E'. inversion E'; subst ts w'.
    apply (built_same S S' _ _ _ _ _ _ B B'). intro t. rewrite MS, MS'. simpl. tauto.
  Qed.

  Theorem add_idempotent a w ra wa :
    closed (types a) -> VT_add X a (inr a) w = Ok (ra, wa) -> forall t, In t (types ra) <-> In t (types a).
  Proof.
    intros Hc Ea.
    assert (Hc' : closed (types a ++ types a)) by (apply (closed_ext (types a)); [intro t; rewrite in_app_iff; tauto | exact Hc]).
    destruct (add_is_union a (inr a) w Hc') as [ts [w' [E [M _]]]]. rewrite Ea in E. inversion E; subst ts w'.
    intro t. rewrite M. simpl. tauto.
  Qed.

  Theorem add_associative a b c w ab wab r1 w1 bc wbc r2 w2 :
    closed (types a ++ types b) -> closed (types b ++ types c) -> closed (types a ++ types b ++ types c) ->
    VT_add X a (inr b) w = Ok (ab, wab) -> VT_add X ab (inr c) w = Ok (r1, w1) ->
    VT_add X b (inr c) w = Ok (bc, wbc) -> VT_add X a (inr bc) w = Ok (r2, w2) ->
    same_typeset r1 r2.
  Proof.
    intros Hab Hbc Habc E1 E2 E3 E4.
    destruct (add_is_union a (inr b) w Hab) as [ts [w' [E [Mab _]]]]. rewrite E1 in E. inversion E; subst ts w'. clear E.
    destruct (add_is_union b (inr c) w Hbc) as [ts [w' [E [Mbc _]]]]. rewrite E3 in E. inversion E; subst ts w'. clear E.
    assert (C1 : closed (types ab ++ types c)).
    { apply (closed_ext (types a ++ types b ++ types c)); [|exact Habc]. intro t. rewrite !in_app_iff, Mab. simpl. tauto. }
    assert (C2 : closed (types a ++ types bc)).
    { apply (closed_ext (types a ++ types b ++ types c)); [|exact Habc]. intro t. rewrite !in_app_iff, Mbc. simpl. tauto. }
    destruct (add_is_union ab (inr c) w C1) as [ts [w' [E [_ [_ [S [MS B]]]]]]]. rewrite E2 in E. inversion E; subst ts w'. clear E.
    destruct (add_is_union a (inr bc) w C2) as [ts [w' [E [_ [_ [S' [MS' B']]]]]]]. rewrite E4 in E. inversion E; subst ts w'. clear E.
    apply (built_same S S' _ _ _ _ _ _ B B'). intro t. rewrite MS, MS'. simpl. rewrite Mab, Mbc. simpl. tauto.
  Qed.

  (* removing and adding back a leaf type gives the same typeset *)
  Theorem sub_then_add_restores a t w r1 w1 r2 w2 :
    closed (types a) -> In t (types a) -> closed (set_diff X (types a) [t]) ->
    VT_sub X a (inl t) w = Ok (r1, w1) -> VT_add X r1 (inl t) w = Ok (r2, w2) ->
    forall x, In x (types r2) <-> In x (types a).
  Proof.
    intros Hc Ht Hc' E1 E2.
    destruct (sub_is_difference a (inl t) w Hc') as [ts [w' [E [M1 _]]]]. rewrite E1 in E. inversion E; subst ts w'. clear E.
    assert (C : closed (types r1 ++ [t])).
    { apply (closed_ext (types a)); [|exact Hc]. intro x. rewrite in_app_iff, M1. simpl.
      destruct (eqb x t) eqn:Ex; [apply Heq in Ex; subst; tauto|].
      assert (x <> t) by (intro; subst; rewrite (eqb_refl eqb Heq) in Ex; discriminate). intuition congruence. }
    destruct (add_is_union r1 (inl t) w C) as [ts [w' [E [M2 _]]]]. rewrite E2 in E. inversion E; subst ts w'. clear E.
    intro x. rewrite M2, M1. simpl.
    destruct (eqb x t) eqn:Ex; [apply Heq in Ex; subst; tauto|].
    assert (x <> t) by (intro; subst; rewrite (eqb_refl eqb Heq) in Ex; discriminate). intuition congruence.
  Qed.
End Algebra.

(* the hypotheses on the relation table, bundled *)
Definition table_ok {T D St L F} (X : ctx T D St L F) (rk : T -> nat) : Prop :=
  (forall a b, T_eqb X a b = true <-> a = b) /\
  (forall t r, In r (relations X t) -> type_ r = t) /\
  (forall l, NoDup l -> Permutation (set_iter X l) l) /\
  (forall t, is_generic X t = true <-> t = Generic X) /\
  relations X (Generic X) = [] /\
  (forall t r r', In r (relations X t) -> In r' (relations X t) -> related_type r = related_type r' -> r = r') /\
  (forall t r r', In r (relations X t) -> In r' (relations X t) -> inferential r = false -> inferential r' = false -> r = r') /\
  (forall t r, In r (relations X t) -> rk (related_type r) < rk t).

Section Bundled.
  Context {T D St L F : Type} (X : ctx T D St L F) (rk : T -> nat) (H : table_ok X rk).
  Notation VTS := (VisionsTypeset T D St).

  Theorem alg_add_is_union self o w :
    closed X (types self ++ operand_types o) ->
    exists ts w', VT_add X self o w = Ok (ts, w') /\
      (forall t, In t (types ts) <-> In t (types self) \/ In t (operand_types o)) /\
      _root_node ts = Some (Generic X) /\
      exists S, (forall t, In t S <-> In t (types self) \/ In t (operand_types o)) /\ built X rk S w ts w'.
  Proof. destruct H as [H1 [H2 [H3 [H4 [H5 [H6 [H7 H8]]]]]]]. apply add_is_union; assumption. Qed.

  Theorem alg_sub_is_difference self o w :
    closed X (set_diff X (types self) (operand_types o)) ->
    exists ts w', VT_sub X self o w = Ok (ts, w') /\
      (forall t, In t (types ts) <-> In t (types self) /\ ~ In t (operand_types o)) /\
      _root_node ts = Some (Generic X) /\
      exists S, (forall t, In t S <-> In t (types self) /\ ~ In t (operand_types o)) /\ built X rk S w ts w'.
  Proof. destruct H as [H1 [H2 [H3 [H4 [H5 [H6 [H7 H8]]]]]]]. apply sub_is_difference; assumption. Qed.

  Theorem alg_replace_is_substitution self old new w :
    (In old (types self) \/ old = new) ->
    closed X (set_diff X (types self ++ [new]) [old]) ->
    exists ts w', VT_replace X self old new w = Ok (ts, w') /\
      (forall t, In t (types ts) <-> (In t (types self) \/ t = new) /\ t <> old) /\
      _root_node ts = Some (Generic X).
  Proof. destruct H as [H1 [H2 [H3 [H4 [H5 [H6 [H7 H8]]]]]]]. apply (replace_is_substitution X rk); assumption. Qed.

  Theorem alg_replace_absent_raises self old new w :
    ~ In old (types self) -> old <> new -> VT_replace X self old new w = Raise KeyError.
  Proof. destruct H as [H1 [H2 [H3 _]]]. apply replace_absent_raises; assumption. Qed.

  Theorem alg_type_plus_type t u w :
    closed X [Generic X; t; u] ->
    exists ts w', Type_add X t u w = Ok (ts, w') /\
      (forall x, In x (types ts) <-> x = Generic X \/ x = t \/ x = u) /\ _root_node ts = Some (Generic X).
  Proof. destruct H as [H1 [H2 [H3 [H4 [H5 [H6 [H7 H8]]]]]]]. apply (type_plus_type X rk); assumption. Qed.

  Theorem alg_add_commutes a b w ra wa rb wb :
    closed X (types a ++ types b) ->
    VT_add X a (inr b) w = Ok (ra, wa) -> VT_add X b (inr a) w = Ok (rb, wb) -> same_typeset X ra rb.
  Proof. destruct H as [H1 [H2 [H3 [H4 [H5 [H6 [H7 H8]]]]]]]. apply (add_commutes X rk); assumption. Qed.

  Theorem alg_add_idempotent a w ra wa :
    closed X (types a) -> VT_add X a (inr a) w = Ok (ra, wa) -> forall t, In t (types ra) <-> In t (types a).
  Proof. destruct H as [H1 [H2 [H3 [H4 [H5 [H6 [H7 H8]]]]]]]. apply (add_idempotent X rk); assumption. Qed.

  Theorem alg_add_associative a b c w ab wab r1 w1 bc wbc r2 w2 :
    closed X (types a ++ types b) -> closed X (types b ++ types c) -> closed X (types a ++ types b ++ types c) ->
    VT_add X a (inr b) w = Ok (ab, wab) -> VT_add X ab (inr c) w = Ok (r1, w1) ->
    VT_add X b (inr c) w = Ok (bc, wbc) -> VT_add X a (inr bc) w = Ok (r2, w2) ->
    same_typeset X r1 r2.
  Proof. destruct H as [H1 [H2 [H3 [H4 [H5 [H6 [H7 H8]]]]]]]. apply (add_associative X rk); assumption. Qed.

  Theorem alg_sub_then_add_restores a t w r1 w1 r2 w2 :
    closed X (types a) -> In t (types a) -> closed X (set_diff X (types a) [t]) ->
    VT_sub X a (inl t) w = Ok (r1, w1) -> VT_add X r1 (inl t) w = Ok (r2, w2) ->
    forall x, In x (types r2) <-> In x (types a).
  Proof. destruct H as [H1 [H2 [H3 [H4 [H5 [H6 [H7 H8]]]]]]]. apply (sub_then_add_restores X rk); assumption. Qed.
End Bundled.
