"""Generator streams of pandas Series / numpy arrays / Python lists shared by the data-level
checks (DESIGN.md Appendix C).  Every generated input is a *recipe*: a Python expression that
rebuilds the object in the namespace NS, so a replay file is self-contained."""
import datetime
import ipaddress
import itertools
import os
import pathlib
import random
import uuid
import warnings
from urllib.parse import urlparse

import numpy as np
import pandas as pd

FIXDIR = "/var/tmp/visions-verif-fixtures"


def fixtures():
    """files that exist, for File / Image"""
    os.makedirs(FIXDIR, exist_ok=True)
    txt = os.path.join(FIXDIR, "a.txt")
    if not os.path.exists(txt):
        open(txt, "w").write("x")
    png = os.path.join(FIXDIR, "p.png")
    if not os.path.exists(png):
        import base64
        open(png, "wb").write(base64.b64decode(
            "iVBORw0KGgoAAAANSUhEUgAAAAEAAAABCAYAAAAfFcSJAAAADUlEQVR42mP8z8BQDwAEhQGAhKmMIQAAAABJRU5ErkJggg=="))
    return txt, png


def ns():
    from shapely import wkt
    from visions.types.email_address import FQDA
    return {"pd": pd, "np": np, "datetime": datetime, "pathlib": pathlib, "uuid": uuid, "ipaddress": ipaddress,
            "urlparse": urlparse, "FQDA": FQDA, "wkt": wkt, "nan": float("nan"), "inf": float("inf")}


_NS = None


def build(recipe):
    global _NS
    if _NS is None:
        _NS = ns()
    with warnings.catch_warnings():
        warnings.simplefilter("ignore")
        return eval(recipe, _NS)  # noqa: S307  (recipes are written by this harness only)


TXT, PNG = None, None

# ------------------------------------------------------------------ value pools (python source text)
POOLS = {
    "int": ["0", "1", "-1", "2", "255", "2**40", "-7", "10"],
    "count": ["0", "1", "2", "255", "1000"],
    "float": ["0.5", "1.5", "-2.25", "1e300", "0.1", "3.75", "inf"],
    "intfloat": ["0.0", "1.0", "-2.0", "3.0", "1e10"],
    "bigintfloat": ["2.0**53", "2.0**62", "-2.0**63", "9007199254740992.0"],
    "hugefloat": ["2.0**63", "-2.0**64", "1e19", "2.0**63 + 2048"],
    "tzmidnight": ["pd.Timestamp('2020-01-01', tz='Europe/Amsterdam')", "pd.Timestamp('2021-06-15', tz='Europe/Amsterdam')"],
    "tzmidnight_east": ["pd.Timestamp('2020-01-01', tz='Asia/Tokyo')", "pd.Timestamp('2021-06-15', tz='Asia/Tokyo')"],
    "tzmidnight_west": ["pd.Timestamp('2020-01-01', tz='US/Pacific')", "pd.Timestamp('2021-06-15', tz='US/Pacific')"],
    "tzdatetime": ["pd.Timestamp('2020-01-01 09:00', tz='Asia/Tokyo')", "pd.Timestamp('2021-06-15 17:30', tz='Asia/Tokyo')"],
    "tzutcmidnight_local": ["pd.Timestamp('2020-01-01 09:00', tz='Asia/Tokyo')", "pd.Timestamp('2021-06-15 09:00', tz='Asia/Tokyo')"],
    "tzdatestr": ["'2020-01-01T00:00:00+09:00'", "'2021-06-15T00:00:00+09:00'"],
    "bool": ["True", "False"],
    "text": ["'a'", "'hello world'", "'xyz'", "'ß'", "'x y'", "'foo'"],
    "floatstr": ["'1.5'", "'0.25'", "'-2.5'", "'1.5e-1'", "'3.75'", "'.5'"],
    "intstr": ["'1'", "'2'", "'-3'", "'10'", "'0'"],
    "intfloatstr": ["'1.0'", "'2.0'", "'-3.0'"],
    "boolstr": ["'True'", "'false'", "'TRUE'", "'False'"],
    "ynstr": ["'yes'", "'No'", "'YES'", "'no'"],
    "ynstr1": ["'Y'", "'n'", "'y'", "'N'"],
    "complex": ["(1+2j)", "(0.5-1j)", "3j"],
    "zimcomplex": ["(1.5+0j)", "(2.5+0j)", "(-3.25+0j)"],
    "complexstr": ["'1+2j'", "'0.5-1j'", "'3j'"],
    "datetime": ["pd.Timestamp('2020-01-01 12:30:00')", "pd.Timestamp('1999-12-31 23:59:59')", "pd.Timestamp('2021-06-15 01:02:03')"],
    "pydatetime": ["datetime.datetime(2020, 1, 1, 12, 30)", "datetime.datetime(1999, 12, 31, 23, 59)"],
    "middatetime": ["pd.Timestamp('2020-01-01')", "pd.Timestamp('1999-12-31')"],
    "datetimestr": ["'2020-01-01 12:30:00'", "'1999-12-31 23:59:59'", "'2021-06-15 01:02:03'"],
    "datestr": ["'2020-01-01'", "'1999-12-31'", "'2021-06-15'"],
    "date": ["datetime.date(2020, 1, 1)", "datetime.date(1999, 12, 31)"],
    "time": ["datetime.time(1, 2, 3)", "datetime.time(23, 59)"],
    "timedelta": ["pd.Timedelta(days=1)", "pd.Timedelta(hours=3)", "datetime.timedelta(seconds=5)"],
    "url": ["urlparse('http://www.cwi.nl:80/%7Eguido/Python.html')", "urlparse('https://github.com/x/y')"],
    "urlstr": ["'http://www.cwi.nl:80/%7Eguido/Python.html'", "'https://github.com/x/y'", "'ftp://a.b/c'"],
    "path": ["pathlib.PurePosixPath('/home/user/file.txt')", "pathlib.PureWindowsPath('C:\\\\Users\\\\x.txt')", "pathlib.PurePosixPath('/tmp')"],
    "pathstr": ["'/home/user/file.txt'", "'/usr/bin'", "'/tmp/x y'", "'//fileserver/share/q1.csv'"],
    "winpathstr": ["'C:\\\\Users\\\\x.txt'", "'D:\\\\data'"],
    "ip": ["ipaddress.ip_address('127.0.0.1')", "ipaddress.ip_address('::1')", "ipaddress.ip_address('8.8.8.8')"],
    "ipstr": ["'127.0.0.1'", "'::1'", "'8.8.8.8'"],
    "uuid": ["uuid.UUID('0b8a22ca-80ad-4df5-85ac-fa49c44b7ede')", "uuid.UUID('aaa381d6-8442-4f63-88c8-7c900e9a23c6')"],
    "uuidstr": ["'0b8a22ca-80ad-4df5-85ac-fa49c44b7ede'", "'aaa381d6-8442-4f63-88c8-7c900e9a23c6'"],
    "email": ["FQDA('example', 'gmail.com')", "FQDA('a.b', 'x.org')"],
    "emailstr": ["'example@gmail.com'", "'a.b@x.org'"],
    "geom": ["wkt.loads('POINT (-92 42)')", "wkt.loads('POINT (1 2)')"],
    "geomstr": ["'POINT (-92 42)'", "'POINT (1 2)'", "'LINESTRING (0 0, 1 1)'"],
    "other": ["(1, 2)", "[1]", "b'x'", "{'a': 1}", "object()"],
    "nullstr": ["'nan'", "'NaN'", "'NAN'", "'-nan'", "'NaT'", "'None'", "'<NA>'", "'null'", "''", "'inf'", "'-inf'"],
}
NULLS = ["None", "nan", "pd.NA", "pd.NaT"]

# (family, pool, dtype expressions that can carry it)
ENCODINGS = [
    ("Integer", "int", ["None", "'int8'", "'int16'", "'int32'", "'int64'", "'Int8'", "'Int16'", "'Int32'", "'Int64'"]),
    ("Integer", "count", ["'uint8'", "'uint16'", "'uint32'", "'uint64'", "'UInt8'", "'UInt16'", "'UInt32'", "'UInt64'"]),
    ("Integer", "intfloat", ["None", "'float32'", "'float64'", "'Float32'", "'Float64'"]),
    ("Integer", "intfloatstr", ["None", "object", "'string'"]),
    ("Float", "float", ["None", "'float64'", "'Float64'"]),
    ("Integer", "int", ["object"]),
    ("Float", "float", ["object"]),
    ("Complex", "complex", ["object"]),
    ("DateTime", "datetime", ["object"]),
    ("TimeDelta", "timedelta", ["object"]),
    ("Float", "floatstr", ["None", "object", "'string'"]),
    ("Boolean", "bool", ["None", "'bool'", "'boolean'", "object"]),
    ("Boolean", "boolstr", ["None", "object", "'string'"]),
    ("Boolean", "ynstr", ["None", "object"]),
    ("Boolean", "ynstr1", ["None", "object"]),
    ("String", "text", ["None", "object", "'string'", "'str'"]),
    ("Complex", "complex", ["None", "'complex64'", "'complex128'"]),
    ("Complex", "complexstr", ["None", "object"]),
    ("Float", "zimcomplex", ["None", "'complex128'"]),
    ("DateTime", "datetime", ["None", "'datetime64[ns]'"]),
    ("DateTime", "pydatetime", ["None"]),
    ("DateTime", "datetimestr", ["None", "object"]),
    ("Date", "middatetime", ["None"]),
    ("Date", "tzmidnight", ["None"]),
    ("Date", "tzmidnight_east", ["None"]),
    ("Date", "tzmidnight_west", ["None"]),
    ("DateTime", "tzdatetime", ["None"]),
    ("DateTime", "tzutcmidnight_local", ["None"]),
    ("Date", "tzdatestr", ["None"]),
    ("Integer", "bigintfloat", ["None", "'float64'"]),
    ("Float", "hugefloat", ["None", "'float64'"]),
    ("Date", "date", ["None", "object"]),
    ("Date", "datestr", ["None"]),
    ("Time", "time", ["None", "object"]),
    ("TimeDelta", "timedelta", ["None", "'timedelta64[ns]'"]),
    ("Categorical", "text", ["'category'"]),
    ("Categorical", "int", ["'category'"]),
    ("Ordinal", "int", ["pd.CategoricalDtype(ordered=True)"]),
    ("URL", "url", ["None", "object"]),
    ("URL", "urlstr", ["None", "object"]),
    ("Path", "path", ["None", "object"]),
    ("Path", "pathstr", ["None"]),
    ("Path", "winpathstr", ["None"]),
    ("IPAddress", "ip", ["None", "object"]),
    ("IPAddress", "ipstr", ["None"]),
    ("UUID", "uuid", ["None", "object"]),
    ("UUID", "uuidstr", ["None"]),
    ("EmailAddress", "email", ["None"]),
    ("EmailAddress", "emailstr", ["None"]),
    ("Geometry", "geom", ["None", "object"]),
    ("Geometry", "geomstr", ["None"]),
    ("Object", "other", ["None", "object"]),
]

INDEXES = ["None", "'rev'", "'dup'", "'str'"]


def series_recipe(values, dtype="None", index="None", name="None"):
    n = len(values)
    idx = {"None": "", "'rev'": f", index={list(range(n - 1, -1, -1))}", "'dup'": f", index={[i // 2 for i in range(n)]}",
           "'str'": f", index={['r%d' % i for i in range(n)]}"}[index]
    nm = "" if name == "None" else f", name={name}"
    dt = "" if dtype == "None" else f", dtype={dtype}"
    return f"pd.Series([{', '.join(values)}]{dt}{idx}{nm})"


STR_NULLS = {"intstr": ["'nan'", "'NaN'"], "intfloatstr": ["'nan'", "'NAN'"], "floatstr": ["'nan'", "'NaN'"], "datestr": ["'NaT'", "''"], "datetimestr": ["'NaT'"]}
NUMERIC_POOLS = ("int", "count", "float", "intfloat", "bool", "complex", "zimcomplex", "bigintfloat", "hugefloat")
TIME_POOLS = ("datetime", "pydatetime", "middatetime", "timedelta", "tzmidnight", "tzmidnight_east", "tzmidnight_west", "tzdatetime", "tzutcmidnight_local")


def null_ok(dtype, null, pool=None):
    """can this missing-value sentinel sit in a column of this pool/dtype without changing what the
    column IS (pd.NaT in a column of complex numbers makes it a column of mixed objects)"""
    if dtype in ("'int8'", "'int16'", "'int32'", "'int64'", "'uint8'", "'uint16'", "'uint32'", "'uint64'", "'bool'"):
        return False
    if pool in NUMERIC_POOLS and dtype == "None" and null in ("pd.NaT", "pd.NA"):
        return False
    if pool in TIME_POOLS and dtype == "None" and null == "pd.NA":
        return False
    if pool in ("bool",) and dtype == "None" and null == "nan":
        return True
    return True


def family_stream(rnd, n, lengths=(1, 2, 3, 5, 6, 7)):
    """semantic family x encoding x null sentinel x null position x length x index shape x name"""
    out = []
    for _ in range(n):
        fam, pool, dtypes = rnd.choice(ENCODINGS)
        dtype = rnd.choice(dtypes)
        k = rnd.choice(lengths)
        vals = [rnd.choice(POOLS[pool]) for _ in range(k)]
        nullmode = rnd.choice(["none", "none", "first", "middle", "last", "allbutone"])
        null = rnd.choice(NULLS)
        if pool in STR_NULLS and dtype in ("None", "object") and rnd.random() < 0.35:
            null = rnd.choice(STR_NULLS[pool])
        if nullmode != "none" and null_ok(dtype, null, pool):
            if nullmode == "first":
                vals = [null] + vals
            elif nullmode == "last":
                vals = vals + [null]
            elif nullmode == "middle":
                vals = vals[: len(vals) // 2] + [null] + vals[len(vals) // 2:]
            else:
                vals = [null] * len(vals) + [vals[0]]
        else:
            nullmode = "none"
        index = rnd.choice(INDEXES)
        name = rnd.choice(["None", "'col'", "7"])
        out.append({"recipe": series_recipe(vals, dtype, index, name), "family": fam, "pool": pool, "dtype": dtype,
                    "nulls": nullmode, "null": null if nullmode != "none" else None, "len": len(vals), "index": index})
    return out


def grid_stream():
    """deterministic (seed-independent) grid: every encoding x dtype x {no null, None in the middle, NaN first} x {default, duplicated} index, four values"""
    out = []
    for fam, pool, dtypes in ENCODINGS:
        pv = POOLS[pool]
        base = [pv[i % len(pv)] for i in range(4)]
        for dtype in dtypes:
            for nullmode, null in (("none", None), ("middle", "None"), ("first", "nan")):
                vals = list(base)
                if null is not None:
                    if not null_ok(dtype, null, pool):
                        continue
                    vals = vals[:2] + [null] + vals[2:] if nullmode == "middle" else [null] + vals
                for index in ("None", "'dup'"):
                    out.append({"recipe": series_recipe(vals, dtype, index, "None"), "family": fam, "pool": pool, "dtype": dtype,
                                "nulls": nullmode, "null": null, "len": len(vals), "index": index})
    return out


def mixed_stream(rnd, n):
    """heterogeneous / adversarial columns"""
    allpools = list(POOLS)
    out = []
    for _ in range(n):
        k = rnd.randint(0, 5)
        vals = []
        for _ in range(k):
            r = rnd.random()
            if r < 0.15:
                vals.append(rnd.choice(NULLS))
            else:
                vals.append(rnd.choice(POOLS[rnd.choice(allpools)]))
        dtype = rnd.choice(["None", "object", "object", "'category'"])
        out.append({"recipe": series_recipe(vals, dtype, rnd.choice(INDEXES)), "family": "mixed", "pool": "mixed", "dtype": dtype,
                    "nulls": "random", "null": None, "len": len(vals), "index": "any"})
    return out


ALL_DTYPES = ["None", "object", "'category'", "pd.CategoricalDtype(ordered=True)", "'str'", "'string'", "'Int64'", "'Int8'", "'UInt16'", "'Float64'", "'boolean'",
              "'float64'", "'float32'", "'int64'", "'uint8'", "'bool'", "'complex128'", "'datetime64[ns]'", "'timedelta64[ns]'",
              "pd.SparseDtype('float64')", "pd.SparseDtype('int64', 0)", "pd.SparseDtype(object)", "'string[pyarrow]'", "'int64[pyarrow]'", "'bool[pyarrow]'", "'double[pyarrow]'"]


def cross_stream(rnd, n):
    """every value pool under every dtype (most combinations pandas refuses are simply skipped)"""
    pools = list(POOLS)
    out = []
    for _ in range(n):
        pool = rnd.choice(pools)
        dtype = rnd.choice(ALL_DTYPES)
        k = rnd.randint(1, 3)
        vals = [rnd.choice(POOLS[pool]) for _ in range(k)]
        if rnd.random() < 0.3:
            vals.insert(rnd.randrange(len(vals) + 1), rnd.choice(NULLS))
        out.append({"recipe": series_recipe(vals, dtype), "family": "cross", "pool": pool, "dtype": dtype, "nulls": "?", "null": None,
                    "len": len(vals), "index": "None"})
    return out


KIND_REPS = ["None", "nan", "pd.NA", "pd.NaT", "True", "1", "1.5", "(1+2j)", "'a'", "b'a'", "pd.Timestamp('2020-01-01 01:00')", "datetime.datetime(2020, 1, 1, 2)",
             "datetime.date(2020, 1, 1)", "datetime.time(1, 2)", "pd.Timedelta(days=1)", "datetime.timedelta(1)", "pathlib.PurePosixPath('/a')", "pathlib.Path('/tmp')",
             "pathlib.Path('.')", "urlparse('http://a.b/c')", "ipaddress.ip_address('::1')", "uuid.UUID('0b8a22ca-80ad-4df5-85ac-fa49c44b7ede')", "FQDA('a', 'b.c')",
             "wkt.loads('POINT (1 2)')", "(1, 2)", "255", "-1", "0", "2.0"]


def bx_stream(n, rnd=None, limit=None):
    """bounded-exhaustive: every dtype x every list of at most n value kinds (representatives above);
    combinations pandas refuses are skipped when materialised"""
    import itertools
    out = []
    for dtype in ALL_DTYPES:
        for k in range(0, n + 1):
            for combo in itertools.product(KIND_REPS, repeat=k):
                out.append({"recipe": series_recipe(list(combo), dtype), "family": "bx", "pool": "bx%d" % k, "dtype": dtype, "nulls": "?", "null": None,
                            "len": k, "index": "None"})
    if limit and len(out) > limit and rnd is not None:
        keep = [o for o in out if o["len"] <= 1]
        rest = [o for o in out if o["len"] > 1]
        out = keep + rnd.sample(rest, limit - len(keep))
    return out


def special_stream():
    """hand-picked corners (empty, all-null per dtype, sparse, tz-aware, huge ints, ...)"""
    rs = [
        "pd.Series([], dtype=object)", "pd.Series([], dtype='float64')", "pd.Series([], dtype='int64')", "pd.Series([], dtype='str')",
        "pd.Series([None, None])", "pd.Series([nan, nan])", "pd.Series([pd.NA, pd.NA])", "pd.Series([pd.NaT, pd.NaT])",
        "pd.Series([None, None], dtype='str')", "pd.Series([pd.NA], dtype='string')", "pd.Series([pd.NA], dtype='Int64')",
        "pd.Series([pd.NA], dtype='boolean')", "pd.Series([nan], dtype='float64')", "pd.Series([None], dtype='category')",
        "pd.Series([1, 2, 3], dtype=pd.SparseDtype('int64', 0))", "pd.Series([1.0, nan], dtype=pd.SparseDtype('float64'))",
        "pd.Series([pd.Timestamp('2020-01-01', tz='UTC')])", "pd.Series([pd.Timestamp('2020-01-01 05:00', tz='Europe/Amsterdam')])",
        "pd.Series([2**63, 1], dtype=object)", "pd.Series([2**70])", "pd.Series([1, 'a'])", "pd.Series([True, 1])", "pd.Series([1, True])",
        "pd.Series([1, 0], dtype=object)", "pd.Series([1.0, 2.5], dtype=object)", "pd.Series(['1', 2])",
        "pd.Series([pd.Period('2020-01')])", "pd.Series([pd.Interval(0, 1)])", "pd.Series([b'abc', b'd'])",
        "pd.Series(['a', 'b'], dtype='string[pyarrow]')", "pd.Series([1, 2], dtype='int64[pyarrow]')",
        "pd.Series([complex(nan, 0), complex(nan, 0)])", "pd.Series([1e400, 1.0])", "pd.Series(['1', '2'] * 3, dtype='category')",
        "pd.Series([datetime.date(2020, 1, 1), pd.Timestamp('2020-01-02')])", "pd.Series([pd.Timestamp('2020-01-02'), datetime.date(2020, 1, 1)])",
        "pd.Series(['0b8a22ca80ad4df585acfa49c44b7ede'])", "pd.Series(['http://a@b/c'])", "pd.Series(['c://x/y'])", "pd.Series(['/a@b'])",
        "pd.Series(['2020', '2021'])", "pd.Series(['01', '02'])", "pd.Series(['1_0'])", "pd.Series(['nan', '1.5'])", "pd.Series(['inf'])",
        "pd.Series(['True', 'yes'])", "pd.Series(['nan', 'NaN'])", "pd.Series(['nan'])", "pd.Series(['NaN', None])", "pd.Series(['-nan', 'nan', 'nan'])",
        "pd.Series(['NaT', 'NaT'])", "pd.Series(['inf', '-inf'])", "pd.Series(['nan', 'nan'], dtype=object)", "pd.Series(['nan', '1'])", "pd.Series(['NaT', '2020-01-01'])", "pd.Series([''])", "pd.Series(['', 'a'])", "pd.Series([' '])", "pd.Series(['\\x00'])",
        "pd.Series(['//cdn.example.com/lib.js', '//fileserver/share/q1.csv'])", "pd.Series(['//host/share'])",
        "pd.Series(['82.016097535139332871', '3.25e-30'])", "pd.Series(['0.1234567890123456789', '1.0', '2.2250738585072014e-308'])", "pd.Series(['1e23', '8.5e-5', '123456789012345678901234567890'])",
        "pd.Series(['\\ud83d', 'POINT (1 2)'], dtype=pd.StringDtype('python'))", "pd.Series(['\\ud83d'], dtype=pd.StringDtype('python'))", "pd.Series(['\\ud83d', 'a'], dtype=object)",
        "pd.Series([None] * 40 + ['8.8.8.8', '8.8.8.8'])", "pd.Series([nan] * 64 + ['a', 'b'])", "pd.Series([None] * 33 + ['http://a.b/c'])", "pd.Series([None] * 50 + ['2020-01-01', '2021-06-15'])",
        "pd.Series([None] * 35 + [uuid.UUID('0b8a22ca-80ad-4df5-85ac-fa49c44b7ede')])", "pd.Series([nan] * 48 + [1.5, 2.0])", "pd.Series([None] * 36 + [True, False], dtype=object)",
        "pd.Series(['0000-01-01'])", "pd.Series(['-2020-01-01', '2020-01-01'])", "pd.Series([1.0, False, None], dtype=object)", "pd.Series([True, 0, None], dtype=object)",
        "pd.Series([np.bool_(True), np.float32(0), None], dtype=object)", "pd.Series(pd.arrays.SparseArray([pd.Timestamp('2020-01-01'), pd.NaT]))",
        "pd.Series([datetime.date(2020, 1, 1), None], dtype='date32[pyarrow]')", "pd.Series([pd.Timestamp('2020-01-01'), None], dtype='timestamp[us][pyarrow]')",
        "pd.Series([pathlib.Path('/' + 'a' * 5000)])", "pd.Series([pathlib.Path('/tmp'), pathlib.Path('/' + 'b' * 300)])",
        "pd.Series([pd.Timestamp('2018-11-04 12:00', tz='America/Sao_Paulo')])", "pd.Series([pd.Timestamp('2018-11-05', tz='America/Sao_Paulo'), pd.NaT])",
        "pd.Series(['2021-03-01', '', None, '2021-03-02'])", "pd.Series(['1', 'nan', None, '2'])", "pd.Series(['1.0', 'NaN', nan, '2.0'])", "pd.Series([None, 'NaT', '2021-03-01'])",
        "pd.Series(['1', 'nan', None, '2'], dtype='string')", "pd.Series(['2021-03-01', 'NaT', pd.NA, '2021-03-02'], dtype='string')",
        "pd.Series([pd.Timestamp('2020-01-01 00:00:00.250'), pd.Timestamp('2020-01-02')])", "pd.Series([pd.Timestamp('2020-01-01 00:00:00.000001')])",
        "pd.Series([pd.Timestamp('2020-01-01 00:00:00.5', tz='UTC'), pd.NaT])", "pd.Series([pd.NaT, pd.Timestamp('1999-12-31 00:00:00.000000001')])",
        "pd.Series([pd.Timestamp('2020-01-01 00:00:01'), pd.Timestamp('2020-01-02')])", "pd.Series([pd.Timestamp('2020-01-01 00:01:00'), pd.Timestamp('2020-01-02')])",
        "pd.Series([3e9, 4e9, 7.0], dtype='float32')", "pd.Series([40000.0, -3.0], dtype='float16')", "pd.Series([1e10], dtype='Float32')", "pd.Series([3e9, None], dtype='Float32')",
        "pd.Series([3e9, nan], dtype='float32')", "pd.Series([2.0**31, 1.0], dtype='float32')", "pd.Series([-2.0**31 - 256, 1.0], dtype='float32')",
        "pd.Series([1.0, 2.0**63, 3.0])", "pd.Series([2.0**63])", "pd.Series([-2.0**63, 1.0])", "pd.Series([2.0**53 + 2, 1.0])", "pd.Series([2.0**64, 0.0])",
        "pd.Series(['1', '9223372036854775808', '3'])", "pd.Series(['9223372036854775807'])", "pd.Series(['-9223372036854775809'])",
        "pd.Series([1 + 0j, complex(2.0**63, 0)])", "pd.Series([1.0, 2.0**63], index=['r1', 'r1'], name='amount')",
        "pd.Series(['http://[::1'])", "pd.Series(['POINT (1'])", "pd.Series(['a@'])", "pd.Series(['@b'])", "pd.Series(['1+0j', '2+0j'])",
    ]
    return [{"recipe": r, "family": "special", "pool": "special", "dtype": "?", "nulls": "?", "null": None, "len": -1, "index": "None"} for r in rs]


FRAME_COLS = {
    "years": "['2019', '2020', '2021']", "days": "['2019-03-01', '2020-07-15', '2021-11-30']", "prices": "['19.5', '20.25', '21.75']",
    "intstr": "['1', '2', '3']", "boolstr": "['True', 'False', 'True']", "text": "['a', 'b', 'c']", "intfloatstr": "['1.0', '2.0', '3.0']",
    "ynstr": "['y', 'n', 'y']", "int": "[1, 2, 3]", "float": "[1.5, 2.5, 3.5]", "intfloat": "[1.0, 2.0, 3.0]", "bool": "[True, False, True]",
    "int01": "[0, 1, 1]", "ts": "[pd.Timestamp('2020-01-01'), pd.Timestamp('2020-01-02'), pd.Timestamp('2020-01-03 05:00')]",
    "urlstr": "['http://a.b/c', 'https://x.y/', 'http://a.b/d']", "pathstr": "['/a/b', '/c/d.txt', '/e']", "nullish": "['1', None, '3']",
    "uint": "[1, 2, 3], dtype='uint8'", "nullableint": "[1, None, 3], dtype='Int64'",
}


def frame_stream():
    """small multi-column frames: every ordered pair of column kinds (history between the columns of one call and between
    consecutive calls on one typeset matters for anything that keeps state in the typeset or its graph)"""
    out = []
    ks = list(FRAME_COLS)
    for a in ks:
        for b in ks:
            if a == b:
                continue
            r = "pd.DataFrame({'p': pd.Series(%s), 'q': pd.Series(%s)})" % (FRAME_COLS[a], FRAME_COLS[b])
            out.append({"recipe": r, "family": "frame", "pool": a + "|" + b, "dtype": "frame", "nulls": "none", "null": None, "len": 3, "index": "None"})
            if (len(a) + len(b)) % 2 == 0:
                # the same frame under a row index that is not 0..n-1 (labels, or integers in another order)
                idx = "['r0', 'r1', 'r2']" if len(a) % 2 else "[10, 30, 20]"
                out.append({"recipe": r + ".set_axis(%s)" % idx, "family": "frame", "pool": a + "|" + b + "|idx", "dtype": "frame", "nulls": "none", "null": None, "len": 3, "index": "'str'"})
    for a, b, c in (("years", "days", "prices"), ("days", "prices", "years"), ("intstr", "years", "boolstr"), ("text", "int", "float")):
        r = "pd.DataFrame({'p': pd.Series(%s), 'q': pd.Series(%s), 'r': pd.Series(%s)})" % (FRAME_COLS[a], FRAME_COLS[b], FRAME_COLS[c])
        out.append({"recipe": r, "family": "frame", "pool": "|".join((a, b, c)), "dtype": "frame", "nulls": "none", "null": None, "len": 3, "index": "None"})
    return out


def long_stream(rnd, n):
    """>= 1000 rows: a majority family plus 0..3 contaminating values (or mostly missing)"""
    out = []
    fams = [e for e in ENCODINGS if e[1] in ("int", "float", "intfloat", "text", "floatstr", "intstr", "boolstr", "bool", "datetimestr", "datestr", "intfloatstr", "urlstr", "ipstr")]
    for _ in range(n):
        fam, pool, dtypes = rnd.choice(fams)
        size = rnd.choice([1000, 1001, 1200, 1500])
        base = [rnd.choice(POOLS[pool]) for _ in range(3)]
        k = rnd.choice([0, 0, 1, 1, 2, 3])
        mode = rnd.choice(["contam", "contam", "mostly_null"])
        if mode == "mostly_null":
            null = rnd.choice(["None", "nan"])
            expr = f"[{null}] * {size - 2} + [{base[0]}, {base[1]}]"
            cont = []
        else:
            cpool = rnd.choice([p for p in ("text", "int", "float", "other", "floatstr", "boolstr") if p != pool])
            cont = [rnd.choice(POOLS[cpool]) for _ in range(k)]
            expr = f"[{', '.join(base)}] * {size // 3} + [{', '.join(cont)}]" if cont else f"[{', '.join(base)}] * {size // 3 + 1}"
        pos = rnd.choice(["end", "start"])
        if pos == "start" and cont:
            expr = f"[{', '.join(cont)}] + [{', '.join(base)}] * {size // 3}"
        out.append({"recipe": f"pd.Series({expr})", "family": fam, "pool": pool + ("+" + mode), "dtype": "None", "nulls": mode, "null": None,
                    "len": size, "index": "None", "contaminants": k})
    return out


def file_stream():
    txt, png = fixtures()
    rs = [f"pd.Series([pathlib.Path({txt!r})])", f"pd.Series([pathlib.Path({png!r})])", f"pd.Series([pathlib.Path({png!r}), pathlib.Path({txt!r})])",
          f"pd.Series([pathlib.Path({png!r}), None])", f"pd.Series([{txt!r}])", "pd.Series([pathlib.Path('/nonexistent/zz')])"]
    fam = ["File", "Image", "File", "Image", "Path", "Path"]
    return [{"recipe": r, "family": f, "pool": "file", "dtype": "object", "nulls": "?", "null": None, "len": -1, "index": "None"} for r, f in zip(rs, fam)]


def bank_stream():
    """the repository's own series bank"""
    from visions.test.series import get_series
    with warnings.catch_warnings():
        warnings.simplefilter("ignore")
        d = get_series()
    return [{"recipe": f"bank[{k!r}]", "family": "bank", "pool": "bank", "dtype": str(v.dtype), "nulls": "?", "null": None,
             "len": len(v), "index": "None", "_obj": v} for k, v in d.items()]


def materialise(item):
    if "_obj" in item:
        return item["_obj"]
    if item["recipe"].startswith("bank["):
        from visions.test.series import get_series
        with warnings.catch_warnings():
            warnings.simplefilter("ignore")
            return get_series()[item["recipe"][6:-2]]
    return build(item["recipe"])


def all_streams(rnd, tier, n_fam=None, n_mixed=None):
    n_fam = n_fam or (1500 if tier == "quick" else 20000)
    n_mixed = n_mixed or (500 if tier == "quick" else 6000)
    fam = family_stream(rnd, n_fam)
    # cheap, targeted streams first: a search that is cut by its budget has then seen every kind of input
    return (bank_stream() + special_stream() + file_stream() + grid_stream() + long_stream(rnd, 40 if tier == "quick" else 600) + fam[:600]
            + bx_stream(2, rnd, limit=2500 if tier == "quick" else 25000)
            + fam[600:] + mixed_stream(rnd, n_mixed) + cross_stream(rnd, n_mixed * 2))


def distribution(items):
    from collections import Counter
    return {"by_family": dict(Counter(i["family"] for i in items)), "by_nulls": dict(Counter(str(i["nulls"]) for i in items)),
            "by_len": dict(Counter(i["len"] for i in items))}


# ------------------------------------------------------------------ typesets
TYPE_NAMES = ["Generic", "Boolean", "Float", "Object", "Complex", "Categorical", "Ordinal", "DateTime", "TimeDelta", "Integer", "Count",
              "String", "Geometry", "URL", "Path", "Date", "Time", "File", "Image", "IPAddress", "EmailAddress", "UUID"]


def typeset_from_names(names):
    import visions
    from visions.typesets import VisionsTypeset
    with warnings.catch_warnings():
        warnings.simplefilter("ignore")
        return VisionsTypeset({getattr(visions.types, n) for n in names})


def identity_parent():
    import visions
    par = {}
    for n in TYPE_NAMES + ["Numeric", "Sparse"]:
        t = getattr(visions.types, n)
        for r in t.get_relations():
            if not r.inferential:
                par[n] = r.related_type.__name__
    return par


def random_closed_subset(rnd, par=None, universe=None):
    par = par or identity_parent()
    universe = universe or TYPE_NAMES
    chosen = {"Generic"}
    for n in rnd.sample(universe, rnd.randint(0, len(universe))):
        x = n
        while x != "Generic" and x in par:
            chosen.add(x)
            x = par[x]
    return sorted(chosen)


def shipped_typesets():
    from visions.typesets import CompleteSet, GeometrySet, StandardSet
    with warnings.catch_warnings():
        warnings.simplefilter("ignore")
        return {"StandardSet": StandardSet(), "GeometrySet": GeometrySet(), "CompleteSet": CompleteSet()}
