"""Driver: the Python-list backend's membership predicates -> coq/gen/PythonContains_gen.v
   backends/python/series_utils.py (the two decorators) and the contains_op of every module imported by
   backends/python/types/__init__.py.  A dedicated fail-closed translator: the accepted language is
       return all(P for x in seq) | any(P for x in seq) | True | False | helper(seq, state)
       P ::= isinstance(x, C | (C, ...)) | issubclass(type(x), C) | not P | P and P | P or P | True | False
           | x >= 0            (only after `isinstance(x, int)` in the same conjunction)
           | x.is_absolute()   (only after `isinstance(x, pathlib.PurePath | pathlib.Path)`)
           | path_exists(x)    (only after `isinstance(x, pathlib.Path)`), path_is_image(x) (only after path_exists(x))
   and anything else is refused.  isinstance facts per value kind are MEASURED on representative objects."""
import ast

from .py2coq import TransError

UTILS = "src/visions/backends/python/series_utils.py"
INIT = "src/visions/backends/python/types/__init__.py"
KINDS = ["PNone", "PBool", "PInt", "PFloat", "PComplex", "PNumber", "PStr", "PBytes", "PDatetime", "PDate", "PTime", "PTimedelta",
         "PPurePath", "PPath", "PUrl", "PIP", "PUUID", "PEmail", "PGeom", "POther"]
CLASSES = {  # source text of a class expression -> enum constructor
    "int": "pc_int", "bool": "pc_bool", "float": "pc_float", "complex": "pc_complex", "str": "pc_str", "numbers.Number": "pc_Number",
    "timedelta": "pc_timedelta", "datetime": "pc_datetime", "date": "pc_date", "time": "pc_time", "ParseResult": "pc_ParseResult",
    "uuid.UUID": "pc_UUID", "_BaseAddress": "pc_BaseAddress", "pathlib.PurePath": "pc_PurePath", "pathlib.Path": "pc_Path", "FQDA": "pc_FQDA",
    "BaseGeometry": "pc_BaseGeometry",
}
DECOS = ("sequence_not_empty", "sequence_handle_none")


def class_objects():
    import datetime
    import ipaddress
    import numbers
    import pathlib
    import uuid
    from urllib.parse import ParseResult

    from shapely.geometry.base import BaseGeometry
    from visions.types.email_address import FQDA
    return {"pc_int": int, "pc_bool": bool, "pc_float": float, "pc_complex": complex, "pc_str": str, "pc_Number": numbers.Number,
            "pc_timedelta": datetime.timedelta, "pc_datetime": datetime.datetime, "pc_date": datetime.date, "pc_time": datetime.time,
            "pc_ParseResult": ParseResult, "pc_UUID": uuid.UUID, "pc_BaseAddress": ipaddress._BaseAddress, "pc_PurePath": pathlib.PurePath,
            "pc_Path": pathlib.Path, "pc_FQDA": FQDA, "pc_BaseGeometry": BaseGeometry}


def representatives():
    """truthy and falsy representatives of every kind that has both"""
    import datetime
    import decimal
    import fractions
    import ipaddress
    import pathlib
    import uuid
    from urllib.parse import urlparse

    from shapely import wkt
    from visions.types.email_address import FQDA
    return {
        "PNone": [None], "PBool": [True, False], "PInt": [0, 1, -5, 10 ** 30], "PFloat": [0.0, 1.5, float("nan"), float("-inf")],
        "PComplex": [0j, 1 + 2j], "PNumber": [fractions.Fraction(1, 3), decimal.Decimal("0"), decimal.Decimal("2.5")],
        "PStr": ["", "a", "1.5"], "PBytes": [b"", b"a"], "PDatetime": [datetime.datetime(2020, 1, 1), datetime.datetime(1999, 5, 6, 7, 8, 9)],
        "PDate": [datetime.date(2020, 1, 1)], "PTime": [datetime.time(0, 0), datetime.time(1, 2)],
        "PTimedelta": [datetime.timedelta(0), datetime.timedelta(days=1)],
        "PPurePath": [pathlib.PurePosixPath("/a"), pathlib.PureWindowsPath("C:\\a"), pathlib.PurePosixPath("a")],
        "PPath": [pathlib.Path("/tmp"), pathlib.Path("rel")], "PUrl": [urlparse("http://a.b/c"), urlparse("")],
        "PIP": [ipaddress.ip_address("127.0.0.1"), ipaddress.ip_address("::1")], "PUUID": [uuid.UUID(int=0), uuid.uuid4()],
        "PEmail": [FQDA("a", "b.c")], "PGeom": [wkt.loads("POINT (1 2)")], "POther": [(1, 2), (), [1], [], {"a": 1}, {}, object(), len],
    }


def kind_of(v):
    """exact-class abstraction of a concrete element (None when outside the universe) - used by the correspondence"""
    import datetime
    import decimal
    import fractions
    import ipaddress
    import pathlib
    import uuid
    from urllib.parse import ParseResult

    from visions.types.email_address import FQDA
    t = type(v)
    exact = {type(None): "PNone", bool: "PBool", int: "PInt", float: "PFloat", complex: "PComplex", fractions.Fraction: "PNumber", decimal.Decimal: "PNumber",
             str: "PStr", bytes: "PBytes", datetime.datetime: "PDatetime", datetime.date: "PDate", datetime.time: "PTime", datetime.timedelta: "PTimedelta",
             pathlib.PurePosixPath: "PPurePath", pathlib.PureWindowsPath: "PPurePath", pathlib.PosixPath: "PPath", ParseResult: "PUrl",
             ipaddress.IPv4Address: "PIP", ipaddress.IPv6Address: "PIP", uuid.UUID: "PUUID", FQDA: "PEmail",
             tuple: "POther", list: "POther", dict: "POther", object: "POther", set: "POther", type(len): "POther"}
    if t in exact:
        return exact[t]
    try:
        from shapely.geometry.base import BaseGeometry
        if isinstance(v, BaseGeometry):
            return "PGeom"
    except Exception:  # noqa
        pass
    return None


def measure():
    reps, cls = representatives(), class_objects()
    out = {}
    for k in KINDS:
        for c, co in cls.items():
            vals = {isinstance(o, co) for o in reps[k]} | {issubclass(type(o), co) for o in reps[k]}
            if len(vals) != 1:
                raise TransError(f"kind {k} is not uniform for isinstance(_, {c})")
            out[(k, c)] = vals.pop()
        for o in reps[k]:
            if kind_of(o) != k:
                raise TransError(f"representative {o!r} of {k} is abstracted to {kind_of(o)}")
    return out


def cls_of(node):
    txt = ast.unparse(node)
    if txt in CLASSES:
        return CLASSES[txt]
    raise TransError(f"class expression {txt} not in the class table")


def body_of(fn):
    """statements of a function without docstring and without function-local imports"""
    out = []
    for i, st in enumerate(fn.body):
        if i == 0 and isinstance(st, ast.Expr) and isinstance(st.value, ast.Constant) and isinstance(st.value.value, str):
            continue
        if isinstance(st, ast.ImportFrom):
            continue
        out.append(st)
    return out


class Tr:
    def __init__(self):
        self.helpers = {}

    def pred(self, e, x, facts):
        """element-level predicate over the bound variable x; facts: what earlier conjuncts established"""
        if isinstance(e, ast.Constant) and e.value in (True, False) and isinstance(e.value, bool):
            return "true" if e.value else "false"
        if isinstance(e, ast.UnaryOp) and isinstance(e.op, ast.Not):
            return f"(negb {self.pred(e.operand, x, set(facts))})"
        if isinstance(e, ast.BoolOp) and isinstance(e.op, ast.And):
            fs = set(facts)
            parts = []
            for v in e.values:
                parts.append(self.pred(v, x, fs))
                fs |= self.established(v, x)
            out = parts[-1]
            for p in reversed(parts[:-1]):
                out = f"(andb {p} {out})"
            return out
        if isinstance(e, ast.BoolOp) and isinstance(e.op, ast.Or):
            parts = [self.pred(v, x, set(facts)) for v in e.values]
            out = parts[-1]
            for p in reversed(parts[:-1]):
                out = f"(orb {p} {out})"
            return out
        if isinstance(e, ast.Call) and isinstance(e.func, ast.Name) and not e.keywords:
            f = e.func.id
            if f == "isinstance" and len(e.args) == 2 and self.is_x(e.args[0], x):
                c = e.args[1]
                if isinstance(c, ast.Tuple):
                    if not c.elts:
                        raise TransError("isinstance with an empty tuple")
                    parts = [f"(pv_isinstance {x} {cls_of(k)})" for k in c.elts]
                    out = parts[-1]
                    for p in reversed(parts[:-1]):
                        out = f"(orb {p} {out})"
                    return out
                return f"(pv_isinstance {x} {cls_of(c)})"
            if f == "issubclass" and len(e.args) == 2 and ast.unparse(e.args[0]) == f"type({x})":
                return f"(pv_isinstance {x} {cls_of(e.args[1])})"
            if f == "path_exists" and len(e.args) == 1 and self.is_x(e.args[0], x):
                if "pc_Path" not in facts:
                    raise TransError(f"path_exists({x}) is not guarded by isinstance({x}, pathlib.Path)")
                return f"(p_exists {x})"
            if f == "path_is_image" and len(e.args) == 1 and self.is_x(e.args[0], x):
                if "exists" not in facts:
                    raise TransError(f"path_is_image({x}) is not guarded by path_exists({x})")
                return f"(p_image {x})"
        if isinstance(e, ast.Call) and isinstance(e.func, ast.Attribute) and e.func.attr == "is_absolute" and not e.args and not e.keywords and self.is_x(e.func.value, x):
            if not ({"pc_PurePath", "pc_Path"} & facts):
                raise TransError(f"{x}.is_absolute() is not guarded by isinstance({x}, pathlib.PurePath)")
            return f"(p_abs {x})"
        if isinstance(e, ast.Compare) and len(e.ops) == 1 and isinstance(e.ops[0], ast.GtE) and self.is_x(e.left, x) and ast.unparse(e.comparators[0]) == "0":
            if not ({"pc_int", "pc_bool"} & facts):
                raise TransError(f"{x} >= 0 is not guarded by isinstance({x}, int)")
            return f"(p_nonneg {x})"
        raise TransError(f"element predicate outside the translated language: {ast.unparse(e)}")

    @staticmethod
    def is_x(e, x):
        return isinstance(e, ast.Name) and e.id == x

    def established(self, e, x):
        if isinstance(e, ast.Call) and isinstance(e.func, ast.Name):
            if e.func.id == "isinstance" and len(e.args) == 2 and self.is_x(e.args[0], x) and not isinstance(e.args[1], ast.Tuple):
                return {cls_of(e.args[1])}
            if e.func.id == "path_exists" and len(e.args) == 1 and self.is_x(e.args[0], x):
                return {"exists"}
        return set()

    def seq_expr(self, e, seq):
        """sequence-level boolean expression"""
        if isinstance(e, ast.Constant) and isinstance(e.value, bool):
            return "true" if e.value else "false"
        if isinstance(e, ast.UnaryOp) and isinstance(e.op, ast.Not):
            return f"(negb {self.seq_expr(e.operand, seq)})"
        if isinstance(e, ast.Call) and isinstance(e.func, ast.Name) and e.func.id in ("all", "any") and len(e.args) == 1 and not e.keywords \
                and isinstance(e.args[0], ast.GeneratorExp):
            g = e.args[0]
            if len(g.generators) != 1:
                raise TransError("nested generator")
            c = g.generators[0]
            if c.ifs or c.is_async or not isinstance(c.target, ast.Name) or not self.is_x(c.iter, seq):
                raise TransError(f"generator shape: {ast.unparse(g)}")
            x = c.target.id
            if x == seq:
                raise TransError("generator variable shadows the sequence")
            cx = "x_" if x == "_" else x
            body = self.pred(g.elt, x, set()).replace(f" {x} ", f" {cx} ").replace(f" {x})", f" {cx})") if x == "_" else self.pred(g.elt, x, set())
            return f"({'forallb' if e.func.id == 'all' else 'existsb'} (fun {cx} : pval => {body}) {seq})"
        if isinstance(e, ast.Call) and isinstance(e.func, ast.Name) and e.func.id in self.helpers and len(e.args) == 2 and not e.keywords \
                and self.is_x(e.args[0], seq) and ast.unparse(e.args[1]) == "state":
            return f"({self.helpers[e.func.id]} {seq})"
        raise TransError(f"sequence expression outside the translated language: {ast.unparse(e)}")

    def decorator(self, d):
        """def deco(fn): @functools.wraps(fn) def inner(sequence, *args, **kwargs): <stmts>; return inner"""
        inner = [n for n in d.body if isinstance(n, ast.FunctionDef)]
        if [a.arg for a in d.args.args] != ["fn"] or len(inner) != 1 or ast.unparse(body_of(d)[-1]) != "return inner" or len(body_of(d)) != 2:
            raise TransError(f"{d.name}: decorator shape drift")
        i = inner[0]
        if [a.arg for a in i.args.args] != ["sequence"] or not i.args.vararg or not i.args.kwarg or [ast.unparse(x) for x in i.decorator_list] != ["functools.wraps(fn)"]:
            raise TransError(f"{d.name}.inner signature drift")
        va, kw = i.args.vararg.arg, i.args.kwarg.arg
        return f"Definition {d.name} (fn : pseq -> bool) (sequence : pseq) : bool :=\n{self.stmts(body_of(i), 'sequence', va, kw)}.\n"

    def stmts(self, sts, seq, va, kw):
        if not sts:
            raise TransError("function falls off its end (returns None)")
        st = sts[0]
        if isinstance(st, ast.If) and not st.orelse and len(st.body) == 1 and isinstance(st.body[0], ast.Return) \
                and isinstance(st.body[0].value, ast.Constant) and isinstance(st.body[0].value.value, bool):
            return f"if {self.seq_expr(st.test, seq)} then {'true' if st.body[0].value.value else 'false'} else (\n{self.stmts(sts[1:], seq, va, kw)})"
        if isinstance(st, ast.Assign) and len(st.targets) == 1 and self.is_x(st.targets[0], seq) \
                and ast.unparse(st.value) == f"tuple(filter(None, {seq}))":
            return f"let {seq} := filter p_truthy {seq} in\n{self.stmts(sts[1:], seq, va, kw)}"
        if isinstance(st, ast.Return) and len(sts) == 1 and st.value is not None and ast.unparse(st.value) == f"fn({seq}, *{va}, **{kw})":
            return f"fn {seq}"
        raise TransError(f"decorator statement outside the translated language: {ast.unparse(st)}")

    def function(self, n, name):
        ann = [ast.unparse(a.annotation) if a.annotation else None for a in n.args.args]
        if ann != ["Sequence", "dict"] or n.args.vararg or n.args.kwarg or n.args.defaults or n.args.args[1].arg != "state":
            raise TransError(f"{n.name}: signature is not (sequence: Sequence, state: dict)")
        seq = n.args.args[0].arg
        sts = body_of(n)
        if len(sts) != 1 or not isinstance(sts[0], ast.Return) or sts[0].value is None:
            raise TransError(f"{n.name}: body is not a single return")
        return f"Definition {name} ({seq} : pseq) : bool :=\n{self.seq_expr(sts[0].value, seq)}.\n"


def wrap(decos, base, where):
    out = base
    for d in reversed(decos):
        if d not in DECOS:
            raise TransError(f"{where}: unknown decorator {d}")
        out = f"({d} {out})"
    return out


def generate(repo):
    tr = Tr()
    utils = ast.parse(open(f"{repo}/{UTILS}").read())
    init = ast.parse(open(f"{repo}/{INIT}").read())
    mods = []
    for n in init.body:
        if isinstance(n, ast.Import):
            mods += [a.name for a in n.names]
        elif not (isinstance(n, ast.Expr) and isinstance(n.value, ast.Constant)):
            raise TransError("python/types/__init__.py: statement outside `import ...`")
    body, translated, registered = [], [], {}
    for deco in DECOS:
        ds = [n for n in utils.body if isinstance(n, ast.FunctionDef) and n.name == deco]
        if len(ds) != 1:
            raise TransError(f"{UTILS}: {deco} not found")
        body.append(tr.decorator(ds[0]))
        translated.append(f"{UTILS}:{deco}")
    for m in mods:
        path = "src/" + m.replace(".", "/") + ".py"
        tree = ast.parse(open(f"{repo}/{path}").read())
        fns = [n for n in tree.body if isinstance(n, ast.FunctionDef)]
        regs = [n for n in fns if any(ast.unparse(d).endswith(".contains_op.register") for d in n.decorator_list)]
        # helpers: module-level functions a contains_op calls with (sequence, state)
        called = {c.func.id for r in regs for c in ast.walk(r) if isinstance(c, ast.Call) and isinstance(c.func, ast.Name)}
        for n in fns:
            if n in regs or n.name not in called:
                continue
            if any(ast.unparse(d).split("(")[0].endswith(("register_relationship", "register_transformer")) for d in n.decorator_list):
                raise TransError(f"{path}: contains_op calls the relation function {n.name}")
            decos = [ast.unparse(d) for d in n.decorator_list]
            n2 = n
            if [a.annotation for a in n.args.args] and n.returns is None:
                pass
            body.append(tr.function(n2, f"py_{n.name}_body"))
            body.append(f"Definition py_{n.name} : pseq -> bool := {wrap(decos, f'py_{n.name}_body', path)}.\n")
            tr.helpers[n.name] = f"py_{n.name}"
            translated.append(f"{path}:{n.name}")
        for n in regs:
            decos = [ast.unparse(d) for d in n.decorator_list]
            reg = [d for d in decos if d.endswith(".contains_op.register")]
            if decos[0] != reg[0] or len(reg) != 1:
                raise TransError(f"{path}: contains_op.register is not the single outermost decorator of {n.name}")
            tname = reg[0].split(".")[0]
            if tname in registered:
                raise TransError(f"two Sequence registrations for {tname}")
            body.append(tr.function(n, f"{n.name}_body"))
            body.append(f"Definition python_{tname}_contains : pseq -> bool := {wrap(decos[1:], f'{n.name}_body', path)}.\n")
            registered[tname] = n.name
            translated.append(f"{path}:{n.name}")
        tr.helpers = {}
    isinst = measure()
    clss = sorted(set(CLASSES.values()))
    hdr = ["(* GENERATED by vfw/gen_python.py from src/visions/backends/python/series_utils.py and backends/python/types/*.py;",
           "   isinstance facts MEASURED on representative Python objects -- do not edit. *)",
           "From Coq Require Import List Bool.", "Import ListNotations.", "From V Require Import PyValues Shipped_gen.", "",
           "Inductive pcls : Type := " + " | ".join(clss) + ".", "",
           "(* measured: isinstance(x, C) (= issubclass(type(x), C)) per value kind *)",
           "Definition pk_isinstance (k : pkind) (c : pcls) : bool :=", "  match k, c with"]
    hdr += [f"  | {k}, {c} => true" for (k, c), v in sorted(isinst.items()) if v] + ["  | _, _ => false", "  end.",
            "Definition pv_isinstance (v : pval) (c : pcls) : bool := pk_isinstance (p_kind v) c.", ""]
    tail = ["(* T.contains_op dispatched on a Python list: the Sequence registration; Generic's base implementation returns True;",
            "   a type without a Sequence registration returns None (falsy) *)",
            "Definition python_contains (t : ty) (s : pseq) : bool :=", "  match t with"]
    from .gen_shipped import shipped_types
    for t in sorted(shipped_types(repo)):
        if t in registered:
            tail.append(f"  | t{t} => python_{t}_contains s")
        elif t == "Generic":
            tail.append("  | tGeneric => true")
        else:
            tail.append(f"  | t{t} => false")
    tail += ["  end.", ""]
    unknown = sorted(set(registered) - set(shipped_types(repo)))
    if unknown:
        raise TransError(f"Sequence registrations for types outside the shipped table: {unknown}")
    return {"PythonContains_gen.v": "\n".join(hdr) + "\n" + "\n".join(body) + "\n" + "\n".join(tail)}, {
        "translated": translated, "hand": ["Python value-kind isinstance facts (measured)"], "registered": registered}
