(* C01 - Detection is sound and most specific.
   For every graph all of whose edges are identity relations guarded by the child's contains_op
   (a function of the sequence alone) with the identity transformer - which is what
   VisionsBaseTypeMeta.relations builds for every IdentityRelation declared without explicit
   relationship/transformer, i.e. every shipped one (computed from the regenerated relation table,
   gen/Shipped_gen.v) - and for EVERY sequence, state and successor order: what detect returns is
   the input itself, the state untouched, a path that starts at the root, follows graph edges,
   consists only of types that contain the sequence, and ends in a type none of whose successors
   contains it. *)
From Coq Require Import List Bool ZArith.
Import ListNotations.
From V Require Import PyBase NxModel WalkSpec Engine_gen Engine_bridge EngineTheory.
Open Scope py_scope.

Theorem C01_detect_sound_and_most_specific :
  forall (T D St L F : Type) (X : ctx T D St L F) (cont : T -> D -> bool) fuel ts d out ts',
    contains_graph X (base_graph ts) cont ->
    VT_detect X fuel ts d = Ok (out, ts') ->
    exists root rest,
      root_of X ts = Ok root /\
      out = (d, root :: rest, empty_state X tt) /\
      Forall (fun v => cont v d = true) rest /\
      chain X (base_graph ts) root rest /\
      (forall ns, g_successors (T_eqb X) (base_graph ts) (last rest root) = Ok ns ->
                  forall v, In v ns -> cont v d = false).
Proof.
  intros T D St L F X cont fuel ts d out ts' Hg H.
  rewrite VT_detect_eq in H.
  destruct (root_of X ts) as [root|e] eqn:R; cbn [bind ret] in H; [|discriminate].
  unfold fresh_walk in H.
  destruct (walk (succ_of X (base_graph ts)) fuel root d (empty_state X tt) []) as [o|e] eqn:W; cbn [bind ret] in H; [|discriminate].
  inversion H; subst. apply walk_walks in W.
  destruct (detect_walk_sound X (base_graph ts) cont Hg _ _ _ _ _ W) as [rest [-> [Hf [Hc Hl]]]].
  exists root, rest. repeat split; assumption.
Qed.
Print Assumptions C01_detect_sound_and_most_specific.

(* Non-vacuity: the hypothesis holds of a concrete 3-type graph built by the generated
   constructor, and detect on it returns a non-trivial path. *)
Definition ex_cont (t : nat) (d : list nat) : bool :=
  match t with 0 => true | 1 => forallb (fun x => Nat.ltb x 10) d | _ => forallb (fun x => Nat.ltb x 5) d end.
Definition ex_idrel (rt ty : nat) : relation nat (list nat) unit :=
  mkRel rt ty false (fun d st => Ok (ex_cont ty d, st)) (fun d st => Ok (d, st)).
Definition ex_ctx : ctx nat (list nat) unit nat unit :=
  mkCtx Nat.eqb Nat.eqb
    (fun t => match t with 1 => [ex_idrel 0 1] | 2 => [ex_idrel 1 2] | _ => [] end)
    (fun t d st => Ok (ex_cont t d, st)) (fun t => Nat.eqb t 0) 0 (fun l => l) (fun _ => tt)
    (fun d => Z.of_nat (length d)) (fun d _ => d) (fun _ => []) (fun _ _ => Raise KeyError) (fun _ => tt) (fun l => l)
    (fun _ _ => Raise KeyError) (fun t => Z.of_nat t) (fun _ _ => 0%Z).
Example C01_example :
  exists ts w, VT_init ex_ctx (VT_blank ex_ctx) [0; 1; 2] [] = Ok (tt, ts, w) /\
    (forall t v, In t [0;1;2] -> In v [0;1;2] -> forall ea, g_edge Nat.eqb (base_graph ts) t v = Ok ea ->
        ea_relationship ea = ex_idrel t v) /\
    (exists ts', VT_detect ex_ctx 4 ts [7; 3] = Ok (([7; 3], [0; 1], tt), ts')).
Proof.
  eexists. eexists. split; [vm_compute; reflexivity|]. split.
  - intros t v Ht Hv. simpl in Ht, Hv.
    repeat (destruct Ht as [<-|Ht]; [repeat (destruct Hv as [<-|Hv]; [vm_compute; intros ea H; inversion H; reflexivity|]); contradiction|]); contradiction.
  - eexists. vm_compute. reflexivity.
Qed.
