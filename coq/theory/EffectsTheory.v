(* A tiny effect language for the process-global cells visions touches (sys.stderr, sys.stdout, the
   warnings filter list, numpy's error state, pandas options, the working directory) and its
   semantics.  gen/Effects_gen.v holds, for every function of src/visions that writes such a cell, the
   skeleton of its global effects as extracted by the translator (vfw/gen_effects.py). *)
From Coq Require Import List Bool ZArith.
Import ListNotations.

Inductive cell := CStderr | CStdout | CWarnFilters | CNumpyErr | CPandasOptions | CCwd.
Definition cell_eqb (a b : cell) : bool :=
  match a, b with
  | CStderr, CStderr | CStdout, CStdout | CWarnFilters, CWarnFilters | CNumpyErr, CNumpyErr
  | CPandasOptions, CPandasOptions | CCwd, CCwd => true
  | _, _ => false
  end.

(* values a cell can hold: what it held when the function was entered, a fresh object, a constant
   (e.g. sys.__stderr__), or the content of a local variable *)
Inductive gval := VInit (c : cell) | VFresh (n : nat) | VConst (k : nat).
Definition gval_eqb (a b : gval) : bool :=
  match a, b with
  | VInit c, VInit c' => cell_eqb c c'
  | VFresh n, VFresh m => Nat.eqb n m
  | VConst n, VConst m => Nat.eqb n m
  | _, _ => false
  end.

Inductive src := SFresh (n : nat) | SConst (k : nat) | SLocal (v : nat).

Inductive eff :=
| ESave (v : nat) (c : cell)                 (* v = <cell>            e.g. previous = sys.stderr *)
| EWrite (c : cell) (s : src)                 (* <cell> = ...          e.g. sys.stderr = open(os.devnull) *)
| EOpaque                                     (* code that touches no global cell; may raise *)
| ETry (body handlers fin : list eff)         (* try/except/finally: [handlers] run if the body raised and may swallow it *)
| ECatchWarnings (body : list eff).           (* with warnings.catch_warnings(): saves and restores the filter list *)

Definition G := cell -> gval.
Definition locals := nat -> gval.
Definition upd_g (g : G) (c : cell) (x : gval) : G := fun c' => if cell_eqb c c' then x else g c'.
Definition upd_l (l : locals) (v : nat) (x : gval) : locals := fun v' => if Nat.eqb v v' then x else l v'.

(* run with an oracle: each EOpaque consumes one bit saying whether it raises.  Returns
   (raised?, globals, locals, remaining oracle). *)
Fixpoint run (fuel : nat) (p : list eff) (g : G) (l : locals) (o : list bool) : bool * G * locals * list bool :=
  match fuel with
  | O => (false, g, l, o)
  | S f =>
    match p with
    | [] => (false, g, l, o)
    | e :: p' =>
      let '(raised, g1, l1, o1) :=
        match e with
        | ESave v c => (false, g, upd_l l v (g c), o)
        | EWrite c s => (false, upd_g g c (match s with SFresh n => VFresh n | SConst k => VConst k | SLocal v => l v end), l, o)
        | EOpaque => match o with b :: o' => (b, g, l, o') | [] => (false, g, l, []) end
        | ETry body handlers fin =>
            let '(rb, gb, lb, ob) := run f body g l o in
            let '(rh, gh, lh, oh) := if rb then (match handlers with [] => (true, gb, lb, ob) | _ => run f handlers gb lb ob end)
                                     else (false, gb, lb, ob) in
            let '(rf, gf, lf, of_) := run f fin gh lh oh in
            (orb rh rf, gf, lf, of_)
        | ECatchWarnings body =>
            let saved := g CWarnFilters in
            let '(rb, gb, lb, ob) := run f body g l o in
            (rb, upd_g gb CWarnFilters saved, lb, ob)
        end in
      if raised then (true, g1, l1, o1) else run f p' g1 l1 o1
    end
  end.

Definition all_cells := [CStderr; CStdout; CWarnFilters; CNumpyErr; CPandasOptions; CCwd].
Definition init_g : G := VInit.
Definition init_l : locals := fun _ => VConst 0.

Fixpoint oracles (n : nat) : list (list bool) :=
  match n with
  | O => [[]]
  | S k => flat_map (fun o => [true :: o; false :: o]) (oracles k)
  end.

Fixpoint count_opaque (fuel : nat) (p : list eff) : nat :=
  match fuel with
  | O => 0
  | S f =>
    match p with
    | [] => 0
    | EOpaque :: p' => S (count_opaque f p')
    | ETry b h fi :: p' => count_opaque f b + count_opaque f h + count_opaque f fi + count_opaque f p'
    | ECatchWarnings b :: p' => count_opaque f b + count_opaque f p'
    | _ :: p' => count_opaque f p'
    end
  end.

(* whatever raises and whatever does not: every global cell holds afterwards what it held before *)
Definition restores (p : list eff) : bool :=
  forallb (fun o => let '(_, g, _, _) := run 50 p init_g init_l o in
                    forallb (fun c => gval_eqb (g c) (VInit c)) all_cells)
          (oracles (count_opaque 50 p)).
