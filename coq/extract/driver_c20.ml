(* L cap k1 .. kn   -> per call  value:stamp:keys|...      (generated lru_cache closure)
   D c k v c k v .. -> per op    status:value:k=v,k=v|...   (OrderedDict model)         *)
open Conv
let rec triples = function a :: b :: c :: r -> ((z_of_int a, z_of_int b), z_of_int c) :: triples r | _ -> []
let () =
  try while true do
    let line = input_line stdin in
    if String.length line < 2 then print_endline "" else
    let rest = ints_of_line (String.sub line 2 (String.length line - 2)) in
    match line.[0], rest with
    | 'L', cap :: ks ->
      let tr = lru_trace (z_of_int cap) (List.map z_of_int ks) in
      let cell = function
        | (Some (v, st), keys) -> Printf.sprintf "%d:%d:%s" (int_of_z v) (int_of_z st) (str_ints (List.map int_of_z keys))
        | (None, _) -> "RAISE" in
      print_endline (String.concat "|" (List.map cell tr))
    | 'D', xs ->
      let tr = od_trace (triples xs) in
      let cell ((s, v), d) = Printf.sprintf "%d:%d:%s" (int_of_z s) (int_of_z v)
          (String.concat "," (List.map (fun (k, x) -> Printf.sprintf "%d=%d" (int_of_z k) (int_of_z x)) d)) in
      print_endline (String.concat "|" (List.map cell tr))
    | _ -> print_endline "?"
  done with End_of_file -> ()
