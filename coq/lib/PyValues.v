(* PyValues: the abstract universe of sequences for the Python-list backend's membership predicates.
   Hand-written MODEL of what backends/python/types/*.py can observe of an element of a list:
     - its KIND: which of the classes the predicates test it is an instance of (measured per kind on
       representative objects, gen/PythonContains_gen.v pk_isinstance),
     - its truthiness (sequence_handle_none drops falsy elements with filter(None, ...)),
     - for ints: value >= 0 (Count); for paths: is_absolute(), path_exists(), path_is_image().
   Objects whose bool() raises (pd.NA), instances of subclasses of the tested classes other than the
   listed ones, and objects with adversarial __bool__/__class__ are outside this universe. *)
From Coq Require Import List Bool.
Import ListNotations.

Inductive pkind : Type :=
| PNone | PBool | PInt | PFloat | PComplex | PNumber      (* PNumber: Fraction / Decimal - numbers.Number only *)
| PStr | PBytes | PDatetime | PDate | PTime | PTimedelta
| PPurePath | PPath | PUrl | PIP | PUUID | PEmail | PGeom
| POther.

Record pval := mkP {
  p_kind : pkind;
  p_truthy : bool;    (* bool(v) *)
  p_nonneg : bool;    (* ints / bools: v >= 0 *)
  p_abs : bool;       (* paths: is_absolute() *)
  p_exists : bool;    (* concrete paths: visions.types.file.path_exists *)
  p_image : bool      (* concrete paths: path_is_image *)
}.

Definition pseq := list pval.
