(* Values: the abstract universe of sequences for the pandas backend's membership predicates.
   Hand-written MODEL of what visions can observe of a pandas Series:
     - the dtype, as the answers of the pandas.api.types predicates visions calls on it (measured on
       the concrete series by the harness; the theorems quantify over ALL answer tuples, a superset
       of the dtypes pandas has),
     - the values as the elements iteration yields, abstracted to a KIND (which Python class it
       behaves as for isinstance / __class__.__name__ / hasattr: measured, gen/KindTables_gen.v)
       plus the few flags the predicates inspect (path flags).
   Objects with adversarial __eq__/__class__/__getattr__ are outside this universe. *)
From Coq Require Import List Bool ZArith.
Import ListNotations.
From V Require Import PyBase.

Inductive kind : Type :=
| KNone | KNaN | KNA | KNaT                    (* the four missing-value sentinels *)
| KBool | KInt | KFloat | KComplex | KStr | KBytes
| KTimestamp | KPyDatetime | KDate | KTime | KTimedelta | KPyTimedelta
| KPurePath | KPath                             (* pathlib pure path / concrete path *)
| KUrl | KIP | KUUID | KEmail | KGeom
| KOther.                                       (* tuples, lists, dicts, plain objects ... *)

Record value := mkV {
  v_kind : kind;
  v_abs : bool;       (* paths: is_absolute() *)
  v_exists : bool;    (* concrete paths: exists() *)
  v_image : bool      (* concrete paths: path_is_image() *)
}.

Definition is_null (v : value) : bool :=
  match v_kind v with KNone | KNaN | KNA | KNaT => true | _ => false end.

(* answers of the dtype-level predicates *)
Record dfacts := mkDF {
  is_bool : bool; is_categorical : bool; is_complex : bool; is_unsigned_integer : bool;
  is_datetime64_any : bool; is_float : bool; is_integer : bool; is_numeric : bool;
  is_object : bool; is_string : bool; is_timedelta64 : bool; is_sparse : bool;
  dtype_is_sparse : bool;             (* isinstance(series.dtype, pd.SparseDtype) *)
  cat_ordered : option bool           (* series.cat.ordered; None: no .cat accessor (AttributeError) *)
}.

Record series := mkS { s_dtype : dfacts; s_vals : list value }.

Definition s_hasnans (s : series) : bool := existsb is_null (s_vals s).
Definition s_dropna (s : series) : series := mkS (s_dtype s) (filter (fun v => negb (is_null v)) (s_vals s)).
Definition s_empty (s : series) : bool := match s_vals s with [] => true | _ => false end.
Definition s_head (s : series) (n : Z) : list value := firstn (Z.to_nat n) (s_vals s).
Definition s_cat_ordered (s : series) : res bool :=
  match cat_ordered (s_dtype s) with Some b => Ok b | None => Raise AttributeError end.

Lemma dropna_no_nulls s : s_hasnans (s_dropna s) = false.
Proof.
  unfold s_hasnans, s_dropna. simpl. induction (s_vals s) as [|v l IH]; simpl; [reflexivity|].
  destruct (is_null v) eqn:E; simpl; [exact IH | rewrite E; exact IH].
Qed.

Lemma dropna_id s : s_hasnans s = false -> s_dropna s = s.
Proof.
  unfold s_hasnans, s_dropna. destruct s as [d l]; simpl. intro H. f_equal.
  induction l as [|v l IH]; simpl in *; [reflexivity|].
  apply orb_false_iff in H. destruct H as [H1 H2]. rewrite H1. simpl. rewrite IH; auto.
Qed.
