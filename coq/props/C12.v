(* C12 - The engine implements the documented traversal for any user-defined type system.
   Objects: the GENERATED engine (gen/Engine_gen.v, translated this run from typesets/typeset.py,
   relations/relations.py, backends/pandas/traversal.py, functional.py).  [ctx] carries the user's
   type system (relations, contains_op) and is universally quantified: arbitrary guards and
   transformers that may raise and may write to the state. *)
From Coq Require Import List Bool ZArith.
Import ListNotations.
From V Require Import PyBase NxModel WalkSpec Engine_gen Engine_bridge Frame_bridge EngineTheory.
Open Scope py_scope.

(* detect / infer are the reference walk (spec/WalkSpec.v) from the root over the successor
   lists of base_graph / relation_graph, started with an empty path and a NEW state dict, the
   state being threaded through every guard evaluated and every transformer applied and
   returned; detect_type / infer_type / cast_* are its projections. *)
Theorem C12_engine_is_reference_walk :
  forall (T D St L F : Type) (X : ctx T D St L F) fuel ts d,
    VT_detect X fuel ts d =
      (r <- root_of X ts ;;
       out <- walk (succ_of X (base_graph ts)) fuel r d (empty_state X tt) [] ;; ret (out, with_root ts r)) /\
    VT_infer X fuel ts d =
      (r <- root_of X ts ;;
       out <- walk (succ_of X (relation_graph ts)) fuel r d (empty_state X tt) [] ;; ret (out, with_root ts r)) /\
    VT_detect_type X fuel ts d =
      ('(out, ts') <- VT_detect X fuel ts d ;; let '(_, p, _) := out in t <- last_of p ;; ret (t, ts')) /\
    VT_infer_type X fuel ts d =
      ('(out, ts') <- VT_infer X fuel ts d ;; let '(_, p, _) := out in t <- last_of p ;; ret (t, ts')) /\
    VT_cast_to_detected X fuel ts d =
      ('(out, ts') <- VT_detect X fuel ts d ;; let '(x, _, _) := out in ret (x, ts')) /\
    VT_cast_to_inferred X fuel ts d =
      ('(out, ts') <- VT_infer X fuel ts d ;; let '(x, _, _) := out in ret (x, ts')).
Proof.
  intros.
  exact (conj (VT_detect_eq X fuel ts d) (conj (VT_infer_eq X fuel ts d) (conj (VT_detect_type_eq X fuel ts d)
        (conj (VT_infer_type_eq X fuel ts d) (conj (VT_cast_to_detected_eq X fuel ts d) (VT_cast_to_inferred_eq X fuel ts d)))))).
Qed.
Print Assumptions C12_engine_is_reference_walk.

(* The functional walk with fuel and the fuel-free relational reference semantics agree:
   whatever the engine returns is a reference walk, and every reference walk is returned for
   all sufficiently large fuel (Python has no fuel; a traversal that never terminates there is
   OutOfFuel for every fuel here). *)
Theorem C12_walk_is_reference_relation :
  forall (T D St : Type) (succ : T -> res (list (edge T D St))) t d st path out,
    (forall fuel, walk succ fuel t d st path = Ok out -> walks succ t d st path out) /\
    (walks succ t d st path out -> exists n, forall fuel, n < fuel -> walk succ fuel t d st path = Ok out).
Proof.
  intros. split; [intros fuel; exact (walk_walks succ fuel t d st path out) | exact (walks_walk succ t d st path out)].
Qed.
Print Assumptions C12_walk_is_reference_relation.

(* A DataFrame is one fresh, independent walk per column (new path, new state dict). *)
Theorem C12_frame_columns_are_fresh_walks :
  forall (T D St L F : Type) (X : ctx T D St L F) fuel df root g,
    _traverse_graph_dataframe X fuel df root g =
    (cols <- map_res (fun col => s <- frame_getitem X df col ;;
                                r <- walk (succ_of X g) fuel root s (empty_state X tt) [] ;; ret (col, r))
                     (frame_columns X df) ;;
     let d := od_of_pairs (L_eqb X) cols in
     ret (frame_of_dict X (collect X (fun r => fst (fst r)) d []),
          collect X (fun r => snd (fst r)) d [],
          collect X (fun r => snd r) d [])).
Proof. intros. exact (traverse_dataframe_eq X fuel df root g). Qed.
Print Assumptions C12_frame_columns_are_fresh_walks.

(* Non-vacuity: a 4-type system (0 root; 1,2 identity children of 0; inference 1 -> 3 doubling
   every element) run through the generated constructor and engine. *)
Definition ex_rel (rt ty : nat) (inf : bool) (g : list nat -> bool) (f : list nat -> list nat) : relation nat (list nat) (list nat) :=
  mkRel rt ty inf (fun d st => Ok (g d, st ++ [ty])) (fun d st => Ok (f d, st)).
Definition ex_ctx : ctx nat (list nat) (list nat) nat unit :=
  mkCtx Nat.eqb Nat.eqb
    (fun t => match t with
              | 1 => [ex_rel 0 1 false (forallb (fun x => Nat.ltb x 10)) (fun d => d)]
              | 2 => [ex_rel 0 2 false (forallb (fun x => Nat.leb 10 x)) (fun d => d)]
              | 3 => [ex_rel 1 3 true (forallb (fun x => Nat.ltb x 5)) (map (fun x => 2 * x))]
              | _ => [] end)
    (fun _ _ st => Ok (true, st)) (fun t => Nat.eqb t 0) 0 (fun l => l) (fun _ => [])
    (fun d => Z.of_nat (length d)) (fun d _ => d) (fun _ => []) (fun _ _ => Raise KeyError) (fun _ => tt) (fun l => l)
    (fun _ _ => Raise KeyError) (fun t => Z.of_nat t) (fun _ _ => 0%Z).
Example C12_example :
  exists ts w, VT_init ex_ctx (VT_blank ex_ctx) [0; 1; 2; 3] [] = Ok (tt, ts, w) /\
    (exists ts', VT_infer ex_ctx 5 ts [1; 2] = Ok (([2; 4], [0; 1; 3], [1; 3]), ts')) /\
    (exists ts', VT_detect ex_ctx 5 ts [1; 2] = Ok (([1; 2], [0; 1], [1]), ts')) /\
    (exists ts', VT_detect ex_ctx 5 ts [11] = Ok (([11], [0; 2], [1; 2]), ts')).
Proof. eexists. eexists. split; [vm_compute; reflexivity|]. repeat split; eexists; vm_compute; reflexivity. Qed.
